#!/venv/bin/python
"""Translator: regenerate coq/theories/Model/TokGen.v from the token rules of
$TEXSOUP_REPO/TexSoup/tokens.py (default /repo).

The bodies of the eleven functions registered with @token(...) are read with
the Python `ast` module only (nothing is imported or executed) and written as
terms of the small imperative language of coq/theories/Model/TokDSL.v, one Coq
constructor per Python construct.  Proofs/TokGenProofs.v then proves that the
interpretation of each generated term is the hand-written rule of
Model/Tokenizer.v, and that the registration order read here is
Tables.rule_order.

Fail-closed: every statement or expression shape that is not listed in
TokDSL.v raises TranslationError, as does everything around the rules that
could change what the decorators register (the `token` decorator itself, other
uses of `tokenizers`, rebinding of Token / CC / TC / len / next, ...).

The output depends on the abstract syntax only: comments, docstrings, layout
and the names of local variables do not change it.  Before a body is
translated it is brought into a normal form by the purely syntactic rewrites of
the section "normalisation" below (each one is an equivalence of Python
programs for the objects involved; the reason is given next to it): literal
module-level constants are inlined, helper functions are inlined, constant
locals are propagated, guards that return None early become nesting.

Usage: gen_tokrules.py <out.v>    exit 0 = written (only if content changed)
                                  exit 2 = translation failed (message on stderr)
"""
import ast
import copy
import os
import sys

REPO = os.environ.get('TEXSOUP_REPO', '/repo')


class TranslationError(Exception):
    pass


def need(cond, msg):
    if not cond:
        raise TranslationError(msg)


CC_NAMES = ['Escape', 'GroupBegin', 'GroupEnd', 'MathSwitch', 'Alignment', 'EndOfLine', 'Macro',
            'Superscript', 'Subscript', 'Ignored', 'Spacer', 'Letter', 'Other', 'Active',
            'Comment', 'Invalid', 'MathGroupBegin', 'MathGroupEnd', 'BracketBegin', 'BracketEnd',
            'ParenBegin', 'ParenEnd']
TC_NAMES = ['Escape', 'GroupBegin', 'GroupEnd', 'Comment', 'MergedSpacer', 'EscapedComment',
            'MathSwitch', 'DisplayMathSwitch', 'MathGroupBegin', 'MathGroupEnd',
            'DisplayMathGroupBegin', 'DisplayMathGroupEnd', 'LineBreak', 'CommandName', 'Text',
            'BracketBegin', 'BracketEnd', 'ParenBegin', 'ParenEnd', 'PunctuationCommandName',
            'SizeCommand', 'Spacer']
RULES = ['escaped_symbols', 'comment', 'math_sym_switch', 'math_asym_switch', 'line_break',
         'ignore', 'spacers', 'symbols', 'punctuation_command_name', 'command_name', 'string']

# names whose module-level meaning the translation relies on; a rule must not
# rebind them, and the module must bind them as expected (see check_module)
RESERVED = {'Token', 'CC', 'TC', 'len', 'next', 'PUNCTUATION_COMMANDS', 'tokenizers', 'token'}

# the decorator, as the hand-written driver assumes it: registration in
# definition order, function returned unchanged
TOKEN_DECORATOR = '''
def token(name):
    def wrap(f):
        tokenizers.append((name, f))
        return f
    return wrap
'''


def where(n):
    return 'line %s' % getattr(n, 'src_line', getattr(n, 'lineno', '?'))


def shape(n):
    return ast.dump(n)[:120]


def is_name(n, ident):
    return isinstance(n, ast.Name) and n.id == ident


def is_int(n):
    return isinstance(n, ast.Constant) and type(n.value) is int


def strip_doc(body):
    if body and isinstance(body[0], ast.Expr) and isinstance(body[0].value, ast.Constant) \
            and isinstance(body[0].value.value, str):
        return body[1:]
    return body


def strip_annotations(tree):
    """Annotations of parameters, return values and assignments do not take part
    in running a function: `def f(x: T = d) -> R` is `def f(x=d)`, `x: T = e`
    is `x = e`.  (A bare `x: T` is left alone and refused later.)"""
    class T(ast.NodeTransformer):
        def visit_FunctionDef(self, n):
            self.generic_visit(n)
            n.returns = None
            a = n.args
            for x in getattr(a, 'posonlyargs', []) + a.args + a.kwonlyargs + [a.vararg, a.kwarg]:
                if x is not None:
                    x.annotation = None
            return n

        def visit_AnnAssign(self, n):
            self.generic_visit(n)
            if n.value is not None and isinstance(n.target, (ast.Name, ast.Attribute)):
                return ast.copy_location(ast.Assign(targets=[n.target], value=n.value), n)
            return n
    return ast.fix_missing_locations(T().visit(tree))


# --------------------------------------------------------------------- module

def check_module(tree):
    """Everything outside the rule bodies that the translation relies on.
    Returns [(rule name, FunctionDef)] in registration (= definition) order."""
    need(isinstance(tree, ast.Module), 'not a module')
    # ---- module-level bindings of the names the rules use
    bound = {}          # name -> list of descriptions

    def bind(name, how):
        bound.setdefault(name, []).append(how)

    for st in tree.body:
        if isinstance(st, ast.ImportFrom):
            for a in st.names:
                need(a.name != '*', 'star import at %s' % where(st))
                bind(a.asname or a.name, 'from %s import %s' % (st.module, a.name))
        elif isinstance(st, ast.Import):
            for a in st.names:
                bind((a.asname or a.name).split('.')[0], 'import')
        elif isinstance(st, (ast.FunctionDef, ast.ClassDef)):
            bind(st.name, 'def')
        elif isinstance(st, ast.Assign):
            for t in st.targets:
                for x in ast.walk(t):
                    if isinstance(x, ast.Name):
                        bind(x.id, 'assign')
        elif isinstance(st, ast.Expr) and isinstance(st.value, ast.Constant):
            pass                                    # docstring
        else:
            raise TranslationError('unexpected module-level statement at %s: %s' % (where(st), shape(st)))
    for nm in ('Token', 'CC', 'TC'):
        need(bound.get(nm) == ['from TexSoup.utils import %s' % nm],
             'module-level binding of %s changed: %s' % (nm, bound.get(nm)))
    for nm in ('len', 'next'):
        need(nm not in bound, 'builtin %s is rebound at module level' % nm)
    need(bound.get('PUNCTUATION_COMMANDS') == ['assign'], 'PUNCTUATION_COMMANDS binding changed')
    need(bound.get('tokenizers') == ['assign'], '`tokenizers` binding changed: %s' % bound.get('tokenizers'))
    need(bound.get('token') == ['def'], '`token` binding changed: %s' % bound.get('token'))
    # any `global` / `nonlocal` / del could defeat the checks above
    for n in ast.walk(tree):
        need(not isinstance(n, (ast.Global, ast.Nonlocal, ast.Delete)),
             'global/nonlocal/del at %s' % where(n))
    # ---- tokenizers = []
    asg = [st for st in tree.body if isinstance(st, ast.Assign)
           and any(is_name(t, 'tokenizers') for t in st.targets)]
    need(len(asg) == 1 and len(asg[0].targets) == 1 and isinstance(asg[0].value, ast.List)
         and asg[0].value.elts == [], '`tokenizers = []` changed')
    # ---- the decorator
    ref = ast.parse(TOKEN_DECORATOR).body[0]
    dec = [st for st in tree.body if isinstance(st, ast.FunctionDef) and st.name == 'token']
    need(len(dec) == 1, '`token` decorator not found')
    need(ast.dump(dec[0].args) == ast.dump(ref.args)
         and [ast.dump(x) for x in strip_doc(dec[0].body)] == [ast.dump(x) for x in ref.body]
         and not dec[0].decorator_list and dec[0].returns is None,
         'the `token` decorator changed')
    # ---- uses of `tokenizers` and of `token`
    owners = {}
    for st in tree.body:
        for n in ast.walk(st):
            if isinstance(n, ast.Name) and n.id == 'tokenizers':
                owners.setdefault(st.name if isinstance(st, ast.FunctionDef) else '<module>', []).append(
                    type(n.ctx).__name__)
    need(owners == {'<module>': ['Store'], 'token': ['Load'], 'next_token': ['Load']},
         '`tokenizers` is used in unexpected places: %s' % sorted(owners.items()))
    # ---- the registered functions, in definition order
    rules = []
    for st in tree.body:
        if isinstance(st, ast.FunctionDef) and st.decorator_list:
            need(len(st.decorator_list) == 1, '%s: more than one decorator' % st.name)
            d = st.decorator_list[0]
            if isinstance(d, ast.Call) and is_name(d.func, 'token'):
                need(len(d.args) == 1 and not d.keywords and isinstance(d.args[0], ast.Constant)
                     and isinstance(d.args[0].value, str), '%s: @token argument' % st.name)
                rules.append((d.args[0].value, st))
    uses = [n for n in ast.walk(tree) if isinstance(n, ast.Name) and n.id == 'token']
    need(len(uses) == len(rules), '`token` is used other than as a top-level decorator')
    names = [r for r, _ in rules]
    need(sorted(names) == sorted(RULES), 'registered token rules changed: %s' % names)
    for nm in ('frozenset', 'tuple', 'set', 'list'):
        need(nm not in bound, 'builtin %s is rebound at module level' % nm)
    return rules, bound



# -------------------------------------------------------------- normalisation
# Purely syntactic rewrites of a rule body (a copy of its Python AST) that are
# applied before the translation.  Each is an equivalence of Python programs
# for the objects the rules work on (a Buffer `text`, Tokens, IntEnum category
# codes); whatever they do not recognise is left alone and then either
# translates as it stands or fails closed in the translation.

def is_code_attr(n):
    """CC.x / TC.x"""
    return (isinstance(n, ast.Attribute) and isinstance(n.value, ast.Name)
            and n.value.id in ('CC', 'TC') and isinstance(n.ctx, ast.Load))


def is_none_const(n):
    return isinstance(n, ast.Constant) and n.value is None


def simple_const(n):
    """an int literal or CC.x / TC.x: immutable, evaluation has no effect"""
    if is_int(n):
        return True
    if isinstance(n, ast.UnaryOp) and isinstance(n.op, ast.USub) and is_int(n.operand):
        return True
    return is_code_attr(n)


def same(a, b):
    return ast.dump(a) == ast.dump(b)


def stored_names(nodes):
    out = set()
    for st in nodes:
        for n in ast.walk(st):
            if isinstance(n, ast.Name) and isinstance(n.ctx, (ast.Store, ast.Del)):
                out.add(n.id)
    return out


def param_names(fn):
    a = fn.args
    out = [x.arg for x in getattr(a, 'posonlyargs', []) + a.args + a.kwonlyargs]
    if a.vararg:
        out.append(a.vararg.arg)
    if a.kwarg:
        out.append(a.kwarg.arg)
    return out


# ---- literal module-level constants

def literal_collection(v):
    """the elements of a literal tuple / list / set of category codes, possibly
    wrapped in frozenset() / tuple() / set() / list(); None for anything else"""
    if isinstance(v, ast.Call) and isinstance(v.func, ast.Name) \
            and v.func.id in ('frozenset', 'tuple', 'set', 'list') \
            and len(v.args) == 1 and not v.keywords:
        v = v.args[0]
    if isinstance(v, (ast.Tuple, ast.List, ast.Set)) and v.elts and all(is_code_attr(e) for e in v.elts):
        return v.elts
    return None


def literal_dict(v):
    def key_ok(k):
        return k is not None and (is_code_attr(k) or (isinstance(k, ast.Tuple) and len(k.elts) == 2
                                                      and all(is_code_attr(e) for e in k.elts)))
    if isinstance(v, ast.Dict) and v.keys and all(key_ok(k) for k in v.keys) \
            and all(is_code_attr(x) for x in v.values):
        return v
    return None


def module_constants(tree, bound):
    """{name: ('coll', [elements]) | ('dict', ast.Dict)} for the module-level
    names that are bound exactly once, by a literal of category codes, and whose
    every other occurrence in the module only READS them: right operand of
    in / not in (also NAME.keys() there) or NAME[...].  Such a name means its
    literal wherever a function uses it without binding it locally (membership
    in a tuple, a list, a set or a frozenset of IntEnum members is the same
    test; the members hash and compare as ints, None is in none of them)."""
    consts = {}
    for st in tree.body:
        if isinstance(st, ast.Assign) and len(st.targets) == 1 and isinstance(st.targets[0], ast.Name):
            nm = st.targets[0].id
            if bound.get(nm) != ['assign'] or nm in RESERVED:
                continue
            el = literal_collection(st.value)
            if el is not None:
                consts[nm] = ('coll', el)
            elif literal_dict(st.value) is not None:
                consts[nm] = ('dict', st.value)
    readers = set()
    for n in ast.walk(tree):
        if isinstance(n, ast.Compare) and len(n.ops) == 1 and isinstance(n.ops[0], (ast.In, ast.NotIn)):
            r = n.comparators[0]
            if isinstance(r, ast.Name):
                readers.add(id(r))
            if isinstance(r, ast.Call) and isinstance(r.func, ast.Attribute) and r.func.attr == 'keys' \
                    and isinstance(r.func.value, ast.Name) and not r.args and not r.keywords:
                readers.add(id(r.func.value))
        if isinstance(n, ast.Subscript) and isinstance(n.ctx, ast.Load) and isinstance(n.value, ast.Name):
            readers.add(id(n.value))
    bad = set()
    for n in ast.walk(tree):
        if isinstance(n, ast.Name) and n.id in consts and isinstance(n.ctx, ast.Load) and id(n) not in readers:
            bad.add(n.id)
    # a name that some function binds locally is not touched in that function
    # (inline_constants); at module level it is bound once (bound == ['assign'])
    return dict((k, v) for k, v in consts.items() if k not in bad)


def inline_constants(fn, consts):
    """uses of a literal module constant inside fn: a collection is replaced by
    the tuple of its elements where it is tested; a dict becomes the local
    `NAME = {...}` as the first statement (building the dict has no effect)"""
    local = stored_names(fn.body) | set(param_names(fn))
    used_dicts = []

    class T(ast.NodeTransformer):
        def visit_Name(self, n):
            if isinstance(n.ctx, ast.Load) and n.id in consts and n.id not in local:
                kind, val = consts[n.id]
                if kind == 'coll':
                    return ast.Tuple(elts=[copy.deepcopy(e) for e in val], ctx=ast.Load())
                if n.id not in used_dicts:
                    used_dicts.append(n.id)
            return n
    fn.body = [T().visit(st) for st in fn.body]
    pre = [ast.Assign(targets=[ast.Name(id=nm, ctx=ast.Store())], value=copy.deepcopy(consts[nm][1]))
           for nm in used_dicts]
    fn.body = pre + fn.body


# ---- helper functions

def helper_defs(tree, bound):
    """module-level functions that may be inlined: bound once, by a plain def"""
    out = {}
    for st in tree.body:
        if isinstance(st, ast.FunctionDef) and not st.decorator_list and bound.get(st.name) == ['def'] \
                and st.name not in ('token', 'next_token', 'tokenize') and st.name not in RESERVED:
            out[st.name] = st
    return out


class Inliner(object):
    """`x = helper(args)` / `helper(args)` as a statement is replaced by the
    helper's body: a parameter that receives `text` / `prev` or a constant is
    replaced by it (the helper must not rebind it), any other parameter becomes
    a local bound to its argument first (exactly what the call does), the
    helper's own locals are renamed apart, and its single `return v` (last
    statement) becomes the binding of x.  When x itself is passed for the
    returned parameter, or a freshly built object is, that parameter IS x.
    Helpers whose body has any other `return`, nested functions, generators ...
    are not inlined (the call then fails to translate)."""

    def __init__(self, helpers, caller):
        self.helpers, self.caller, self.k = helpers, caller, 0
        self.caller_locals = stored_names(caller.body) | set(param_names(caller))

    def site(self, s):
        if isinstance(s, ast.Assign) and len(s.targets) == 1 and isinstance(s.targets[0], ast.Name) \
                and isinstance(s.value, ast.Call) and isinstance(s.value.func, ast.Name) \
                and s.value.func.id in self.helpers and s.value.func.id not in self.caller_locals:
            return s.value, s.targets[0].id
        if isinstance(s, ast.Expr) and isinstance(s.value, ast.Call) and isinstance(s.value.func, ast.Name) \
                and s.value.func.id in self.helpers and s.value.func.id not in self.caller_locals:
            return s.value, None
        return None, None

    def block(self, stmts, depth=0):
        out = []
        for s in stmts:
            call, target = self.site(s)
            if call is not None:
                need(depth < 4, '%s: helper calls nest too deep' % self.caller.name)
                out.extend(self.block(self.expand(call, target), depth + 1))
                continue
            for fld in ('body', 'orelse'):
                if isinstance(getattr(s, fld, None), list):
                    setattr(s, fld, self.block(getattr(s, fld), depth))
            out.append(s)
        return out

    def expand(self, call, target):
        h = self.helpers[call.func.id]
        who = '%s: call of %s' % (self.caller.name, h.name)
        a = h.args
        need(not a.vararg and not a.kwonlyargs and not a.kwarg and not getattr(a, 'posonlyargs', [])
             and not a.defaults and not a.kw_defaults, '%s: unsupported parameter kinds' % who)
        params = [x.arg for x in a.args]
        need(len(set(params)) == len(params), '%s: duplicate parameter' % who)
        need(not any(isinstance(x, ast.Starred) for x in call.args)
             and all(k.arg is not None for k in call.keywords), '%s: * or ** argument' % who)
        need(len(call.args) <= len(params), '%s: too many arguments' % who)
        slots = list(call.args) + [None] * (len(params) - len(call.args))
        for k in call.keywords:
            need(k.arg in params and slots[params.index(k.arg)] is None, '%s: keyword %s' % (who, k.arg))
            slots[params.index(k.arg)] = k.value
        need(all(x is not None for x in slots), '%s: missing argument' % who)
        # arguments are evaluated in call order; only names, constants and ONE
        # constructed object are accepted, so the order cannot matter
        need(sum(1 for x in slots if not (isinstance(x, ast.Name) or simple_const(x) or is_none_const(x))) <= 1,
             '%s: more than one computed argument' % who)
        if target is not None and any(isinstance(x, ast.Call) for x in slots):
            need(sum(1 for x in slots if isinstance(x, ast.Name) and x.id == target) == 0,
                 '%s: %s is passed next to a computed argument' % (who, target))
        body = copy.deepcopy(strip_doc(h.body))
        need(body, '%s: empty helper' % who)
        for st in body:
            for n in ast.walk(st):
                need(not isinstance(n, (ast.FunctionDef, ast.AsyncFunctionDef, ast.Lambda, ast.ClassDef,
                                        ast.Yield, ast.YieldFrom, ast.Await, ast.Try, ast.With, ast.Import,
                                        ast.ImportFrom, ast.Global, ast.Nonlocal, ast.Delete)),
                     '%s: unsupported construct %s in the helper' % (who, type(n).__name__))
        rets = [n for st in body for n in ast.walk(st) if isinstance(n, ast.Return)]
        ret = None
        if rets:
            need(len(rets) == 1 and body[-1] is rets[0], '%s: the helper returns other than at its end' % who)
            r = body.pop()
            if not (r.value is None or is_none_const(r.value)):
                need(isinstance(r.value, ast.Name), '%s: the helper returns an expression' % who)
                ret = r.value.id
        if target is not None:
            need(ret is not None, '%s: the value of a helper that returns None is used' % who)
        stores = stored_names(body)
        hlocals = set(params) | stores
        self.k += 1
        rename, subst, pre, post = {}, {}, [], []

        def fresh(nm):
            return '_h%d_%s' % (self.k, nm)

        def assign(nm, val):
            return ast.Assign(targets=[ast.Name(id=nm, ctx=ast.Store())], value=val)
        for p, arg in zip(params, slots):
            if isinstance(arg, ast.Name) and arg.id in ('text', 'prev') and arg.id not in stored_names(self.caller.body):
                need(p not in stores, '%s: the helper rebinds the parameter that receives %s' % (who, arg.id))
                rename[p] = arg.id
            elif simple_const(arg) or is_none_const(arg):
                need(p not in stores, '%s: the helper rebinds the parameter that receives a constant' % who)
                subst[p] = arg
            elif p == ret and target is not None and isinstance(arg, ast.Name) and arg.id == target:
                rename[p] = target
            elif p == ret and target is not None and isinstance(arg, ast.Call):
                rename[p] = target
                pre.append(assign(target, copy.deepcopy(arg)))
            else:
                rename[p] = fresh(p)
                pre.append(assign(rename[p], copy.deepcopy(arg)))
        for l in sorted(stores - set(params)):
            rename[l] = target if (l == ret and target is not None) else fresh(l)
        if ret is not None and target is not None and ret in subst:
            post.append(assign(target, copy.deepcopy(subst[ret])))
        elif ret is not None and target is not None and rename.get(ret) != target:
            need(ret in rename, '%s: the helper returns the global %s' % (who, ret))
            post.append(assign(target, ast.Name(id=rename[ret], ctx=ast.Load())))
        # a global name of the helper must not be captured by a caller local
        for st in body:
            for n in ast.walk(st):
                if isinstance(n, ast.Name) and n.id not in hlocals:
                    need(n.id not in self.caller_locals and not n.id.startswith('_h'),
                         '%s: the helper uses the global %s, a local of the caller' % (who, n.id))

        class T(ast.NodeTransformer):
            def visit_Name(self, n):
                if n.id in subst:
                    return copy.deepcopy(subst[n.id])
                if n.id in rename:
                    return ast.Name(id=rename[n.id], ctx=n.ctx)
                return n
        body = [T().visit(st) for st in body]
        self.caller_locals |= set(rename.values())
        return pre + body + post


# ---- return None early / at the end; conditional-expression returns

def is_ret_none(s):
    return isinstance(s, ast.Return) and (s.value is None or is_none_const(s.value))


def negate(e):
    """an expression with the opposite truth value, same evaluation order, same
    exceptions: De Morgan keeps the short-circuit order; == / !=, in / not in,
    is / is not are each other's negation for the values compared here (ints,
    IntEnum members, None, one-character strs / Tokens)"""
    if isinstance(e, ast.UnaryOp) and isinstance(e.op, ast.Not):
        return e.operand
    if isinstance(e, ast.BoolOp):
        op = ast.Or() if isinstance(e.op, ast.And) else ast.And()
        return ast.BoolOp(op=op, values=[negate(v) for v in e.values])
    if isinstance(e, ast.Compare) and len(e.ops) == 1:
        flip = {ast.Eq: ast.NotEq, ast.NotEq: ast.Eq, ast.In: ast.NotIn, ast.NotIn: ast.In,
                ast.Is: ast.IsNot, ast.IsNot: ast.Is}.get(type(e.ops[0]))
        if flip is not None:
            return ast.Compare(left=e.left, ops=[flip()], comparators=e.comparators)
    return ast.UnaryOp(op=ast.Not(), operand=e)


def expand_ifexp_returns(stmts):
    """return A if C else B   ==   if C: return A   else: return B"""
    out = []
    for s in stmts:
        for fld in ('body', 'orelse'):
            if isinstance(getattr(s, fld, None), list):
                setattr(s, fld, expand_ifexp_returns(getattr(s, fld)))
        if isinstance(s, ast.Return) and isinstance(s.value, ast.IfExp):
            s = ast.If(test=s.value.test, body=[ast.Return(value=s.value.body)],
                       orelse=[ast.Return(value=s.value.orelse)])
            s.body = expand_ifexp_returns(s.body)
            s.orelse = expand_ifexp_returns(s.orelse)
        out.append(s)
    return out


def norm_tail(stmts):
    """stmts ends where the function ends (falling off returns None):
       ...; return None                    ==  ...
       if G: return None                   ==  if not G:
       REST                                        REST
       if C: (nothing) else: X             ==  if not C: X
    and the same inside the branches of a final `if`."""
    out = list(stmts)
    for i, s in enumerate(out):
        if isinstance(s, ast.If) and not s.orelse and len(s.body) == 1 and is_ret_none(s.body[0]) \
                and i < len(out) - 1:
            rest = norm_tail(out[i + 1:])
            if rest:
                return out[:i] + [ast.If(test=negate(s.test), body=rest, orelse=[])]
            break
    if out and is_ret_none(out[-1]):
        out.pop()
    if out and isinstance(out[-1], ast.If):
        s = out[-1]
        s.body, s.orelse = norm_tail(s.body), norm_tail(s.orelse)
        if not s.body and s.orelse:
            out[-1] = ast.If(test=negate(s.test), body=s.orelse, orelse=[])
    return out


# ---- locals that only ever hold constants

class ConstProp(object):
    """A local all of whose bindings are `x = <int literal or CC.a / TC.a>`
    (also through tuple unpacking of such a tuple) is replaced by the constant
    it holds.  Where the two branches of an `if` leave different constants in
    such a local and the following statements read it, those statements are
    moved into both branches (they follow either branch anyway)."""

    def __init__(self, fn):
        self.name = fn.name
        cand, other = set(), set()

        def classify(t, v):
            if isinstance(t, ast.Name):
                (cand if v is not None and simple_const(v) else other).add(t.id)
            elif isinstance(t, (ast.Tuple, ast.List)):
                if isinstance(v, ast.Tuple) and len(v.elts) == len(t.elts):
                    for x, y in zip(t.elts, v.elts):
                        classify(x, y)
                else:
                    for x in t.elts:
                        classify(x, None)
            else:
                for n in ast.walk(t):
                    if isinstance(n, ast.Name) and isinstance(n.ctx, ast.Store):
                        other.add(n.id)
        for n in ast.walk(fn):
            if isinstance(n, ast.Assign):
                for t in n.targets:
                    classify(t, n.value)
            elif isinstance(n, (ast.AugAssign, ast.AnnAssign)):
                classify(n.target, None)
            elif isinstance(n, (ast.For, ast.comprehension)):
                classify(n.target, None)
            elif isinstance(n, ast.NamedExpr):
                classify(n.target, None)
        self.names = cand - other - set(param_names(fn)) - RESERVED
        self.budget = 400

    def subst(self, node, env):
        if not env:
            return node

        class T(ast.NodeTransformer):
            def visit_Name(self, n):
                if isinstance(n.ctx, ast.Load) and n.id in env:
                    return copy.deepcopy(env[n.id])
                return n
        return T().visit(node)

    def const_targets(self, s):
        """[(name, value)] when s binds constant locals only, else None"""
        if not isinstance(s, ast.Assign):
            return None
        pairs = []

        def go(t, v):
            if isinstance(t, ast.Name):
                pairs.append((t.id, v))
            elif isinstance(t, (ast.Tuple, ast.List)) and isinstance(v, ast.Tuple) and len(v.elts) == len(t.elts):
                for x, y in zip(t.elts, v.elts):
                    go(x, y)
            else:
                pairs.append((None, None))
        for t in s.targets:
            go(t, s.value)
        hits = [nm in self.names for nm, _ in pairs]
        if not any(hits):
            return None
        need(all(hits), '%s: constant and other locals bound by one assignment' % self.name)
        return pairs

    def reads(self, stmts, names):
        return any(isinstance(n, ast.Name) and isinstance(n.ctx, ast.Load) and n.id in names
                   for st in stmts for n in ast.walk(st))

    def block(self, stmts, env):
        out = []
        for i, s in enumerate(stmts):
            self.budget -= 1
            need(self.budget > 0, '%s: constant propagation grows too large' % self.name)
            pairs = self.const_targets(s)
            if pairs is not None:
                for nm, v in pairs:
                    env[nm] = v
                continue
            if isinstance(s, ast.If):
                test = self.subst(s.test, env)
                b1, e1 = self.block(s.body, dict(env))
                b2, e2 = self.block(s.orelse, dict(env))
                diff = set(k for k in set(e1) | set(e2)
                           if k not in e1 or k not in e2 or not same(e1[k], e2[k]))
                rest = stmts[i + 1:]
                if diff and rest and self.reads(rest, diff):
                    r1, x1 = self.block(copy.deepcopy(rest), e1)
                    r2, x2 = self.block(copy.deepcopy(rest), e2)
                    out.append(ast.If(test=test, body=b1 + r1, orelse=b2 + r2))
                    return out, self.meet(x1, x2)
                out.append(ast.If(test=test, body=b1, orelse=b2))
                env = self.meet(e1, e2)
                continue
            if isinstance(s, (ast.While, ast.For)):
                need(not (stored_names(s.body) | stored_names(s.orelse)) & self.names,
                     '%s: a constant local is bound inside a loop' % self.name)
                if isinstance(s, ast.While):
                    s.test = self.subst(s.test, env)
                else:
                    s.iter = self.subst(s.iter, env)
                s.body, _ = self.block(s.body, dict(env))
                s.orelse, _ = self.block(s.orelse, dict(env))
                out.append(s)
                continue
            out.append(self.subst(s, env))
        return out, env

    def meet(self, e1, e2):
        return dict((k, v) for k, v in e1.items() if k in e2 and same(v, e2[k]))


# ---- shape of if statements

def merge_suffix(stmts):
    """if C: X; S  else: Y; S      ==   if C: X  else: Y
                                         S"""
    out = []
    for s in stmts:
        for fld in ('body', 'orelse'):
            if isinstance(getattr(s, fld, None), list):
                setattr(s, fld, merge_suffix(getattr(s, fld)))
        after = []
        if isinstance(s, ast.If):
            while s.body and s.orelse and same(s.body[-1], s.orelse[-1]):
                after.insert(0, s.body.pop())
                s.orelse.pop()
            if not s.body and s.orelse:
                s = ast.If(test=negate(s.test), body=s.orelse, orelse=[])
        out.append(s)
        out.extend(after)
    return out


def merge_ifs(stmts):
    """if A:            ==   if A and B:      (neither `if` has an else)
           if B: X               X"""
    out = []
    for s in stmts:
        for fld in ('body', 'orelse'):
            if isinstance(getattr(s, fld, None), list):
                setattr(s, fld, merge_ifs(getattr(s, fld)))
        while isinstance(s, ast.If) and not s.orelse and len(s.body) == 1 \
                and isinstance(s.body[0], ast.If) and not s.body[0].orelse:
            def conj(e):
                return list(e.values) if isinstance(e, ast.BoolOp) and isinstance(e.op, ast.And) else [e]
            s = ast.If(test=ast.BoolOp(op=ast.And(), values=conj(s.test) + conj(s.body[0].test)),
                       body=s.body[0].body, orelse=[])
        out.append(s)
    return out


def is_new_token(v):
    """Token('', text.position[, category=TC.x])"""
    return (isinstance(v, ast.Call) and is_name(v.func, 'Token') and len(v.args) == 2
            and isinstance(v.args[0], ast.Constant) and v.args[0].value == ''
            and isinstance(v.args[1], ast.Attribute) and v.args[1].attr == 'position'
            and is_name(v.args[1].value, 'text')
            and all(k.arg == 'category' and is_code_attr(k.value) for k in v.keywords)
            and len(v.keywords) <= 1)


def hoist_new_token(body):
    """...                                    ...
       if C:                           ==     x = Token('', text.position)
           x = Token('', text.position)       if C:
           REST                                   REST
    when the `if` is the last statement of the function, has no else, and C
    does not read x: building the empty token has no effect and cannot fail,
    and nobody reads x when C is false."""
    if body and isinstance(body[-1], ast.If) and not body[-1].orelse and len(body[-1].body) >= 2:
        s = body[-1]
        f = s.body[0]
        if isinstance(f, ast.Assign) and len(f.targets) == 1 and isinstance(f.targets[0], ast.Name) \
                and is_new_token(f.value) \
                and not any(isinstance(n, ast.Name) and n.id == f.targets[0].id for n in ast.walk(s.test)):
            return body[:-1] + [f, ast.If(test=s.test, body=s.body[1:], orelse=[])]
    return body


def lift_predicates(fn):
    """def p(c): return E   nested in the rule and bound once   ==   p = lambda c: E;
    the name is replaced by the lambda where it is read"""
    preds = {}
    for st in fn.body:
        if isinstance(st, ast.FunctionDef) and not st.decorator_list and not st.args.defaults \
                and not st.args.vararg and not st.args.kwarg and not st.args.kwonlyargs \
                and not getattr(st.args, 'posonlyargs', []) and len(st.args.args) == 1:
            body = strip_doc(st.body)
            if len(body) == 1 and isinstance(body[0], ast.Return) and body[0].value is not None:
                preds[st.name] = ast.Lambda(args=st.args, body=body[0].value)
    stores = [n.id for st in fn.body for n in ast.walk(st)
              if isinstance(n, ast.Name) and isinstance(n.ctx, (ast.Store, ast.Del))]
    defs = [n.name for st in fn.body for n in ast.walk(st) if isinstance(n, (ast.FunctionDef, ast.ClassDef))]
    preds = dict((k, v) for k, v in preds.items()
                 if k not in stores and defs.count(k) == 1 and k not in param_names(fn))
    if not preds:
        return

    class T(ast.NodeTransformer):
        def visit_Name(self, n):
            if isinstance(n.ctx, ast.Load) and n.id in preds:
                return copy.deepcopy(preds[n.id])
            return n
    fn.body = [T().visit(st) for st in fn.body
               if not (isinstance(st, ast.FunctionDef) and st.name in preds)]


def expand_ifexp_assigns(stmts):
    """x = A if C else B   ==   if C: x = A   else: x = B     (x a name or name.attr)"""
    out = []
    for s in stmts:
        for fld in ('body', 'orelse'):
            if isinstance(getattr(s, fld, None), list):
                setattr(s, fld, expand_ifexp_assigns(getattr(s, fld)))
        if isinstance(s, ast.Assign) and isinstance(s.value, ast.IfExp) and len(s.targets) == 1 \
                and (isinstance(s.targets[0], ast.Name) or (isinstance(s.targets[0], ast.Attribute)
                                                            and isinstance(s.targets[0].value, ast.Name))):
            t = s.targets[0]
            s = ast.If(test=s.value.test,
                       body=[ast.Assign(targets=[copy.deepcopy(t)], value=s.value.body)],
                       orelse=[ast.Assign(targets=[copy.deepcopy(t)], value=s.value.orelse)])
        out.append(s)
    return out


def renumber(fn):
    """line numbers in evaluation (pre-)order, for messages and for readers that
    sort by position (gen_tables.py)"""
    k = [0]

    def go(n):
        k[0] += 1
        if not hasattr(n, 'src_line'):
            n.src_line = getattr(n, 'lineno', '?')
        n.lineno, n.col_offset, n.end_lineno, n.end_col_offset = k[0], 0, k[0], 0
        for c in ast.iter_child_nodes(n):
            go(c)
    go(fn)
    return fn


def normalise(fn, consts, helpers):
    """the normal form of a rule (a copy; fn itself is not modified)"""
    fn = copy.deepcopy(fn)
    fn.body = strip_doc(fn.body)
    need(fn.body, '%s: empty body' % fn.name)
    lift_predicates(fn)
    fn.body = Inliner(helpers, fn).block(fn.body)
    inline_constants(fn, consts)
    fn.body = expand_ifexp_returns(fn.body)
    fn.body = expand_ifexp_assigns(fn.body)
    fn.body = norm_tail(fn.body)
    fn.body, _ = ConstProp(fn).block(fn.body, {})
    fn.body = merge_suffix(fn.body)
    fn.body = merge_ifs(fn.body)
    fn.body = hoist_new_token(fn.body)
    need(fn.body, '%s: empty body' % fn.name)
    return renumber(fn)


def normalised_rules(tree):
    """[(rule name, normalised FunctionDef)] in registration order"""
    rules, bound = check_module(tree)
    consts = module_constants(tree, bound)
    helpers = helper_defs(tree, bound)
    return [(name, normalise(fn, consts, helpers)) for name, fn in rules]


# ---------------------------------------------------------------------- rules

class Rule(object):
    """Translation of one rule body (in normal form).  Local names are tracked by
    role: the DSL has one token variable (`tok`), a second one (`tmp`), one dict
    (`map`), one key, one loop variable (`point`), one recorded position
    (`start`), one int (`int`)."""

    def __init__(self, fn):
        self.fn = fn
        self.roles = {}
        self.in_for = False
        a = fn.args
        need([x.arg for x in a.args] == ['text', 'prev'] and not a.vararg and not a.kwonlyargs
             and not a.kwarg and not getattr(a, 'posonlyargs', [])
             and len(a.defaults) == 1 and isinstance(a.defaults[0], ast.Constant)
             and a.defaults[0].value is None and len(a.kw_defaults) == 0,
             '%s: parameters are not (text, prev=None)' % fn.name)
        # annotations are not evaluated when the rule runs: ignored
        for n in ast.walk(fn):
            need(not isinstance(n, (ast.FunctionDef, ast.AsyncFunctionDef, ast.ClassDef,
                                    ast.Yield, ast.YieldFrom, ast.Await, ast.Try, ast.With,
                                    ast.Import, ast.ImportFrom)) or n is fn,
                 '%s: unsupported construct at %s: %s' % (fn.name, where(n), type(n).__name__))

    def err(self, n, what):
        raise TranslationError('%s, %s: %s: %s' % (self.fn.name, where(n), what, shape(n)))

    # ---- names
    def bind(self, node, role):
        need(isinstance(node, ast.Name), '%s: assignment target %s' % (self.fn.name, shape(node)))
        nm = node.id
        need(nm not in RESERVED and nm not in ('text', 'prev'),
             '%s: assignment to reserved name %s' % (self.fn.name, nm))
        if nm in self.roles:
            need(self.roles[nm] == role, '%s: local %s used both as %s and as %s'
                 % (self.fn.name, nm, self.roles[nm], role))
        else:
            need(role not in self.roles.values(),
                 '%s: a second %s variable (%s)' % (self.fn.name, role, nm))
            self.roles[nm] = role

    def has_role(self, node, role):
        if not isinstance(node, ast.Name):
            return False
        if role in ('text', 'prev'):
            return node.id == role
        if role == 'point' and not self.in_for:
            return False
        return self.roles.get(node.id) == role

    def text_call(self, n, meth):
        """text.<meth>(args) -> args, else None"""
        if isinstance(n, ast.Call) and isinstance(n.func, ast.Attribute) and n.func.attr == meth \
                and self.has_role(n.func.value, 'text') and not n.keywords:
            return n.args
        return None

    def text_position(self, n):
        return isinstance(n, ast.Attribute) and n.attr == 'position' and self.has_role(n.value, 'text')

    # ---- atoms
    def cc(self, n):
        if isinstance(n, ast.Attribute) and is_name(n.value, 'CC'):
            need(n.attr in CC_NAMES, '%s: unknown category CC.%s' % (self.fn.name, n.attr))
            return 'C' + n.attr
        self.err(n, 'expected CC.<name>')

    def tc(self, n):
        if isinstance(n, ast.Attribute) and is_name(n.value, 'TC'):
            need(n.attr in TC_NAMES, '%s: unknown token code TC.%s' % (self.fn.name, n.attr))
            return 'T' + n.attr
        self.err(n, 'expected TC.<name>')

    def chr(self, n):
        """text.peek() / text.peek(k) / text.peek(-1)"""
        args = self.text_call(n, 'peek')
        if args is None:
            self.err(n, 'expected text.peek(...)')
        if args == []:
            return 'Peek 0'
        if len(args) == 1 and is_int(args[0]) and args[0].value >= 0:
            return 'Peek %d' % args[0].value
        if len(args) == 1 and isinstance(args[0], ast.UnaryOp) and isinstance(args[0].op, ast.USub) \
                and is_int(args[0].operand) and args[0].operand.value == 1:
            return 'PeekPrev'
        self.err(n, 'unsupported argument of text.peek')

    def is_chr(self, n):
        return self.text_call(n, 'peek') is not None and not self.is_range_peek(n)

    def is_range_peek(self, n):
        """text.peek((0, len(point)))"""
        args = self.text_call(n, 'peek')
        return (args is not None and len(args) == 1 and isinstance(args[0], ast.Tuple)
                and len(args[0].elts) == 2 and is_int(args[0].elts[0]) and args[0].elts[0].value == 0
                and self.is_len_point(args[0].elts[1]))

    def is_len_point(self, n):
        return (isinstance(n, ast.Call) and is_name(n.func, 'len') and not n.keywords
                and len(n.args) == 1 and self.has_role(n.args[0], 'point'))

    def cat_of(self, n):
        """<chr>.category -> chr, else None"""
        if isinstance(n, ast.Attribute) and n.attr == 'category' and self.is_chr(n.value):
            return self.chr(n.value)
        return None

    def forward_n(self, n):
        """text.forward(<int literal>) -> int, else None"""
        args = self.text_call(n, 'forward')
        if args is not None and len(args) == 1 and is_int(args[0]) and args[0].value >= 1:
            return args[0].value
        return None

    # ---- predicates on a character, int-valued expressions
    def pred(self, n):
        """lambda c: c.category <op> ...  -> DSL pred, else None"""
        if not (isinstance(n, ast.Lambda) and len(n.args.args) == 1 and not n.args.defaults
                and not n.args.vararg and not n.args.kwarg and not n.args.kwonlyargs
                and not getattr(n.args, 'posonlyargs', [])):
            return None
        c, b = n.args.args[0].arg, n.body
        if c in self.roles or c in ('text', 'prev') or c in RESERVED:
            return None
        if isinstance(b, ast.Compare) and len(b.ops) == 1 and isinstance(b.left, ast.Attribute) \
                and b.left.attr == 'category' and is_name(b.left.value, c):
            op, rhs = type(b.ops[0]), b.comparators[0]
            if op in (ast.Eq, ast.NotEq):
                return '%s %s' % ('PCatEq' if op is ast.Eq else 'PCatNe', self.cc(rhs))
            if op in (ast.In, ast.NotIn) and isinstance(rhs, ast.Tuple) and rhs.elts:
                return '%s [%s]' % ('PCatIn' if op is ast.In else 'PCatNotIn',
                                    '; '.join(self.cc(e) for e in rhs.elts))
        return None

    def iexpr(self, n):
        """an int-valued expression -> DSL iexpr, else None"""
        if is_int(n) and n.value >= 0:
            return 'INum %d' % n.value
        if self.has_role(n, 'int'):
            return 'IVar'
        args = self.text_call(n, 'num_forward_until')
        if args is not None and len(args) == 1:
            p = self.pred(args[0])
            if p is not None:
                return 'INumUntil (%s)' % p
        if isinstance(n, ast.Call) and is_name(n.func, 'len') and not n.keywords and len(n.args) == 1 \
                and self.has_role(n.args[0], 'tok'):
            return 'ILenRes'
        return None

    # ---- conditions (truth-value contexts)
    def cond(self, n):
        if isinstance(n, ast.BoolOp):
            ctor = {ast.And: 'EAnd', ast.Or: 'EOr'}.get(type(n.op))
            need(ctor is not None and len(n.values) >= 2, 'boolean operator')
            parts = [self.cond(v) for v in n.values]
            out = parts[-1]
            for p in reversed(parts[:-1]):
                out = '%s (%s) (%s)' % (ctor, p, out)
            return out
        if isinstance(n, ast.UnaryOp) and isinstance(n.op, ast.Not):
            return 'ENot (%s)' % self.cond(n.operand)
        if isinstance(n, ast.Compare):
            if len(n.ops) != 1 or len(n.comparators) != 1:
                self.err(n, 'chained comparison')
            op, lhs, rhs = type(n.ops[0]), n.left, n.comparators[0]
            c = self.cat_of(lhs)
            if c is not None:
                if op in (ast.Eq, ast.NotEq):
                    return '%s (%s) %s' % ('ECatEq' if op is ast.Eq else 'ECatNe', c, self.cc(rhs))
                if op in (ast.In, ast.NotIn) and isinstance(rhs, ast.Tuple):
                    need(len(rhs.elts) >= 1, 'empty tuple')
                    return '%s (%s) [%s]' % ('ECatIn' if op is ast.In else 'ECatNotIn', c,
                                             '; '.join(self.cc(e) for e in rhs.elts))
                if op in (ast.In, ast.NotIn) and (
                        self.has_role(rhs, 'map')           # `in d` is `in d.keys()`
                        or (isinstance(rhs, ast.Call) and isinstance(rhs.func, ast.Attribute)
                            and rhs.func.attr == 'keys' and self.has_role(rhs.func.value, 'map')
                            and not rhs.args and not rhs.keywords)):
                    e = 'ECatInKeys (%s)' % c
                    return e if op is ast.In else 'ENot (%s)' % e
                self.err(n, 'unsupported test of a category')
            if self.is_range_peek(lhs):
                if op is ast.Eq and self.has_role(rhs, 'point'):
                    return 'ERangeEqPoint'
                self.err(n, 'unsupported test of a slice')
            if self.is_chr(lhs):
                if op in (ast.Eq, ast.NotEq) and isinstance(rhs, ast.Constant) and isinstance(rhs.value, str) \
                        and len(rhs.value) == 1:
                    e = 'EEqChar (%s) %d%%N' % (self.chr(lhs), ord(rhs.value))
                    return e if op is ast.Eq else 'ENot (%s)' % e
                if op in (ast.Is, ast.IsNot) and is_none_const(rhs):
                    e = 'EPeekIsNone (%s)' % self.chr(lhs)
                    return e if op is ast.Is else 'ENot (%s)' % e
                self.err(n, 'unsupported test of a character')
            if self.has_role(lhs, 'prev'):
                if op in (ast.Is, ast.IsNot) and is_none_const(rhs):
                    return 'EPrevIsNone' if op is ast.Is else 'ENot (EPrevIsNone)'
                self.err(n, 'unsupported test of prev')
            if isinstance(lhs, ast.Attribute) and lhs.attr == 'category' and self.has_role(lhs.value, 'prev'):
                if op in (ast.NotEq, ast.Eq):
                    # a TC member (prev.category) against a CC or a TC member: by integer value
                    if isinstance(rhs, ast.Attribute) and is_name(rhs.value, 'TC'):
                        e = 'EPrevCatNeTC %s' % self.tc(rhs)
                    else:
                        e = 'EPrevCatNe %s' % self.cc(rhs)
                    return e if op is ast.NotEq else 'ENot (%s)' % e
                self.err(n, 'unsupported test of prev.category')
            if is_int(rhs) and rhs.value >= 0 and op in (ast.Eq, ast.NotEq) and not is_int(lhs) \
                    and self.iexpr(lhs) is not None:
                e = 'EIntEq (%s) %d' % (self.iexpr(lhs), rhs.value)
                return e if op is ast.Eq else 'ENot (%s)' % e
            if self.has_role(lhs, 'tmp'):
                if op in (ast.Eq, ast.NotEq) and isinstance(rhs, ast.Constant) and isinstance(rhs.value, str) \
                        and len(rhs.value) == 1:
                    e = 'ETmpEqChar %d%%N' % ord(rhs.value)
                    return e if op is ast.Eq else 'ENot (%s)' % e
                self.err(n, 'unsupported test of a token')
            if self.has_role(lhs, 'key'):
                if op is ast.In and self.has_role(rhs, 'map'):
                    return 'EKeyInMap'
                self.err(n, 'unsupported test of the key')
            self.err(n, 'unsupported comparison')
        args = self.text_call(n, 'hasNext')
        if args is not None:
            if args == []:
                return 'EHasNext 1'
            if len(args) == 1 and is_int(args[0]) and args[0].value >= 1:
                return 'EHasNext %d' % args[0].value
            self.err(n, 'unsupported argument of text.hasNext')
        if self.is_chr(n):
            return 'ETruthy (%s)' % self.chr(n)
        if self.has_role(n, 'tok'):
            return 'EResTruthy'
        if self.text_position(n):
            return 'EPosTruthy'
        if isinstance(n, ast.Call) and isinstance(n.func, ast.Attribute) and n.func.attr == 'endswith' \
                and self.has_role(n.func.value, 'tok') and not n.keywords and len(n.args) == 1 \
                and isinstance(n.args[0], ast.Constant) and isinstance(n.args[0].value, str) \
                and len(n.args[0].value) == 1:
            return 'EResEndsWith %d%%N' % ord(n.args[0].value)
        self.err(n, 'unsupported condition')

    # ---- dict literal
    def dict_lit(self, n):
        rows, seen = [], set()
        for k, v in zip(n.keys, n.values):
            need(k is not None, '%s: ** in dict literal' % self.fn.name)
            if isinstance(k, ast.Tuple):
                need(len(k.elts) == 2, '%s: dict key %s' % (self.fn.name, shape(k)))
                key = 'K2 %s %s' % (self.cc(k.elts[0]), self.cc(k.elts[1]))
            else:
                key = 'K1 %s' % self.cc(k)
            need(key not in seen, '%s: repeated dict key %s' % (self.fn.name, key))
            seen.add(key)
            rows.append('(%s, %s)' % (key, self.tc(v)))
        return '[%s]' % '; '.join(rows)

    # ---- statements: each returns a list of lines (without indentation) --
    def stmt(self, s):
        """-> nested structure: ('atom', text) | ('if', cond, [..], [..]) | ('while', cond, [..])
        | ('for', [..])"""
        if isinstance(s, ast.Assign):
            need(len(s.targets) == 1, 'multiple assignment targets')
            t, v = s.targets[0], s.value
            # result.category = ...
            if isinstance(t, ast.Attribute):
                if t.attr == 'category' and self.has_role(t.value, 'tok'):
                    if isinstance(v, ast.Subscript):
                        idx = v.slice
                        if isinstance(idx, getattr(ast, 'Index', ())):      # python < 3.9
                            idx = idx.value
                        if self.has_role(v.value, 'map') and self.has_role(idx, 'key'):
                            return ('atom', 'SSetCatMapKey')
                        if self.has_role(v.value, 'map') and isinstance(idx, ast.Attribute) \
                                and idx.attr == 'category' and self.has_role(idx.value, 'tok'):
                            return ('atom', 'SSetCatMapOwn')
                        self.err(s, 'unsupported subscript')
                    return ('atom', 'SSetCat %s' % self.tc(v))
                self.err(s, 'unsupported attribute assignment')
            # mapping = {...}
            if isinstance(v, ast.Dict):
                d = self.dict_lit(v)
                self.bind(t, 'map')
                return ('atom', 'SSetMap %s' % d)
            # key = (a.category, b.category)
            if isinstance(v, ast.Tuple):
                need(len(v.elts) == 2, 'key tuple')
                a, b = self.cat_of(v.elts[0]), self.cat_of(v.elts[1])
                if a is None or b is None:
                    self.err(s, 'unsupported tuple')
                self.bind(t, 'key')
                return ('atom', 'SSetKey (%s) (%s)' % (a, b))
            # start = text.position
            if self.text_position(v):
                self.bind(t, 'start')
                return ('atom', 'SSetStart')
            # result = Token('', start[, category=TC.x])
            if isinstance(v, ast.Call) and is_name(v.func, 'Token') and len(v.args) == 2 \
                    and self.has_role(v.args[1], 'start') and isinstance(v.args[0], ast.Constant) \
                    and v.args[0].value == '' and isinstance(v.args[0].value, str):
                if not v.keywords:
                    self.bind(t, 'tok')
                    return ('atom', 'SNewTokenStart None')
                if len(v.keywords) == 1 and v.keywords[0].arg == 'category':
                    k = self.tc(v.keywords[0].value)
                    self.bind(t, 'tok')
                    return ('atom', 'SNewTokenStart (Some %s)' % k)
                self.err(s, 'unsupported Token(...)')
            # result = Token(...)
            if isinstance(v, ast.Call) and is_name(v.func, 'Token'):
                if len(v.args) == 2 and self.text_position(v.args[1]):
                    a0 = v.args[0]
                    if isinstance(a0, ast.Constant) and a0.value == '' and isinstance(a0.value, str):
                        if not v.keywords:
                            self.bind(t, 'tok')
                            return ('atom', 'SNewToken None')
                        if len(v.keywords) == 1 and v.keywords[0].arg == 'category':
                            k = self.tc(v.keywords[0].value)
                            self.bind(t, 'tok')
                            return ('atom', 'SNewToken (Some %s)' % k)
                    k = self.forward_n(a0)
                    if k is not None and not v.keywords:
                        self.bind(t, 'tok')
                        return ('atom', 'SWrapForward %d' % k)
                self.err(s, 'unsupported Token(...)')
            # result = text.forward(n) / text.forward(len(point))
            k = self.forward_n(v)
            if k is not None:
                if isinstance(t, ast.Name) and 'tok' in self.roles.values() and self.roles.get(t.id) != 'tok':
                    # a second token variable, next to the result
                    self.bind(t, 'tmp')
                    return ('atom', 'STmpForward %d' % k)
                self.bind(t, 'tok')
                return ('atom', 'SForward %d' % k)
            args = self.text_call(v, 'forward')
            if args is not None and len(args) == 1 and self.is_len_point(args[0]):
                self.bind(t, 'tok')
                return ('atom', 'SForwardPoint')
            # result = text.forward(<int>) / text.forward_until(p);  n = <int>
            if args is not None and len(args) == 1 and self.iexpr(args[0]) is not None:
                ie = self.iexpr(args[0])
                self.bind(t, 'tok')
                return ('atom', 'SForwardI (%s)' % ie)
            args = self.text_call(v, 'forward_until')
            if args is not None and len(args) == 1 and self.pred(args[0]) is not None:
                p = self.pred(args[0])
                self.bind(t, 'tok')
                return ('atom', 'SForwardUntil (%s)' % p)
            if self.iexpr(v) is not None and isinstance(t, ast.Name):
                ie = self.iexpr(v)
                self.bind(t, 'int')
                return ('atom', 'SSetInt (%s)' % ie)
            self.err(s, 'unsupported assignment')
        if isinstance(s, ast.AugAssign):
            if isinstance(s.op, ast.Add) and self.has_role(s.target, 'tok'):
                k = self.forward_n(s.value)
                if k is not None:
                    return ('atom', 'SAppendForward %d' % k)
                v = s.value
                if isinstance(v, ast.Call) and is_name(v.func, 'next') and not v.keywords \
                        and len(v.args) == 1 and self.has_role(v.args[0], 'text'):
                    return ('atom', 'SAppendNext')
                if self.has_role(v, 'tmp'):
                    return ('atom', 'SAppendTmp')
                args = self.text_call(v, 'forward')
                if args is not None and len(args) == 1 and self.iexpr(args[0]) is not None:
                    return ('atom', 'SAppendForwardI (%s)' % self.iexpr(args[0]))
            self.err(s, 'unsupported augmented assignment')
        if isinstance(s, ast.Expr):
            k = self.forward_n(s.value)
            if k is not None:
                return ('atom', 'SSkipForward %d' % k)
            args = self.text_call(s.value, 'backward')
            if args is not None and len(args) == 1 and isinstance(args[0], ast.BinOp) \
                    and isinstance(args[0].op, ast.Sub) and self.text_position(args[0].left) \
                    and isinstance(args[0].right, ast.Attribute) and args[0].right.attr == 'position' \
                    and self.has_role(args[0].right.value, 'tok'):
                return ('atom', 'SRollback')
            if args is not None and len(args) == 1 and isinstance(args[0], ast.BinOp) \
                    and isinstance(args[0].op, ast.Sub) and self.text_position(args[0].left) \
                    and self.has_role(args[0].right, 'start'):
                return ('atom', 'SRollbackStart')
            if args is not None and len(args) == 1 and self.iexpr(args[0]) is not None:
                return ('atom', 'SBackwardI (%s)' % self.iexpr(args[0]))
            self.err(s, 'unsupported expression statement')
        if isinstance(s, ast.Return):
            if s.value is None or (isinstance(s.value, ast.Constant) and s.value.value is None):
                return ('atom', 'SReturnNone')
            if self.has_role(s.value, 'tok'):
                return ('atom', 'SReturnRes')
            self.err(s, 'unsupported return value')
        if isinstance(s, ast.If):
            c = self.cond(s.test)
            return ('if', c, self.block(s.body), self.block(s.orelse))
        if isinstance(s, ast.While):
            need(not s.orelse, '%s: while-else' % self.fn.name)
            c = self.cond(s.test)
            return ('while', c, self.block(s.body))
        if isinstance(s, ast.For):
            need(not s.orelse, '%s: for-else' % self.fn.name)
            need(not self.in_for, '%s: nested for' % self.fn.name)
            need(is_name(s.iter, 'PUNCTUATION_COMMANDS'),
                 '%s: for over %s' % (self.fn.name, shape(s.iter)))
            self.bind(s.target, 'point')
            self.in_for = True
            body = self.block(s.body)
            self.in_for = False
            return ('for', body)
        if isinstance(s, ast.Pass):
            self.err(s, 'pass')          # not needed by the rules; keep the DSL small
        self.err(s, 'unsupported statement')

    def block(self, body):
        return [self.stmt(s) for s in body]

    def translate(self):
        body = strip_doc(self.fn.body)
        need(body, '%s: empty body' % self.fn.name)
        return self.block(body)


# ------------------------------------------------------------------- printing

def pp_block(items, ind):
    """lines of `blk [ ... ]` at indentation ind"""
    pad = ' ' * ind
    if not items:
        return [pad + '(blk [])']
    out = [pad + '(blk [']
    for i, it in enumerate(items):
        lines = pp_stmt(it, ind + 2)
        if i < len(items) - 1:
            lines[-1] += ';'
        out.extend(lines)
    out[-1] += '])'
    return out


def pp_stmt(it, ind):
    pad = ' ' * ind
    if it[0] == 'atom':
        return [pad + it[1]]
    if it[0] == 'if':
        return [pad + 'SIf (%s)' % it[1]] + pp_block(it[2], ind + 2) + pp_block(it[3], ind + 2)
    if it[0] == 'while':
        return [pad + 'SWhile (%s)' % it[1]] + pp_block(it[2], ind + 2)
    if it[0] == 'for':
        return [pad + 'SForPoints'] + pp_block(it[1], ind + 2)
    raise TranslationError('internal: %r' % (it,))


def generate():
    path = os.path.join(REPO, 'TexSoup', 'tokens.py')
    with open(path) as f:
        tree = strip_annotations(ast.parse(f.read()))
    rules = normalised_rules(tree)
    out = []
    w = out.append
    w('(* GENERATED by harness/gen_tokrules.py from TexSoup/tokens.py -- do not edit.')
    w('   One term of TokDSL.program per @token rule, constructor by constructor')
    w('   from the Python abstract syntax; see TokDSL.v for the meaning. *)')
    w('From Coq Require Import List NArith ZArith.')
    w('From TexModel Require Import Base Tables Chars Tokenizer TokDSL.')
    w('Import ListNotations.')
    w('')
    for name, fn in rules:
        prog = Rule(fn).translate()
        w("(* @token('%s') *)" % name)
        w('Definition gen_%s : program :=' % name)
        lines = pp_block(prog, 2)
        lines[-1] += '.'
        out.extend(lines)
        w('')
    w('(* registration order of the @token decorators *)')
    w('Definition gen_rule_order : list rule_id :=\n  [%s].' % '; '.join('R_' + n for n, _ in rules))
    w('')
    w('Definition gen_program (r : rule_id) : program :=\n  match r with')
    for n in RULES:
        w('  | R_%s => gen_%s' % (n, n))
    w('  end.')
    return '\n'.join(out) + '\n'


def main():
    outp = sys.argv[1]
    try:
        txt = generate()
    except TranslationError as e:
        sys.stderr.write('TRANSLATION-FAILED: %s\n' % e)
        return 2
    except Exception as e:   # noqa
        sys.stderr.write('TRANSLATION-FAILED: %s: %s\n' % (type(e).__name__, e))
        return 2
    old = None
    if os.path.exists(outp):
        with open(outp) as f:
            old = f.read()
    if old != txt:
        with open(outp, 'w') as f:
            f.write(txt)
        print('TokGen.v rewritten')
    else:
        print('TokGen.v unchanged')
    return 0


if __name__ == '__main__':
    sys.exit(main())
