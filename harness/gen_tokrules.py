#!/venv/bin/python
"""Translator: regenerate coq/theories/Model/TokGen.v from the token rules of
$TEXSOUP_REPO/TexSoup/tokens.py (default /repo).

The bodies of the eleven functions registered with @token(...) are read with
the Python `ast` module only (nothing is imported or executed) and written as
terms of the small imperative language of coq/theories/Model/TokDSL.v, one Coq
constructor per Python construct.  Proofs/TokGenProofs.v then proves that the
interpretation of each generated term is the hand-written rule of
Model/Tokenizer.v, and that the registration order read here is
Tables.rule_order.

Fail-closed: every statement or expression shape that is not listed in
TokDSL.v raises TranslationError, as does everything around the rules that
could change what the decorators register (the `token` decorator itself, other
uses of `tokenizers`, rebinding of Token / CC / TC / len / next, ...).

The output depends on the abstract syntax only: comments, docstrings, layout
and the names of local variables do not change it.

Usage: gen_tokrules.py <out.v>    exit 0 = written (only if content changed)
                                  exit 2 = translation failed (message on stderr)
"""
import ast
import os
import sys

REPO = os.environ.get('TEXSOUP_REPO', '/repo')


class TranslationError(Exception):
    pass


def need(cond, msg):
    if not cond:
        raise TranslationError(msg)


CC_NAMES = ['Escape', 'GroupBegin', 'GroupEnd', 'MathSwitch', 'Alignment', 'EndOfLine', 'Macro',
            'Superscript', 'Subscript', 'Ignored', 'Spacer', 'Letter', 'Other', 'Active',
            'Comment', 'Invalid', 'MathGroupBegin', 'MathGroupEnd', 'BracketBegin', 'BracketEnd',
            'ParenBegin', 'ParenEnd']
TC_NAMES = ['Escape', 'GroupBegin', 'GroupEnd', 'Comment', 'MergedSpacer', 'EscapedComment',
            'MathSwitch', 'DisplayMathSwitch', 'MathGroupBegin', 'MathGroupEnd',
            'DisplayMathGroupBegin', 'DisplayMathGroupEnd', 'LineBreak', 'CommandName', 'Text',
            'BracketBegin', 'BracketEnd', 'ParenBegin', 'ParenEnd', 'PunctuationCommandName',
            'SizeCommand', 'Spacer']
RULES = ['escaped_symbols', 'comment', 'math_sym_switch', 'math_asym_switch', 'line_break',
         'ignore', 'spacers', 'symbols', 'punctuation_command_name', 'command_name', 'string']

# names whose module-level meaning the translation relies on; a rule must not
# rebind them, and the module must bind them as expected (see check_module)
RESERVED = {'Token', 'CC', 'TC', 'len', 'next', 'PUNCTUATION_COMMANDS', 'tokenizers', 'token'}

# the decorator, as the hand-written driver assumes it: registration in
# definition order, function returned unchanged
TOKEN_DECORATOR = '''
def token(name):
    def wrap(f):
        tokenizers.append((name, f))
        return f
    return wrap
'''


def where(n):
    return 'line %s' % getattr(n, 'lineno', '?')


def shape(n):
    return ast.dump(n)[:120]


def is_name(n, ident):
    return isinstance(n, ast.Name) and n.id == ident


def is_int(n):
    return isinstance(n, ast.Constant) and type(n.value) is int


def strip_doc(body):
    if body and isinstance(body[0], ast.Expr) and isinstance(body[0].value, ast.Constant) \
            and isinstance(body[0].value.value, str):
        return body[1:]
    return body


# --------------------------------------------------------------------- module

def check_module(tree):
    """Everything outside the rule bodies that the translation relies on.
    Returns [(rule name, FunctionDef)] in registration (= definition) order."""
    need(isinstance(tree, ast.Module), 'not a module')
    # ---- module-level bindings of the names the rules use
    bound = {}          # name -> list of descriptions

    def bind(name, how):
        bound.setdefault(name, []).append(how)

    for st in tree.body:
        if isinstance(st, ast.ImportFrom):
            for a in st.names:
                bind(a.asname or a.name, 'from %s import %s' % (st.module, a.name))
        elif isinstance(st, ast.Import):
            for a in st.names:
                bind((a.asname or a.name).split('.')[0], 'import')
        elif isinstance(st, (ast.FunctionDef, ast.ClassDef)):
            bind(st.name, 'def')
        elif isinstance(st, ast.Assign):
            for t in st.targets:
                for x in ast.walk(t):
                    if isinstance(x, ast.Name):
                        bind(x.id, 'assign')
        elif isinstance(st, ast.Expr) and isinstance(st.value, ast.Constant):
            pass                                    # docstring
        else:
            raise TranslationError('unexpected module-level statement at %s: %s' % (where(st), shape(st)))
    for nm in ('Token', 'CC', 'TC'):
        need(bound.get(nm) == ['from TexSoup.utils import %s' % nm],
             'module-level binding of %s changed: %s' % (nm, bound.get(nm)))
    for nm in ('len', 'next'):
        need(nm not in bound, 'builtin %s is rebound at module level' % nm)
    need(bound.get('PUNCTUATION_COMMANDS') == ['assign'], 'PUNCTUATION_COMMANDS binding changed')
    need(bound.get('tokenizers') == ['assign'], '`tokenizers` binding changed: %s' % bound.get('tokenizers'))
    need(bound.get('token') == ['def'], '`token` binding changed: %s' % bound.get('token'))
    # any `global` / `nonlocal` / del could defeat the checks above
    for n in ast.walk(tree):
        need(not isinstance(n, (ast.Global, ast.Nonlocal, ast.Delete)),
             'global/nonlocal/del at %s' % where(n))
    # ---- tokenizers = []
    asg = [st for st in tree.body if isinstance(st, ast.Assign)
           and any(is_name(t, 'tokenizers') for t in st.targets)]
    need(len(asg) == 1 and len(asg[0].targets) == 1 and isinstance(asg[0].value, ast.List)
         and asg[0].value.elts == [], '`tokenizers = []` changed')
    # ---- the decorator
    ref = ast.parse(TOKEN_DECORATOR).body[0]
    dec = [st for st in tree.body if isinstance(st, ast.FunctionDef) and st.name == 'token']
    need(len(dec) == 1, '`token` decorator not found')
    need(ast.dump(dec[0].args) == ast.dump(ref.args)
         and [ast.dump(x) for x in strip_doc(dec[0].body)] == [ast.dump(x) for x in ref.body]
         and not dec[0].decorator_list and dec[0].returns is None,
         'the `token` decorator changed')
    # ---- uses of `tokenizers` and of `token`
    owners = {}
    for st in tree.body:
        for n in ast.walk(st):
            if isinstance(n, ast.Name) and n.id == 'tokenizers':
                owners.setdefault(st.name if isinstance(st, ast.FunctionDef) else '<module>', []).append(
                    type(n.ctx).__name__)
    need(owners == {'<module>': ['Store'], 'token': ['Load'], 'next_token': ['Load']},
         '`tokenizers` is used in unexpected places: %s' % sorted(owners.items()))
    # ---- the registered functions, in definition order
    rules = []
    for st in tree.body:
        if isinstance(st, ast.FunctionDef) and st.decorator_list:
            need(len(st.decorator_list) == 1, '%s: more than one decorator' % st.name)
            d = st.decorator_list[0]
            if isinstance(d, ast.Call) and is_name(d.func, 'token'):
                need(len(d.args) == 1 and not d.keywords and isinstance(d.args[0], ast.Constant)
                     and isinstance(d.args[0].value, str), '%s: @token argument' % st.name)
                rules.append((d.args[0].value, st))
    uses = [n for n in ast.walk(tree) if isinstance(n, ast.Name) and n.id == 'token']
    need(len(uses) == len(rules), '`token` is used other than as a top-level decorator')
    names = [r for r, _ in rules]
    need(sorted(names) == sorted(RULES), 'registered token rules changed: %s' % names)
    return rules


# ---------------------------------------------------------------------- rules

class Rule(object):
    """Translation of one rule body.  Local names are tracked by role: the DSL
    has one token variable, one dict, one key, one loop variable."""

    def __init__(self, fn):
        self.fn = fn
        self.roles = {}
        self.in_for = False
        a = fn.args
        need([x.arg for x in a.args] == ['text', 'prev'] and not a.vararg and not a.kwonlyargs
             and not a.kwarg and not getattr(a, 'posonlyargs', [])
             and len(a.defaults) == 1 and isinstance(a.defaults[0], ast.Constant)
             and a.defaults[0].value is None and len(a.kw_defaults) == 0,
             '%s: parameters are not (text, prev=None)' % fn.name)
        need(fn.returns is None, '%s: return annotation' % fn.name)
        for n in ast.walk(fn):
            need(not isinstance(n, (ast.FunctionDef, ast.AsyncFunctionDef, ast.Lambda, ast.ClassDef,
                                    ast.Yield, ast.YieldFrom, ast.Await, ast.Try, ast.With,
                                    ast.Import, ast.ImportFrom)) or n is fn,
                 '%s: unsupported construct at %s: %s' % (fn.name, where(n), type(n).__name__))

    def err(self, n, what):
        raise TranslationError('%s, %s: %s: %s' % (self.fn.name, where(n), what, shape(n)))

    # ---- names
    def bind(self, node, role):
        need(isinstance(node, ast.Name), '%s: assignment target %s' % (self.fn.name, shape(node)))
        nm = node.id
        need(nm not in RESERVED and nm not in ('text', 'prev'),
             '%s: assignment to reserved name %s' % (self.fn.name, nm))
        if nm in self.roles:
            need(self.roles[nm] == role, '%s: local %s used both as %s and as %s'
                 % (self.fn.name, nm, self.roles[nm], role))
        else:
            need(role not in self.roles.values(),
                 '%s: a second %s variable (%s)' % (self.fn.name, role, nm))
            self.roles[nm] = role

    def has_role(self, node, role):
        if not isinstance(node, ast.Name):
            return False
        if role in ('text', 'prev'):
            return node.id == role
        if role == 'point' and not self.in_for:
            return False
        return self.roles.get(node.id) == role

    def text_call(self, n, meth):
        """text.<meth>(args) -> args, else None"""
        if isinstance(n, ast.Call) and isinstance(n.func, ast.Attribute) and n.func.attr == meth \
                and self.has_role(n.func.value, 'text') and not n.keywords:
            return n.args
        return None

    def text_position(self, n):
        return isinstance(n, ast.Attribute) and n.attr == 'position' and self.has_role(n.value, 'text')

    # ---- atoms
    def cc(self, n):
        if isinstance(n, ast.Attribute) and is_name(n.value, 'CC'):
            need(n.attr in CC_NAMES, '%s: unknown category CC.%s' % (self.fn.name, n.attr))
            return 'C' + n.attr
        self.err(n, 'expected CC.<name>')

    def tc(self, n):
        if isinstance(n, ast.Attribute) and is_name(n.value, 'TC'):
            need(n.attr in TC_NAMES, '%s: unknown token code TC.%s' % (self.fn.name, n.attr))
            return 'T' + n.attr
        self.err(n, 'expected TC.<name>')

    def chr(self, n):
        """text.peek() / text.peek(k) / text.peek(-1)"""
        args = self.text_call(n, 'peek')
        if args is None:
            self.err(n, 'expected text.peek(...)')
        if args == []:
            return 'Peek 0'
        if len(args) == 1 and is_int(args[0]) and args[0].value >= 0:
            return 'Peek %d' % args[0].value
        if len(args) == 1 and isinstance(args[0], ast.UnaryOp) and isinstance(args[0].op, ast.USub) \
                and is_int(args[0].operand) and args[0].operand.value == 1:
            return 'PeekPrev'
        self.err(n, 'unsupported argument of text.peek')

    def is_chr(self, n):
        return self.text_call(n, 'peek') is not None and not self.is_range_peek(n)

    def is_range_peek(self, n):
        """text.peek((0, len(point)))"""
        args = self.text_call(n, 'peek')
        return (args is not None and len(args) == 1 and isinstance(args[0], ast.Tuple)
                and len(args[0].elts) == 2 and is_int(args[0].elts[0]) and args[0].elts[0].value == 0
                and self.is_len_point(args[0].elts[1]))

    def is_len_point(self, n):
        return (isinstance(n, ast.Call) and is_name(n.func, 'len') and not n.keywords
                and len(n.args) == 1 and self.has_role(n.args[0], 'point'))

    def cat_of(self, n):
        """<chr>.category -> chr, else None"""
        if isinstance(n, ast.Attribute) and n.attr == 'category' and self.is_chr(n.value):
            return self.chr(n.value)
        return None

    def forward_n(self, n):
        """text.forward(<int literal>) -> int, else None"""
        args = self.text_call(n, 'forward')
        if args is not None and len(args) == 1 and is_int(args[0]) and args[0].value >= 1:
            return args[0].value
        return None

    # ---- conditions (truth-value contexts)
    def cond(self, n):
        if isinstance(n, ast.BoolOp):
            ctor = {ast.And: 'EAnd', ast.Or: 'EOr'}.get(type(n.op))
            need(ctor is not None and len(n.values) >= 2, 'boolean operator')
            parts = [self.cond(v) for v in n.values]
            out = parts[-1]
            for p in reversed(parts[:-1]):
                out = '%s (%s) (%s)' % (ctor, p, out)
            return out
        if isinstance(n, ast.UnaryOp) and isinstance(n.op, ast.Not):
            return 'ENot (%s)' % self.cond(n.operand)
        if isinstance(n, ast.Compare):
            if len(n.ops) != 1 or len(n.comparators) != 1:
                self.err(n, 'chained comparison')
            op, lhs, rhs = type(n.ops[0]), n.left, n.comparators[0]
            c = self.cat_of(lhs)
            if c is not None:
                if op in (ast.Eq, ast.NotEq):
                    return '%s (%s) %s' % ('ECatEq' if op is ast.Eq else 'ECatNe', c, self.cc(rhs))
                if op in (ast.In, ast.NotIn) and isinstance(rhs, ast.Tuple):
                    need(len(rhs.elts) >= 1, 'empty tuple')
                    return '%s (%s) [%s]' % ('ECatIn' if op is ast.In else 'ECatNotIn', c,
                                             '; '.join(self.cc(e) for e in rhs.elts))
                if op is ast.In and isinstance(rhs, ast.Call) and isinstance(rhs.func, ast.Attribute) \
                        and rhs.func.attr == 'keys' and self.has_role(rhs.func.value, 'map') \
                        and not rhs.args and not rhs.keywords:
                    return 'ECatInKeys (%s)' % c
                self.err(n, 'unsupported test of a category')
            if self.is_range_peek(lhs):
                if op is ast.Eq and self.has_role(rhs, 'point'):
                    return 'ERangeEqPoint'
                self.err(n, 'unsupported test of a slice')
            if self.is_chr(lhs):
                if op is ast.Eq and isinstance(rhs, ast.Constant) and isinstance(rhs.value, str) \
                        and len(rhs.value) == 1:
                    return 'EEqChar (%s) %d%%N' % (self.chr(lhs), ord(rhs.value))
                self.err(n, 'unsupported test of a character')
            if self.has_role(lhs, 'prev'):
                if op is ast.Is and isinstance(rhs, ast.Constant) and rhs.value is None:
                    return 'EPrevIsNone'
                self.err(n, 'unsupported test of prev')
            if isinstance(lhs, ast.Attribute) and lhs.attr == 'category' and self.has_role(lhs.value, 'prev'):
                if op is ast.NotEq:
                    return 'EPrevCatNe %s' % self.cc(rhs)
                self.err(n, 'unsupported test of prev.category')
            if self.has_role(lhs, 'key'):
                if op is ast.In and self.has_role(rhs, 'map'):
                    return 'EKeyInMap'
                self.err(n, 'unsupported test of the key')
            self.err(n, 'unsupported comparison')
        args = self.text_call(n, 'hasNext')
        if args is not None:
            if args == []:
                return 'EHasNext 1'
            if len(args) == 1 and is_int(args[0]) and args[0].value >= 1:
                return 'EHasNext %d' % args[0].value
            self.err(n, 'unsupported argument of text.hasNext')
        if self.is_chr(n):
            return 'ETruthy (%s)' % self.chr(n)
        if self.has_role(n, 'tok'):
            return 'EResTruthy'
        self.err(n, 'unsupported condition')

    # ---- dict literal
    def dict_lit(self, n):
        rows, seen = [], set()
        for k, v in zip(n.keys, n.values):
            need(k is not None, '%s: ** in dict literal' % self.fn.name)
            if isinstance(k, ast.Tuple):
                need(len(k.elts) == 2, '%s: dict key %s' % (self.fn.name, shape(k)))
                key = 'K2 %s %s' % (self.cc(k.elts[0]), self.cc(k.elts[1]))
            else:
                key = 'K1 %s' % self.cc(k)
            need(key not in seen, '%s: repeated dict key %s' % (self.fn.name, key))
            seen.add(key)
            rows.append('(%s, %s)' % (key, self.tc(v)))
        return '[%s]' % '; '.join(rows)

    # ---- statements: each returns a list of lines (without indentation) --
    def stmt(self, s):
        """-> nested structure: ('atom', text) | ('if', cond, [..], [..]) | ('while', cond, [..])
        | ('for', [..])"""
        if isinstance(s, ast.Assign):
            need(len(s.targets) == 1, 'multiple assignment targets')
            t, v = s.targets[0], s.value
            # result.category = ...
            if isinstance(t, ast.Attribute):
                if t.attr == 'category' and self.has_role(t.value, 'tok'):
                    if isinstance(v, ast.Subscript):
                        idx = v.slice
                        if isinstance(idx, getattr(ast, 'Index', ())):      # python < 3.9
                            idx = idx.value
                        if self.has_role(v.value, 'map') and self.has_role(idx, 'key'):
                            return ('atom', 'SSetCatMapKey')
                        if self.has_role(v.value, 'map') and isinstance(idx, ast.Attribute) \
                                and idx.attr == 'category' and self.has_role(idx.value, 'tok'):
                            return ('atom', 'SSetCatMapOwn')
                        self.err(s, 'unsupported subscript')
                    return ('atom', 'SSetCat %s' % self.tc(v))
                self.err(s, 'unsupported attribute assignment')
            # mapping = {...}
            if isinstance(v, ast.Dict):
                d = self.dict_lit(v)
                self.bind(t, 'map')
                return ('atom', 'SSetMap %s' % d)
            # key = (a.category, b.category)
            if isinstance(v, ast.Tuple):
                need(len(v.elts) == 2, 'key tuple')
                a, b = self.cat_of(v.elts[0]), self.cat_of(v.elts[1])
                if a is None or b is None:
                    self.err(s, 'unsupported tuple')
                self.bind(t, 'key')
                return ('atom', 'SSetKey (%s) (%s)' % (a, b))
            # result = Token(...)
            if isinstance(v, ast.Call) and is_name(v.func, 'Token'):
                if len(v.args) == 2 and self.text_position(v.args[1]):
                    a0 = v.args[0]
                    if isinstance(a0, ast.Constant) and a0.value == '' and isinstance(a0.value, str):
                        if not v.keywords:
                            self.bind(t, 'tok')
                            return ('atom', 'SNewToken None')
                        if len(v.keywords) == 1 and v.keywords[0].arg == 'category':
                            k = self.tc(v.keywords[0].value)
                            self.bind(t, 'tok')
                            return ('atom', 'SNewToken (Some %s)' % k)
                    k = self.forward_n(a0)
                    if k is not None and not v.keywords:
                        self.bind(t, 'tok')
                        return ('atom', 'SWrapForward %d' % k)
                self.err(s, 'unsupported Token(...)')
            # result = text.forward(n) / text.forward(len(point))
            k = self.forward_n(v)
            if k is not None:
                self.bind(t, 'tok')
                return ('atom', 'SForward %d' % k)
            args = self.text_call(v, 'forward')
            if args is not None and len(args) == 1 and self.is_len_point(args[0]):
                self.bind(t, 'tok')
                return ('atom', 'SForwardPoint')
            self.err(s, 'unsupported assignment')
        if isinstance(s, ast.AugAssign):
            if isinstance(s.op, ast.Add) and self.has_role(s.target, 'tok'):
                k = self.forward_n(s.value)
                if k is not None:
                    return ('atom', 'SAppendForward %d' % k)
                v = s.value
                if isinstance(v, ast.Call) and is_name(v.func, 'next') and not v.keywords \
                        and len(v.args) == 1 and self.has_role(v.args[0], 'text'):
                    return ('atom', 'SAppendNext')
            self.err(s, 'unsupported augmented assignment')
        if isinstance(s, ast.Expr):
            k = self.forward_n(s.value)
            if k is not None:
                return ('atom', 'SSkipForward %d' % k)
            args = self.text_call(s.value, 'backward')
            if args is not None and len(args) == 1 and isinstance(args[0], ast.BinOp) \
                    and isinstance(args[0].op, ast.Sub) and self.text_position(args[0].left) \
                    and isinstance(args[0].right, ast.Attribute) and args[0].right.attr == 'position' \
                    and self.has_role(args[0].right.value, 'tok'):
                return ('atom', 'SRollback')
            self.err(s, 'unsupported expression statement')
        if isinstance(s, ast.Return):
            if s.value is None or (isinstance(s.value, ast.Constant) and s.value.value is None):
                return ('atom', 'SReturnNone')
            if self.has_role(s.value, 'tok'):
                return ('atom', 'SReturnRes')
            self.err(s, 'unsupported return value')
        if isinstance(s, ast.If):
            c = self.cond(s.test)
            return ('if', c, self.block(s.body), self.block(s.orelse))
        if isinstance(s, ast.While):
            need(not s.orelse, '%s: while-else' % self.fn.name)
            c = self.cond(s.test)
            return ('while', c, self.block(s.body))
        if isinstance(s, ast.For):
            need(not s.orelse, '%s: for-else' % self.fn.name)
            need(not self.in_for, '%s: nested for' % self.fn.name)
            need(is_name(s.iter, 'PUNCTUATION_COMMANDS'),
                 '%s: for over %s' % (self.fn.name, shape(s.iter)))
            self.bind(s.target, 'point')
            self.in_for = True
            body = self.block(s.body)
            self.in_for = False
            return ('for', body)
        if isinstance(s, ast.Pass):
            self.err(s, 'pass')          # not needed by the rules; keep the DSL small
        self.err(s, 'unsupported statement')

    def block(self, body):
        return [self.stmt(s) for s in body]

    def translate(self):
        body = strip_doc(self.fn.body)
        need(body, '%s: empty body' % self.fn.name)
        return self.block(body)


# ------------------------------------------------------------------- printing

def pp_block(items, ind):
    """lines of `blk [ ... ]` at indentation ind"""
    pad = ' ' * ind
    if not items:
        return [pad + '(blk [])']
    out = [pad + '(blk [']
    for i, it in enumerate(items):
        lines = pp_stmt(it, ind + 2)
        if i < len(items) - 1:
            lines[-1] += ';'
        out.extend(lines)
    out[-1] += '])'
    return out


def pp_stmt(it, ind):
    pad = ' ' * ind
    if it[0] == 'atom':
        return [pad + it[1]]
    if it[0] == 'if':
        return [pad + 'SIf (%s)' % it[1]] + pp_block(it[2], ind + 2) + pp_block(it[3], ind + 2)
    if it[0] == 'while':
        return [pad + 'SWhile (%s)' % it[1]] + pp_block(it[2], ind + 2)
    if it[0] == 'for':
        return [pad + 'SForPoints'] + pp_block(it[1], ind + 2)
    raise TranslationError('internal: %r' % (it,))


def generate():
    path = os.path.join(REPO, 'TexSoup', 'tokens.py')
    with open(path) as f:
        tree = ast.parse(f.read())
    rules = check_module(tree)
    out = []
    w = out.append
    w('(* GENERATED by harness/gen_tokrules.py from TexSoup/tokens.py -- do not edit.')
    w('   One term of TokDSL.program per @token rule, constructor by constructor')
    w('   from the Python abstract syntax; see TokDSL.v for the meaning. *)')
    w('From Coq Require Import List NArith ZArith.')
    w('From TexModel Require Import Base Tables Chars Tokenizer TokDSL.')
    w('Import ListNotations.')
    w('')
    for name, fn in rules:
        prog = Rule(fn).translate()
        w("(* @token('%s') *)" % name)
        w('Definition gen_%s : program :=' % name)
        lines = pp_block(prog, 2)
        lines[-1] += '.'
        out.extend(lines)
        w('')
    w('(* registration order of the @token decorators *)')
    w('Definition gen_rule_order : list rule_id :=\n  [%s].' % '; '.join('R_' + n for n, _ in rules))
    w('')
    w('Definition gen_program (r : rule_id) : program :=\n  match r with')
    for n in RULES:
        w('  | R_%s => gen_%s' % (n, n))
    w('  end.')
    return '\n'.join(out) + '\n'


def main():
    outp = sys.argv[1]
    try:
        txt = generate()
    except TranslationError as e:
        sys.stderr.write('TRANSLATION-FAILED: %s\n' % e)
        return 2
    except Exception as e:   # noqa
        sys.stderr.write('TRANSLATION-FAILED: %s: %s\n' % (type(e).__name__, e))
        return 2
    old = None
    if os.path.exists(outp):
        with open(outp) as f:
            old = f.read()
    if old != txt:
        with open(outp, 'w') as f:
            f.write(txt)
        print('TokGen.v rewritten')
    else:
        print('TokGen.v unchanged')
    return 0


if __name__ == '__main__':
    sys.exit(main())
