"""K-buf: correspondence between the extracted model of TexSoup.utils.Buffer
(coq/theories/Model/Buffer.v, run_buf) and the real class.

Case = (item sequence, operation sequence, backing).  Driver line
`X buf <n> <item_1..item_n> <op codes...>`; the answer lists, for every
operation, the encoded result, the cursor (`Buffer.position`) and the number of
materialised items (`len(_Buffer__queue)`).  The implementation side applies the
same operations to `Buffer(str)` (string-backed) or
`Buffer(iter([Token(c, 10 + 3*i) ...]))` (token-backed) and encodes identically;
exceptions are compared by class.  Out-of-contract operations (negative peeks
at position 0, negative slice bounds, moves past either end, ...) are included:
the model has to agree with the code there too.

Encoding (see Buffer.v): result 1 x item | 2 None | 3 m x1..xm joined | 4 b bool |
5 z int | 6 e exception (1 StopIteration 2 IndexError 3 AssertionError
4 AttributeError 5 OutOfFuel(model only) 9x other).
"""
import itertools
import os

from common import Failure, Result, chunked, pmap, rng_for, NPROC
import corr
import impl

corr.DRIVER = os.environ.get('VERIF_DRIVER', corr.DRIVER)

KIND = 'K-buf'
EXC = {'StopIteration': 1, 'IndexError': 2, 'AssertionError': 3, 'AttributeError': 4}
OTHER_EXC = {'TypeError': 91, 'ValueError': 92, 'KeyError': 93, 'RecursionError': 94}
NT_CAP = 1000000

# operations that matter most for cursor / materialisation state (depth-3/4 exhaustive)
OPS_CORE = [
    ('next',), ('hasNext', 1), ('hasNext', 0), ('peek', 0), ('peek', 2), ('peek', -1),
    ('peekr', 0, 2), ('peekr', -1, 1), ('peekr', -2, 0),
    ('forward', 1), ('forward', 2), ('forward', -1), ('backward', 1), ('backward', 2),
    ('slice', 1, None), ('slice', None, -1), ('slice', 0, 2),
    ('getitem', 0), ('getitem', -1), ('getitem', 2),
    ('startswith', 'ab'), ('endswith', 'a'),
    ('forward_until', 98), ('num_forward_until', 98), ('num_forward_until', 122),
]
# the rest of what oracles_hist.buf_ops exercises + more out-of-contract arguments
OPS_MORE = [
    ('hasNext', 2), ('hasNext', -1), ('peek', 1), ('peek', 3), ('peek', -2),
    ('peekr', 1, 3), ('peekr', 0, -1), ('peekr', 2, 1), ('peekr', 0, 0),
    ('forward', 0), ('forward', 3), ('forward', 5), ('forward', -2),
    ('backward', 0), ('backward', -1), ('backward', 3),
    ('slice', None, 3), ('slice', None, None), ('slice', -1, None), ('slice', -2, 2), ('slice', 2, 1),
    ('slice', 1, -1),
    ('getitem', 1), ('getitem', -3), ('getitem', 4),
    ('startswith', 'b'), ('startswith', ''), ('endswith', 'ab'), ('endswith', ''), ('endswith', 'ba'),
    ('forward_until', 122), ('forward_until', -97), ('num_forward_until', -97),
    ('position',),
]
OPS_SMALL16 = [
    ('next',), ('hasNext', 1), ('peek', 0), ('peek', -1), ('peek', 2), ('peekr', -1, 1),
    ('forward', 1), ('forward', 2), ('forward', -1), ('backward', 1), ('backward', 2),
    ('slice', None, -1), ('getitem', -1), ('endswith', 'a'),
    ('forward_until', 98), ('num_forward_until', 98),
]
OPS_SMALL8 = [
    ('next',), ('peek', -1), ('peek', 1), ('forward', 2), ('backward', 1), ('slice', None, -1),
    ('num_forward_until', 98), ('hasNext', 1),
]


def enc_op(op):
    k = op[0]
    if k == 'next':
        return [0]
    if k == 'hasNext':
        return [1, op[1]]
    if k == 'peek':
        return [2, op[1]]
    if k == 'peekr':
        return [3, op[1], op[2]]
    if k == 'forward':
        return [4, op[1]]
    if k == 'backward':
        return [5, op[1]]
    if k == 'slice':
        lo, hi = op[1], op[2]
        return [6, 0 if lo is None else 1, lo or 0, 0 if hi is None else 1, hi or 0]
    if k == 'getitem':
        return [7, op[1]]
    if k == 'startswith':
        return [8, len(op[1])] + [ord(c) for c in op[1]]
    if k == 'endswith':
        return [9, len(op[1])] + [ord(c) for c in op[1]]
    if k == 'forward_until':
        return [10, op[1]]
    if k == 'num_forward_until':
        return [11, op[1]]
    if k == 'position':
        return [12]
    raise AssertionError(op)


def cond_of(k, wide=False):
    rep = 2 if wide else 1
    # the predicate is a user's: it is defined on ITEMS only (like
    # `lambda s: s in 'xyz'` in the library's own tests) and fails on None,
    # so a scan that consults it past the end does not go unnoticed
    def on_item(x):
        if not isinstance(x, str):
            raise TypeError('predicate called with %r' % (x,))
    if k >= 0:
        c = chr(k) * rep
        return lambda x: on_item(x) or x == c
    c = chr(-k) * rep
    return lambda x: on_item(x) or x != c


def mkbuf(seq, token_backed):
    if token_backed == 2:
        # items longer than one character: every item is its character doubled,
        # so that joined results can be decoded back into items (the model's
        # items are abstract; what matters is that the code must count ITEMS,
        # not characters)
        return impl.Buffer(iter([impl.Token(c * 2, 10 + 3 * i) for i, c in enumerate(seq)]))
    if token_backed:
        return impl.Buffer(iter([impl.Token(c, 10 + 3 * i) for i, c in enumerate(seq)]))
    return impl.Buffer(seq)


def enc_value(kind, v, wide=False):
    if v is None:
        return [2]
    if isinstance(v, bool):
        return [4, 1 if v else 0]
    if isinstance(v, int):
        return [5, v]
    s = str(v)
    if wide:
        if len(s) % 2 or any(s[i] != s[i + 1] for i in range(0, len(s), 2)):
            return [81, len(s)]          # not a concatenation of doubled items
        s = s[0::2]
    if kind in ('next', 'peek', 'getitem'):
        if len(s) != 1:
            return [80, len(s)]          # an item must be one character here
        return [1, ord(s)]
    return [3, len(s)] + [ord(c) for c in s]


def apply_op(b, op, wide=False):
    k = op[0]
    try:
        if k == 'next':
            v = next(b)
        elif k == 'hasNext':
            v = b.hasNext(op[1])
        elif k == 'peek':
            v = b.peek(op[1])
        elif k == 'peekr':
            v = b.peek((op[1], op[2]))
        elif k == 'forward':
            v = b.forward(op[1])
        elif k == 'backward':
            v = b.backward(op[1])
        elif k == 'slice':
            v = b[op[1]:op[2]]
        elif k == 'getitem':
            v = b[op[1]]
        elif k == 'startswith':
            v = b.startswith(op[1])
        elif k == 'endswith':
            v = b.endswith(op[1])
        elif k == 'forward_until':
            v = b.forward_until(cond_of(op[1], wide))
        elif k == 'num_forward_until':
            v = b.num_forward_until(cond_of(op[1], wide))
        elif k == 'position':
            v = b.position
        else:
            raise AssertionError(op)
        return enc_value(k, v, wide)
    except StopIteration:
        return [6, 1]
    except impl.Watchdog:
        raise
    except BaseException as e:    # noqa
        nm = type(e).__name__
        return [6, EXC.get(nm, OTHER_EXC.get(nm, 99))]


def run_impl(seq, ops, tb):
    b = mkbuf(seq, tb)
    out = []
    for op in ops:
        out += apply_op(b, op, tb == 2)
        out += [b.position, len(b._Buffer__queue)]
    return out


def line_of(seq, ops):
    ints = [len(seq)] + [ord(c) for c in seq]
    for op in ops:
        ints += enc_op(op)
    return 'X buf ' + ' '.join(map(str, ints))


def _check_cases(prop, cases):
    """cases: list of (seq, ops, tb); returns a Result (without per-case hashes)"""
    r = Result(KIND)
    lines = [line_of(seq, ops) for seq, ops, tb in cases]
    model = corr._run_driver_chunk(lines)
    for (seq, ops, tb), a in zip(cases, model):
        bints = impl.with_watchdog(20, run_impl, seq, ops, tb)
        b = ' '.join(map(str, bints))
        r.evaluations += 1
        if a != b:
            r.count('mismatch')
            if len(r.failures) < 50:
                r.fail(Failure(prop, KIND,
                               {'sequence': seq, 'token_backed': tb, 'ops': [list(map(str, o)) for o in ops]},
                               {'implementation': b}, {'model': a},
                               note='Buffer results / cursor / queue length differ between model and code '
                                    '(per operation: encoded result, cursor, len(queue))'))
        # what the real code did, for the distribution
        for tag in _tags(bints, len(ops)):
            r.count(tag)
    if cases:
        r.samples = [str((cases[0][0], [list(map(str, o)) for o in cases[0][1]], cases[0][2]))]
    return r


def _tags(ints, nops):
    """walk the encoded output to histogram result kinds"""
    tags = []
    i = 0
    try:
        for _ in range(nops):
            t = ints[i]
            if t == 1:
                tags.append('res:item'); i += 2
            elif t == 2:
                tags.append('res:None'); i += 1
            elif t == 3:
                tags.append('res:joined'); i += 2 + ints[i + 1]
            elif t == 4:
                tags.append('res:bool'); i += 2
            elif t == 5:
                tags.append('res:int'); i += 2
            elif t == 6:
                tags.append('res:exc%d' % ints[i + 1]); i += 2
            else:
                tags.append('res:other'); i += 2
            i += 2
    except IndexError:
        tags.append('res:undecodable')
    return tags


def _exh_chunk(arg):
    prop, seq, tb, first, opset, depth = arg
    cases = [(seq, (first,) + rest, tb) for rest in itertools.product(opset, repeat=depth - 1)]
    return _check_cases(prop, cases)


def _list_chunk(arg):
    prop, cases = arg
    return _check_cases(prop, cases)


def seqs_upto(alpha, n):
    return [''.join(t) for k in range(0, n + 1) for t in itertools.product(alpha, repeat=k)]


def random_op(rng, n):
    lo, hi = -3, n + 3
    k = rng.choice(['next', 'next', 'hasNext', 'peek', 'peek', 'peekr', 'forward', 'forward', 'backward',
                    'backward', 'slice', 'getitem', 'startswith', 'endswith', 'forward_until',
                    'num_forward_until', 'position'])
    ri = lambda a, b: rng.randint(a, b)     # noqa
    if k in ('next', 'position'):
        return (k,)
    if k == 'hasNext':
        return (k, ri(-1, 4))
    if k == 'peek':
        return (k, ri(lo, hi))
    if k == 'peekr':
        return (k, ri(lo, hi), ri(lo, hi))
    if k in ('forward', 'backward'):
        return (k, ri(-3, 4))
    if k == 'slice':
        return (k, rng.choice([None, ri(lo, hi)]), rng.choice([None, ri(lo, hi)]))
    if k == 'getitem':
        return (k, ri(lo - n, hi))
    if k in ('startswith', 'endswith'):
        return (k, ''.join(rng.choice('abc') for _ in range(ri(0, 3))))
    return (k, rng.choice([97, 98, 99, 122, -97, -98, -122]))


def run(prop, tier):
    r = Result(KIND)
    full = OPS_CORE + OPS_MORE
    jobs = []          # exhaustive: (prop, seq, tb, first op, op set, depth)
    notes = []

    def exhaustive(seqs, opset, depth, label):
        n = 0
        for seq in seqs:
            for tb in (False, True):
                for first in opset:
                    jobs.append((prop, seq, tb, first, opset, depth))
                    n += len(opset) ** (depth - 1)
        notes.append('%s: every sequence of exactly %d operations (all shorter ones are prefixes) from a '
                     '%d-operation set x %d item sequences x {string, token}-backed = %d cases'
                     % (label, depth, len(opset), len(seqs), n))
        return n

    s3 = seqs_upto('ab', 3)
    s4 = seqs_upto('ab', 4)
    nex = 0
    if tier == 'quick':
        nex += exhaustive(s3, OPS_CORE, 3, 'depth-3 core')
        nex += exhaustive(s3, full, 2, 'depth-2 full')
        nrand = 3000
    else:
        nex += exhaustive(s3, full, 3, 'depth-3 full')
        nex += exhaustive(s4, OPS_CORE, 3, 'depth-3 core, items up to length 4')
        nex += exhaustive(s4, OPS_SMALL16, 4, 'depth-4')
        nex += exhaustive(s3, OPS_SMALL8, 5, 'depth-5')
        nrand = 60000
    rng = rng_for(prop, KIND)
    rnd = []
    for _ in range(nrand):
        seq = ''.join(rng.choice('abc') for _ in range(rng.randint(0, 9)))
        ops = tuple(random_op(rng, len(seq)) for _ in range(rng.randint(4, 30)))
        tb = rng.choice([False, True, 2])
        if tb == 2:
            ops = tuple(o for o in ops if o[0] not in ('startswith', 'endswith'))
        rnd.append((seq, ops, tb))
    wide_ops = [o for o in OPS_CORE if o[0] not in ('startswith', 'endswith')]
    nw = 0
    for seq in s3:
        for first in wide_ops:
            jobs.append((prop, seq, 2, first, wide_ops, 2))
            nw += len(wide_ops)
    nex += nw
    notes.append('wide items (each item two characters long, token-backed): every sequence of 2 '
                 'operations from %d operations x %d item sequences = %d cases' % (len(wide_ops), len(s3), nw))
    parts = pmap(_exh_chunk, jobs) + pmap(_list_chunk, [(prop, c) for c in chunked(rnd, NPROC * 2)])
    for p in parts:
        r.evaluations += p.evaluations
        r.failures += p.failures[:max(0, 200 - len(r.failures))]
        for k, v in p.hist.items():
            r.count(k, v)
        if len(r.samples) < 5:
            r.samples += p.samples[:1]
    # every enumerated case is distinct by construction and has >= 2 operations
    r.nontrivial = set(range(min(nex + len(set(rnd)), NT_CAP)))
    r.exhaustive = True
    r.notes += notes
    r.notes.append('random part: %d cases, 4..30 operations with arguments in -3..len+3 over item '
                   'sequences over {a,b,c} of length 0..9' % nrand)
    if nex + nrand > NT_CAP:
        r.notes.append('distinct_nontrivial is capped at %d (all %d cases are distinct by construction)'
                       % (NT_CAP, nex + nrand))
    return r
