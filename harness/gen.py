"""Input generators: exhaustive alphabets, grammar documents with their
generating syntax tree (the C02 oracle), mutations.

All randomness comes from the random.Random instance handed in by the caller
(seeded from VERIF_SEED), so every run replays.
"""
import itertools
import re

# one representative per character category, plus the extra characters that
# make up multi-character tokens ('*' in command names, '.', '|' delimiters)
CHAR_ALPHABET = [
    '\\', '{', '}', '$', '&', '\n', '#', '^', '_', '\x00', ' ', 'a', '1',
    '~', '%', '\x7f', '[', ']', '(', ')', '*', '.', '|']
CHAR_ALPHABET_NO_IGN = [c for c in CHAR_ALPHABET if c not in '\x00\x7f']

# one representative per token kind / reader-relevant construct
KIND_ALPHABET = [
    '\\begin{a}', '\\end{a}', '\\begin{b}', '\\end{b}', '\\item', '\\x',
    '\\textbf', '\\def', '\\section', '\\newcommand', '{', '}', '[', ']',
    '$', '$$', '\\[', '\\]', '\\(', '\\)', ' ', '\n', 't', '%c\n',
    '\\begin{verbatim}', '\\end{verbatim}', '\\begin{equation}',
    '\\end{equation}', '\\left(', '\\cup', '\\\\', '\\$', '(', ')', '\\',
    '\x00']
KIND_ALPHABET_NO_IGN = [k for k in KIND_ALPHABET if k != '\x00']


def env_edge_cases():
    r"""Small closed family around the opening and closing of environments:
    every way of writing the name after \begin / \end (braced, bare token,
    spaced bare token, bracketed, a command, nothing, half-open) for names
    that are letters, digits, punctuation or empty.  ~1500 short strings;
    deterministic."""
    out = []
    names = ['a', '1', '.', '', 'ab', 'a1']
    def forms(kw, n):
        return [kw + '{' + n + '}', kw + ' ' + n, kw + n, kw + '[' + n + ']', kw + '\\' + n,
                kw, kw + '{' + n, kw + '{', kw + '}', kw + ' {' + n + '}', kw + '\n{' + n + '}',
                kw + '{' + n + '}{' + n + '}']
    for n in names:
        for o in forms('\\begin', n)[:6] + forms('\\begin', n)[9:]:
            for c in forms('\\end', n):
                for body in ('', 'x'):
                    for tail in ('', '}y'):
                        out.append(o + body + c + tail)
    seen, res = set(), []
    for s in out:
        if s not in seen:
            seen.add(s)
            res.append(s)
    return res


# characters that some notion of "white space" / "line end" / "ignorable"
# (str.isspace, str.splitlines, string.whitespace, TeX's ^^M) covers but the
# library's category table does not treat like ' ', '\n', NUL: a table edit
# that moves one of them shows only on inputs containing it
ODD_CHARS = ['\r', '\x0b', '\x0c', '\x1c', '\x1d', '\x1e', '\x1f', '\x85', '\xa0',
             ' ', ' ', '　', '﻿', '\x01', '\x1b', '\x80', '\xad']


def odd_char_cases():
    """Every odd character at every token boundary of a few small documents,
    alone, doubled and combined with LF (CR LF, LF CR).  Deterministic."""
    skel = ['\\foo{}bar', '\\foo{}{b}', '\\foo{}[b]{c}', 'a{}b', '$x{}$', '\\item{}two', '% c{}d\n\\x',
            '\\begin{a}{}x{}\\end{a}', '{}\\x', '\\x{}', 'a{}$b$', '\\\\{}x', '\\begin{itemize}\\item{}a\\item b{}\\end{itemize}']
    out = []
    for ch in ODD_CHARS:
        for sk in skel:
            for fill in (ch, ch + ch, ch + '\n', '\n' + ch, ' ' + ch, ch + ' '):
                out.append(sk.replace('{}', fill))
    return out

def ascii_boundary_cases():
    """Every ASCII character (and a few others) directly after a command name,
    between two letters, after an escape, after an argument group, before a
    line break that is followed by a group, and inside an item / math body.
    A rule or table edit that gives ONE character a new role (a name
    character, a line joiner, a delimiter) shows only on inputs that hold
    that character at the place concerned.  Deterministic, ~1400 strings."""
    chars = [chr(i) for i in range(128)] + ['\xa0', '\xe9', '\u2028', '\ufeff']
    skel = ['\\ab{}cd', 'x{}y', '\\{}a', '\\ab{{p}}{}{{q}}', 'a {}\n{{b}} c', '\\ab{{p}} {}\n{{q}}',
            '\\begin{{itemize}}\\item a\\ab{}cd\\item b\\end{{itemize}}', '$a\\ab{}cd$',
            '\\ab{}', '{}\\ab', '\\ab {}\n[o]{{b}} c']
    out = []
    for ch in chars:
        for sk in skel:
            out.append(sk.format(ch))
    return out



def strings_upto(alphabet, maxlen, minlen=0):
    for n in range(minlen, maxlen + 1):
        for tup in itertools.product(alphabet, repeat=n):
            yield ''.join(tup)


def count_upto(k, maxlen, minlen=0):
    return sum(k ** n for n in range(minlen, maxlen + 1))


def random_strings(rng, alphabet, n, minlen, maxlen):
    for _ in range(n):
        ln = rng.randint(minlen, maxlen)
        yield ''.join(rng.choice(alphabet) for _ in range(ln))


# --------------------------------------------------------------- grammar docs
#
# A document is a list of elements.  Each element knows how to render itself
# and what normal form (nf) the parse tree must have for it.  Normal form:
#   ('t', str)                      merged run of non-comment text leaves
#   ('c', str)                      one comment leaf (from % up to the line end)
#   ('cmd', name, [arg...], [body]) command; body only for \item
#   ('env', name, [arg...], [body]) named environment
#   ('math', kind, [body])          kind in Inline Display Paren Bracket
#   ('group', kind, [body])         kind in Brace Bracket (as expression)
#   arg = (kind, [body])
# Adjacent ('t', ..) entries are merged before comparison on both sides.

SAFE_TEXT_STARTS = ['. ', ', ', '; ', '! ', '1 ', '-- ', '@ ', '@z ', '= ']
WORDS = ['a', 'b', 'foo', 'bar baz', 'x y', 'Hello', 'w', 'z1', 't.']
# the last three collide with names the library uses internally (TexText is
# named 'text', groups 'BraceGroup', \[..\] 'displaymath'): a command of that
# name must still be an ordinary command
CMD_NAMES = ['x', 'foo', 'emph', 'textit', 'alpha', 'ref', 'cite', 'bar*',
             'vspace*', 'y', 'text', 'BraceGroup', 'displaymath',
             # fragments of the names the reader dispatches on (item, begin,
             # end): \it and \em are ordinary commands
             'it', 'em', 'en', 'beg',
             # ... and EXTENSIONS of them (\itemsep, \endgraf): ordinary
             # commands too; they neither start nor close an item / environment
             'itemsep', 'endgraf', 'beginx']
# 'listings' / 'verbatimbox' merely START WITH a verbatim-like name
ENV_NAMES = ['a', 'b', 'center', 'quote', 'tabular', 'document', 'figure*', 'listings', 'verbatimbox']
LIST_ENV_NAMES = ['itemize', 'enumerate', 'description']
MATH_ENV_NAMES = ['equation', 'align*', 'align', 'gather', 'math',
                  'displaymath', 'eqnarray*', 'multline', 'split']
VERB_ENV_NAMES = ['verbatim', 'lstlisting', 'Verbatim', 'listing',
                  'verbatimtab']
SPECIAL_NAMES = ['newcommand', 'renewcommand', 'providecommand']
ESCAPED = ['\\$', '\\%', '\\&', '\\#', '\\_', '\\{', '\\}', '\\\\', '\\ ',
           '\\~', '\\^', '\\,', '\\;', '\\!']
HOSTILE_COMMENT = ['}', '{', ']', '[', '$', '$$', '\\', '\\begin{a}',
                   '\\end{a}', '\\item', '%', '\\[', '\\)', 'x', ' ',
                   '\\end{itemize}', '\\end{verbatim}', '\\iffalse']
HOSTILE_VERB = ['}', '{', ']', '[', '$', '$$', '\\begin{a}', '\\end{a}',
                '\\item ', '\\[', '\\)', 'x', ' ', '\n', '\\end{other}',
                '\\begin{verbatim}', 'y%z\n', '\\x', '&', '#', '^', '~',
                '\\end', '\\end{', '\\\\ ']


class El:
    kind = '?'

    def render(self):
        raise NotImplementedError

    def nf(self):
        raise NotImplementedError

    def constructs(self):
        """names of the constructs used (for the distribution histogram)"""
        return [self.kind]


def render_all(els):
    return ''.join(e.render() for e in els)


def nf_all(els):
    out = []
    for e in els:
        out.extend(e.nf())
    return merge_nf(out)


def merge_nf(items):
    out = []
    for it in items:
        if it[0] == 't' and it[1] == '':
            continue
        if it[0] == 't' and out and out[-1][0] == 't':
            out[-1] = ('t', out[-1][1] + it[1])
        else:
            out.append(it)
    return out


def all_constructs(els):
    out = []
    for e in els:
        out.extend(e.constructs())
    return out


class Text(El):
    kind = 'text'

    def __init__(self, s):
        self.s = s

    def render(self):
        return self.s

    def nf(self):
        return [('t', self.s)]


class Escaped(Text):
    kind = 'escaped'


class Comment(El):
    kind = 'comment'

    def __init__(self, payload, eol=True):
        self.payload = payload
        self.eol = eol

    def render(self):
        return '%' + self.payload + ('\n' if self.eol else '')

    def nf(self):
        return [('c', '%' + self.payload)] + ([('t', '\n')] if self.eol else [])


class Args:
    """list of (kind, [elements], separator-before)"""

    def __init__(self, groups):
        self.groups = groups

    def render(self):
        out = ''
        for kind, els, sep in self.groups:
            o, c = ('{', '}') if kind == 'Brace' else ('[', ']')
            out += sep + o + render_all(els) + c
        return out

    def render_nosep(self):
        out = ''
        for kind, els, sep in self.groups:
            o, c = ('{', '}') if kind == 'Brace' else ('[', ']')
            out += o + render_all(els) + c
        return out

    def nf(self):
        return [(kind, nf_all(els)) for kind, els, sep in self.groups]

    def constructs(self):
        out = []
        for kind, els, sep in self.groups:
            out.append('arg' + kind + ('+sep' if sep else ''))
            out.extend(all_constructs(els))
        return out

    def has_sep(self):
        return any(sep for _, _, sep in self.groups)


class Cmd(El):
    kind = 'cmd'

    def __init__(self, name, args):
        self.name, self.args = name, args

    def render(self):
        return '\\' + self.name + self.args.render()

    def nf(self):
        return [('cmd', self.name, self.args.nf(), [])]

    def constructs(self):
        return [self.kind] + self.args.constructs()


class Special(Cmd):
    kind = 'newcommand'


class Env(El):
    kind = 'env'

    def __init__(self, name, args, body):
        self.name, self.args, self.body = name, args, body

    def render(self):
        return ('\\begin{%s}' % self.name + self.args.render()
                + render_all(self.body) + '\\end{%s}' % self.name)

    def nf(self):
        return [('env', self.name, self.args.nf(), nf_all(self.body))]

    def constructs(self):
        return [self.kind] + self.args.constructs() + all_constructs(self.body)


class MathEnv(Env):
    kind = 'mathenv'


class Verb(Env):
    kind = 'verbatim'

    def __init__(self, name, raw):
        self.name, self.raw = name, raw
        self.args = Args([])
        self.body = [Text(raw)]

    def nf(self):
        return [('env', self.name, [], [('t', self.raw)] if True else [])]

    def constructs(self):
        return [self.kind]


class Item(El):
    kind = 'item'

    def __init__(self, args, body):
        self.args, self.body = args, body

    def render(self):
        return '\\item' + self.args.render() + render_all(self.body)

    def nf(self):
        return [('cmd', 'item', self.args.nf(), nf_all(self.body))]

    def constructs(self):
        return [self.kind] + self.args.constructs() + all_constructs(self.body)


class ListEnv(Env):
    kind = 'list'


class Group(El):
    kind = 'group'

    def __init__(self, body):
        self.body = body

    def render(self):
        return '{' + render_all(self.body) + '}'

    def nf(self):
        return [('group', 'Brace', nf_all(self.body))]

    def constructs(self):
        return [self.kind] + all_constructs(self.body)


MATH_DELIMS = {'Inline': ('$', '$'), 'Display': ('$$', '$$'),
               'Paren': ('\\(', '\\)'), 'Bracket': ('\\[', '\\]')}


class Math(El):
    def __init__(self, mk, body):
        self.mk, self.body = mk, body
        self.kind = 'math' + mk

    def render(self):
        b, e = MATH_DELIMS[self.mk]
        return b + render_all(self.body) + e

    def nf(self):
        return [('math', self.mk, nf_all(self.body))]

    def constructs(self):
        return [self.kind] + all_constructs(self.body)


ATTACH_RE = re.compile(r'^[ \t]*(\r|\n)?[ \t]*[\[{]')


def needs_separator(prev, nxt_text, in_math=False):
    """True when rendering `prev` directly followed by text `nxt_text` would
    not denote the two as separate constructs (the adjacency side conditions
    of well-formedness)."""
    if nxt_text == '':
        return False
    if isinstance(prev, (Cmd, Item)) or prev == 'open':
        # `open` = right after \begin{name}args or \item args
        if ATTACH_RE.match(nxt_text):
            return True
        cmd = prev if isinstance(prev, (Cmd, Item)) else None
        if cmd is not None and not cmd.args.groups:
            if nxt_text[0].isalpha() or nxt_text[0] == '*':
                return True
    if isinstance(prev, Math) and prev.mk in ('Inline', 'Display') and nxt_text[0] == '$':
        return True
    if isinstance(prev, (Text, Escaped)) and prev.render().endswith('\\'):
        return True
    if isinstance(prev, (Text, Escaped, Comment)) and nxt_text[0] == '$' \
            and prev.render().endswith('$'):
        return True
    return False


class DocGen:
    """Random generator of well-formed documents (by construction)."""

    def __init__(self, rng, max_depth=3, max_len=5, spaced_args=False,
                 hostile=False):
        self.rng = rng
        self.max_depth = max_depth
        self.max_len = max_len
        self.spaced_args = spaced_args   # whitespace between name and groups
        self.hostile = hostile

    # -- leaves
    def text(self, ctx):
        r = self.rng
        parts = []
        for _ in range(r.randint(1, 3)):
            w = r.choice(WORDS)
            parts.append(w)
            parts.append(r.choice([' ', ' ', '\n', '  ', ', ', '. ', '\n\n', ' \n ', '\t']))
        s = ''.join(parts)
        if r.random() < 0.3:
            s = r.choice([' ', '\n', '']) + s
        if 'bracketarg' not in ctx and r.random() < 0.2:
            # free brackets / parens are text
            s += r.choice(['[', ']', '(', ')', '[x]', '(y]', ') '])
        elif r.random() < 0.1:
            s += r.choice(['(', ')', '(y) '])
        if 'math' in ctx and r.random() < 0.5:
            s = r.choice(['x^2 ', 'a_i + ', '1 & 2 ', '= ', '<', '|x| ', 'f(x) ',
                          '(0,1] ' if 'bracketarg' not in ctx else '(0,1) ']) + s
        return Text(s)

    def escaped(self, ctx):
        e = self.rng.choice(ESCAPED)
        return Escaped(e)

    def comment(self, ctx):
        r = self.rng
        if self.hostile or r.random() < 0.5:
            payload = ''.join(r.choice(HOSTILE_COMMENT)
                              for _ in range(r.randint(0, 4)))
        else:
            payload = ' ' + r.choice(WORDS)
        return Comment(payload)

    # -- arguments
    def args(self, ctx, depth, nb=None, nr=None, allow_sep=True):
        r = self.rng
        nb = r.choice([0, 0, 0, 0, 1, 1, 2]) if nb is None else nb
        nr = r.choice([0, 0, 1, 1, 1, 2]) if nr is None else nr
        groups = []
        for i in range(nb + nr):
            kind = 'Bracket' if i < nb else 'Brace'
            sub = ctx | ({'bracketarg'} if kind == 'Bracket' else set()) | {'arg'}
            if kind == 'Brace':
                sub = sub - {'bracketarg'}
            els = self.elements(sub, depth + 1, maxn=2, allow_empty=True)
            sep = ''
            if self.spaced_args and allow_sep and r.random() < 0.6:
                sep = r.choice([' ', '  ', '\t', '\n', ' \n', '\n ', ' \n\t '])
            groups.append((kind, els, sep))
        return Args(groups)

    # -- composite
    def element(self, ctx, depth):
        r = self.rng
        leafy = depth >= self.max_depth
        choices = ['text', 'text', 'escaped', 'comment', 'cmd', 'cmd']
        if not leafy:
            choices += ['group', 'cmd', 'cmd']
            if 'math' not in ctx:
                choices += ['math', 'math', 'env', 'mathenv']
                if 'arg' not in ctx and 'item' not in ctx:
                    choices += ['verb']
                if 'arg' not in ctx:
                    choices += ['list', 'newcommand']
        k = r.choice(choices)
        if k == 'text':
            return self.text(ctx)
        if k == 'escaped':
            return self.escaped(ctx)
        if k == 'comment':
            return self.comment(ctx)
        if k == 'cmd':
            names = CMD_NAMES
            return Cmd(r.choice(names), self.args(ctx, depth))
        if k == 'group':
            return Group(self.elements((ctx | {'arg'}) - {'bracketarg'}, depth + 1, maxn=3,
                                       allow_empty=True))
        if k == 'math':
            mk = r.choice(['Inline', 'Inline', 'Display', 'Paren', 'Bracket'])
            body = self.elements((ctx | {'math'}) - {'bracketarg'}, depth + 1, maxn=3,
                                 allow_empty=(mk != 'Inline'))
            if mk == 'Inline' and render_all(body) == '':
                body = [Text('x')]
            return Math(mk, body)
        if k == 'env':
            a = self.args(ctx, depth, nr=r.choice([0, 0, 1]), nb=r.choice([0, 0, 1]))
            return Env(r.choice(ENV_NAMES), a,
                       self.elements(ctx - {'bracketarg'}, depth + 1, opened=True))
        if k == 'mathenv':
            return MathEnv(r.choice(MATH_ENV_NAMES), Args([]),
                           self.elements((ctx | {'math'}) - {'bracketarg'}, depth + 1, opened=True))
        if k == 'verb':
            raw = r.choice(['\nx', 'x', '.', '\n x']) + ''.join(
                r.choice(HOSTILE_VERB) for _ in range(r.randint(0, 6)))
            # side conditions of C11: does not end with a backslash, no % on
            # the last line, no early \end{name}
            name = r.choice(VERB_ENV_NAMES)
            raw = raw.replace('\\end{%s}' % name, '\\end{other}')
            raw += r.choice(['\n', 'x', ' ', '.'])
            last = raw.rsplit('\n', 1)[-1]
            if '%' in last:
                raw += '\n'
            return Verb(name, raw)
        if k == 'list':
            items = []
            for _ in range(r.randint(1, 3)):
                a = self.args(ctx, depth, nb=r.choice([0, 0, 1]), nr=0)
                body = self.elements((ctx | {'item'}) - {'bracketarg'}, depth + 1,
                                     maxn=3, prev0=Item(a, []))
                items.append(Item(a, body))
            pre = Text(r.choice(['\n', ' ', '\n  ', '']))
            return ListEnv(r.choice(LIST_ENV_NAMES), Args([]), [pre] + items)
        if k == 'newcommand':
            nm = r.choice(SPECIAL_NAMES)
            newname = Cmd(r.choice(['foo', 'mycmd', 'R']), Args([]))
            inner = [Cmd('begin', Args([('Brace', [Text(r.choice(ENV_NAMES))], '')])),
                     Text('#1 '),
                     ] if r.random() < 0.6 else [Text('#1'), Cmd('end', Args([('Brace', [Text('a')], '')]))]
            if r.random() < 0.4:
                inner = [Cmd('begin', Args([('Brace', [Text('a')], '')])), Text(' #1 '),
                         Cmd('end', Args([('Brace', [Text('a')], '')]))]
            # {name}[n]{definition}: the bracket group after a brace group and
            # the brace group after that are attached by the second pass of
            # the argument reader
            groups = [('Brace', [newname], '')]
            if r.random() < 0.5:
                groups.append(('Bracket', [Text(str(r.randint(1, 3)))], ''))
            groups.append(('Brace', inner, ''))
            return Special(nm, Args(groups))
        raise AssertionError(k)

    def elements(self, ctx, depth, maxn=None, allow_empty=False, opened=False,
                 no_verb=False, prev0=None):
        """A well-formed sequence: separators are inserted wherever two
        neighbours would otherwise be read as one construct."""
        r = self.rng
        maxn = self.max_len if maxn is None else maxn
        n = r.randint(0 if allow_empty else 1, maxn)
        els = []
        prev = prev0 if prev0 is not None else ('open' if opened else None)
        for _ in range(n):
            e = self.element(ctx, depth)
            if prev is not None and needs_separator(prev, e.render(), 'math' in ctx):
                sepel = Text(r.choice(SAFE_TEXT_STARTS))
                els.append(sepel)
            els.append(e)
            prev = e
        # the element after this sequence is a closer (`}` `]` `$` \end ..):
        # a trailing lone backslash or `$` would fuse with it
        if els:
            last = els[-1].render()
            if last.endswith('\\') or last.endswith('$') and 'math' in ctx:
                els.append(Text(' '))
        if 'bracketarg' in ctx:
            # no top-level ']' in a bracket argument
            els = [Text(e.s.replace(']', ')').replace('[', '(')) if type(e) is Text else e
                   for e in els]
        return els

    def document(self):
        els = self.elements(set(), 0)
        return els


def single_deletions(s):
    for i in range(len(s)):
        yield s[:i] + s[i + 1:]


def prefixes(s):
    for i in range(len(s)):
        yield s[:i]


def transpositions(s):
    for i in range(len(s) - 1):
        if s[i] != s[i + 1]:
            yield s[:i] + s[i + 1] + s[i] + s[i + 2:]


def insertions(s, alphabet, rng, n):
    for _ in range(n):
        i = rng.randint(0, len(s))
        yield s[:i] + rng.choice(alphabet) + s[i:]
