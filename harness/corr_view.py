"""K-view: the navigation and search views of TexNode / TexExpr (C03, C04).

For every document the extracted model function `run_view` (theories/Model/
Views.v) and the real code are asked for the same observables at the root and
at every node of `root.descendants`:

    expr.all, node.all (ok / AssertionError), contents, children, descendants,
    text, node[0] node[-1] node[1] node[-2], and for each query
    find_all / find / count / getattr.

Both sides produce one flat list of integers (layout: Views.v `enc_node`);
the lists must be equal.  Nodes are identified by their *path* (indices into
the `contents` view, starting at the root); on the implementation side the
path of a wrapper is looked up through the identity of the wrapped expression
object, and `parent` is rendered as the path of `wrapper.parent.expr`.  In
addition the implementation side checks object identity of `parent` directly
(contents/children: `x.parent is node`; descendants: walking `.parent` from
the item reaches the node the view was taken from in exactly the expected
number of steps).
"""
import os

from common import Failure, Result, chunked, pmap, rng_for, NPROC
import corr
import impl
import inputs

corr.DRIVER = os.environ.get('VERIF_DRIVER', corr.DRIVER)

D = impl.D
Token = impl.Token

ERR_CODE = {'EOFError': 1, 'TypeError': 2, 'AssertionError': 3, 'RuntimeError': 4,
            'KeyError': 5, 'AttributeError': 6}

CLASS_CODE = {'TexText': 0, 'Token': 1, 'str': 2, 'TexCmd': 3, 'TexNamedEnv': 4,
              'TexMathModeEnv': 5, 'TexDisplayMathModeEnv': 6, 'TexMathEnv': 7,
              'TexDisplayMathEnv': 8, 'BraceGroup': 9, 'BracketGroup': 10, 'TexEnv': 11}

HAND_WRITTEN = [
    r'\def\foo{x} \textbf a \section{A \emph{b} c}[ ]{ }',
    r'\textbf a',
    r'\def\foo{x}\foo',
    r'\section{Intro \emph{very} \ref{x}}\ref{x}\ref{y} \ref{x}',
    r'\begin{verbatim} a $ \item \end{verbatim}\begin{itemize}\item a \item[x] b $y^2$\end{itemize}',
    r'\begin{equation}1+1\end{equation}\begin{equation}2\end{equation}$$x$$ \[ y \] \( z \) $w$',
    r'\begin{itemize} \item one {\bf two} \item \begin{enumerate}\item[\alpha] deep $x_{\beta}$\end{enumerate}\end{itemize}',
    r'\newcommand{\hello}[1]{Hi #1 \emph{you}} \hello{w}',
    r'{ {a} { } {\x{ }{\y}} }',
    r'\item loose \item[k] second',
    r'\begin{tabular}{c|c} a & b \\ \hline \end{tabular}',
    r'\begin{lstlisting}[language=C] int x; \end{lstlisting}',
    r'\left[ x \right] \big\{ y \Bigg\} \left( z \right)',
    r'\a{\b{\c{\d{e}}}}[\f[g]]',
    r'\begin{a}\begin{a}\x\end{a}\x\end{a}\x',
    ' \n\t \\x \n ',
    '',
    'plain text only',
    r'$$ $$ \[\] \(\) {} \x{}{}[]',
    r'\begin{center}\begin{math}a\end{math}\begin{displaymath}b\end{displaymath}\end{center}',
    r'\textit{\color{blue}{Silly}}\textit{keep me!}',
    '\\begin{itemize}\n    Random text!\n    \\item Hello\n\\end{itemize}',
    r'\x{\u00a0}{　}',
    '\\x{\u00a0}{\u3000\u2003}\\y{\u200b}',
    r'\begin{b}[o]{r} t \end{b}',
]

MALFORMED = [r'\begin{a}', r'{', r'\begin{a}\end{b}', r'$', r'\item[', r'\x{', r']', r'}']


def codes(s):
    if isinstance(s, (Token, D.TexText)):
        s = str(s)
    else:
        s = str.__str__(s)
    return [ord(c) for c in s]


def plain(s):
    """a plain str (names read off the tree may be Tokens)"""
    return ''.join(chr(c) for c in codes(s))


def enc_str(s):
    c = codes(s)
    return [len(c)] + c


def enc_path(p):
    return [len(p)] + list(p)


def class_code(e):
    return CLASS_CODE.get(type(e).__name__, 99)


def epos(e):
    if isinstance(e, D.TexText):
        p = getattr(e._text, 'position', None)
    elif isinstance(e, Token):
        p = e.position
    elif isinstance(e, D.TexExpr):
        p = e.position
    else:
        return 0
    return -77 if p is None else p


def enc_expr(e):
    return [class_code(e), epos(e)] + enc_str(str(e) if isinstance(e, D.TexExpr) else e)


class Walk:
    """paths of the expression objects of one parsed document"""

    def __init__(self, soup):
        self.soup = soup
        self.paths = {id(soup.expr): ()}
        self.keep = [soup]
        self._assign(soup, ())

    def _assign(self, node, p):
        for i, it in enumerate(node.contents):
            if isinstance(it, D.TexNode):
                self.keep.append(it)
                self.paths[id(it.expr)] = p + (i,)
                self._assign(it, p + (i,))

    def path(self, node):
        return self.paths.get(id(node.expr))

    def enc_item(self, it):
        if isinstance(it, D.TexNode):
            p = self.path(it)
            par = it.parent
            pp = self.path(par) if isinstance(par, D.TexNode) else None
            return ([class_code(it.expr), epos(it.expr)]
                    + (enc_path(p) if p is not None else [-98])
                    + (enc_path(pp) if pp is not None else [-99])
                    + enc_str(str(it)))
        return enc_expr(it)

    def enc_list(self, f, l):
        out = [len(l)]
        for x in l:
            out += f(x)
        return out

    def enc_opt(self, o):
        return [0] if o is None else [1] + self.enc_item(o)


def parent_identity_problems(w, node):
    """direct object-identity checks of `.parent` (not expressible through
    the model, which identifies nodes by path)"""
    bad = []
    for view in ('contents', 'children'):
        for x in getattr(node, view):
            if isinstance(x, D.TexNode) and x.parent is not node:
                bad.append('%s item %r: parent is not the node' % (view, str(x)[:40]))
    try:
        items = list(node.all)
    except AssertionError:
        items = []
    for x in items:
        if x.parent is not node:
            bad.append('all item %r: parent is not the node' % str(x)[:40])
    base = w.path(node)
    for x in node.descendants:
        if not isinstance(x, D.TexNode):
            continue
        p = w.path(x)
        if p is None or base is None or p[:len(base)] != base:
            bad.append('descendant %r: no path below the node' % str(x)[:40])
            continue
        cur = x
        for _ in range(len(p) - len(base)):
            cur = cur.parent
            if cur is None:
                break
        if cur is not node:
            bad.append('descendant %r: %d parent steps do not reach the node'
                       % (str(x)[:40], len(p) - len(base)))
    return bad


def getitem(node, i):
    try:
        return node[i]
    except IndexError:
        return None


def is_real_attr(node, name):
    return name in dir(type(node)) or name in vars(node)


def impl_view(src, strict, queries, watchdog=60):
    """(ints, identity problems) for one case"""
    try:
        soup = impl.with_watchdog(watchdog, impl.parse, src, 0 if strict else 1, ())
    except impl.Watchdog:
        return None, []
    except RecursionError:
        return None, []
    except BaseException as e:      # noqa
        return [-1, ERR_CODE.get(type(e).__name__, 99)], []
    w = Walk(soup)
    nodes = [soup] + [d for d in soup.descendants if isinstance(d, D.TexNode)]
    out, bad = [], []
    for n in nodes:
        e = n.expr
        out += [-1002] + enc_path(w.path(n)) + [class_code(e), epos(e)]
        out += enc_str(n.name) + enc_str(str(n))
        out += [-1003] + w.enc_list(enc_expr, list(e.all))
        try:
            list(n.all)
            ok = 1
        except AssertionError:
            ok = 0
        out += [-1004, ok]
        out += [-1005] + w.enc_list(w.enc_item, list(n.contents))
        out += [-1006] + w.enc_list(w.enc_item, list(n.children))
        out += [-1007] + w.enc_list(w.enc_item, list(n.descendants))
        out += [-1008] + w.enc_list(w.enc_item, list(n.text))
        out += [-1009] + w.enc_opt(getitem(n, 0)) + w.enc_opt(getitem(n, -1)) \
            + w.enc_opt(getitem(n, 1)) + w.enc_opt(getitem(n, -2))
        # iteration follows contents
        it_view = [w.enc_item(x) for x in n]
        if it_view != [w.enc_item(x) for x in n.contents]:
            bad.append('iteration differs from contents at %r' % str(n)[:40])
        for q in queries:
            fa = n.find_all(q)
            out += [-1010] + w.enc_list(lambda x: enc_path(w.path(x)), list(fa))
            out += w.enc_opt(n.find(q))
            out += [n.count(q)]
            if isinstance(q, str):
                if is_real_attr(n, q):
                    out += [2]
                else:
                    out += w.enc_opt(getattr(n, q))
            else:
                out += [3]
        bad += parent_identity_problems(w, n)
    return out, bad


def enc_query(q):
    if isinstance(q, str):
        return [0] + enc_str(q)
    out = [1, len(q)]
    for s in q:
        out += enc_str(s)
    return out


def case_ints(src, strict, queries):
    out = [1 if strict else 0, len(queries)]
    for q in queries:
        out += enc_query(q)
    return out + [ord(c) for c in src]


def queries_for(src, rng, budget):
    """every name occurring + absent names + list queries + full-expression
    queries, derived from the implementation's own tree"""
    try:
        soup = impl.with_watchdog(20, impl.parse, src, 1, ())
    except BaseException:      # noqa
        return ['x', 'zzabsent', ['x', 'y'], r'\x{a}']
    nodes = [d for d in soup.descendants if isinstance(d, D.TexNode)]
    names = []
    for d in nodes:
        if d.name not in names:
            names.append(d.name)
    if len(names) > budget:
        names = names[:budget // 2] + rng.sample(names[budget // 2:], budget - budget // 2)
    qs = list(names)
    qs += ['zzabsent', rng.choice(['itemx', 'ite', 'Item', 'a*', 'BraceGrou', 'tex', ''])]
    # list queries: union of two present names and an absent one; the quirk
    # list containing the one-character string '{'
    qs.append((names[:2] if names else ['item']) + ['zzabsent'])
    if rng.random() < 0.4:
        qs.append(['{'] + names[:1])
    if rng.random() < 0.4 and len(names) > 2:
        qs.append(rng.sample(names, 2))
    if rng.random() < 0.3:
        qs.append([])
    # full-expression queries
    if nodes:
        for d in rng.sample(nodes, min(2, len(nodes))):
            qs.append(str(d))
        envs = [d for d in nodes if isinstance(d.expr, D.TexNamedEnv)]
        for d in envs[:1]:
            qs.append(d.expr.begin)
            qs.append(rng.choice([d.expr.end, d.expr.begin + str(d.expr.args)]))
        withargs = [d for d in nodes if isinstance(d.expr, D.TexCmd) and d.args]
        for d in withargs[:1]:
            qs.append(str(d))
    else:
        qs.append(r'\ref{x}')
    qs.append(rng.choice(['$', '$$', '}', ']', '\\[', '\\)', '{', '[', '[tex]', '{}',
                          '\\begin{zz}', 'text', 'expr', 'name', 'find', 'parent',
                          'BraceGroup', 'BracketGroup', 'math', 'displaymath']))
    out = []
    for q in qs:
        q = [plain(x) for x in q] if isinstance(q, list) else plain(q)
        if q not in out:
            out.append(q)
    return out


def _impl_chunk(cases):
    return [impl_view(s, st, qs) for s, st, qs in cases]


def build_cases(prop, tier):
    rng = rng_for(prop, 'K-view')
    if tier == 'quick':
        plan = [(60, 2, False), (50, 3, False), (15, 4, False), (10, 3, True)]
        maxchars = 500
    else:
        plan = [(500, 2, False), (500, 3, False), (250, 4, False), (100, 5, False),
                (120, 3, True)]
        maxchars = 900
    docs = []
    for n, depth, spaced in plan:
        docs += [s for s, _ in inputs.grammar_docs(prop, n, depth, spaced=spaced,
                                                  salt='kview%d%s' % (depth, spaced),
                                                  maxchars=maxchars)]
    ngram = len(docs)
    docs += inputs.repo_samples()
    docs += HAND_WRITTEN
    cases = []
    for s in docs:
        budget = 8 if len(s) < 400 else 4
        cases.append((s, True, queries_for(s, rng, budget)))
    for s in HAND_WRITTEN[:12]:
        cases.append((s, False, queries_for(s, rng, 6)))
    for s in MALFORMED:
        cases.append((s, True, ['x']))
        cases.append((s, False, queries_for(s, rng, 4)))
    return cases, ngram


def first_diff(a, b):
    for i, (x, y) in enumerate(zip(a, b)):
        if x != y:
            return i
    return min(len(a), len(b))


def run(prop, tier):
    r = Result('K-view')
    cases, ngram = build_cases(prop, tier)
    lines = ['X view ' + ' '.join(map(str, case_ints(s, st, qs))) for s, st, qs in cases]
    model = corr.run_driver(lines)
    implo = []
    for o in pmap(_impl_chunk, chunked(cases, NPROC * 4)):
        implo.extend(o)
    for (s, st, qs), mo, (io, bad) in zip(cases, model, implo):
        if io is None or mo == 'ERR StackOverflow':
            r.count('skipped:resource-limit')
            continue
        nnodes = io.count(-1002)
        r.saw((s, st), nontrivial=nnodes > 1)
        r.count('nodes', nnodes)
        r.count('queries', len(qs))
        r.count('parse-error' if io[:1] == [-1] else 'parsed')
        try:
            ml = [int(x) for x in mo.split()]
        except ValueError:
            ml = [mo]
        if ml != io and corr.parse_differs(s, 0 if st else 1):
            r.count('skipped:parse-differs')
            continue
        if ml != io:
            k = first_diff(ml, io)
            r.fail(Failure(prop, 'K-view', s,
                           {'implementation': io[max(0, k - 30):k + 30]},
                           {'model': ml[max(0, k - 30):k + 30]},
                           opts={'strict': st, 'queries': qs, 'first_difference_at': k},
                           note='view observables differ between model and code'))
        for b in bad:
            r.fail(Failure(prop, 'K-view', s, {'implementation': b}, {'model': 'parent is the node '
                           'the item was reached from'}, opts={'strict': st},
                           note='parent identity violated on the implementation'))
    r.exhaustive = False
    r.notes.append('%d grammar documents, %d repository samples, %d hand-written, %d malformed; '
                   'every node of every tree, all views, %d queries in total'
                   % (ngram, len(inputs.repo_samples()), len(HAND_WRITTEN), len(MALFORMED),
                      r.hist.get('queries', 0)))
    return r
