"""Build of the Coq development + extracted driver, and the stage-wise
correspondence checks between the extracted model and the implementation."""
import fcntl
import os
import re
import shutil
import subprocess
import sys
import tempfile

import gen
import impl
import inputs
from common import Failure, Result, chunked, pmap, rng_for, NPROC, VERIF, REPO

COQ = os.path.join(VERIF, 'coq')
BUILD = os.path.join(VERIF, 'build')
DRIVER = os.path.join(BUILD, 'driver')
PY = sys.executable


def sh(cmd, cwd=None, timeout=1800, env=None):
    p = subprocess.run(cmd, cwd=cwd, shell=isinstance(cmd, str), stdout=subprocess.PIPE,
                       stderr=subprocess.STDOUT, timeout=timeout, env=env)
    out = p.stdout.decode(errors='replace')
    out = '\n'.join(l for l in out.splitlines() if 'conda.cli.condarc' not in l)
    return p.returncode, out


# (translator script, generated model file, stage name, Props file that states
# "generated = hand model", property it belongs to)
GENERATORS = [
    ('gen_tokrules.py', 'TokGen.v', 'translate-tokrules'),
    ('gen_buffer.py', 'BufGen.v', 'translate-buffer'),
    ('gen_clo.py', 'CloGen.v', 'translate-clo'),
    ('gen_args.py', 'ArgGen.v', 'translate-args'),
    ('gen_reader.py', 'ReadGen.v', 'translate-reader'),
    ('gen_views.py', 'ViewGen.v', 'translate-views'),
    ('gen_edit.py', 'EditGen.v', 'translate-edit'),
    ('gen_glue.py', 'GlueGen.v', 'translate-glue'),
    ('gen_token.py', 'TokenGen.v', 'translate-token'),
    ('gen_regex.py', 'RegexGen.v', 'translate-regex'),
]
# properties whose theorems are about the reader model (the others quantify
# over arbitrary trees / lists / buffers)
READER_PROPS = ('C01', 'C02', 'C06', 'C07', 'C08', 'C09', 'C10', 'C11', 'C12', 'C13', 'C14', 'C16', 'C17')
GEN_PROPS = {
    # the glue runs over the translated rules and the translated reader: a
    # stale TokGen.v / ReadGen.v must not vouch for the glue theorems
    'translate-tokrules': (('C19', 'C17'), ('C19gen.v', 'C19glue.v', 'C17glue.v')),
    'translate-buffer': (('C20',), 'C20gen.v'),
    'translate-clo': (('C13',), 'C13clogen.v'),
    'translate-args': (('C18', 'C15', 'C14'), ('C18gen.v', 'C15gen.v')),
    'translate-token': (('C13',), 'C13token.v'),
    'translate-regex': (('C13',), 'C13regexgen.v'),
    'translate-reader': (READER_PROPS, ('ReadGen.v', 'C17glue.v')),
    'translate-glue': (('C19', 'C17'), ('C19glue.v', 'C17glue.v')),
    'translate-views': (('C03', 'C04', 'C15'), ('C03gen.v', 'C04gen.v', 'C15gen.v')),
    'translate-edit': (('C05', 'C14', 'C15'), ('C05gen.v', 'C14gen.v', 'C15gen.v')),
}
# Props files that are obligations of several properties (not named after one)
# C14's re-argumenting clause goes through the TexArgs methods (slices, pop,
# insert, ... on node.args): their translation is an obligation of C14 too
SHARED_PROPS = {'ReadGen.v': READER_PROPS, 'C18gen.v': ('C14',)}
GENERATED_FILES = tuple(g[1] for g in GENERATORS)


class BuildInfo:
    def __init__(self):
        self.ok = True
        self.stage = None        # stage that failed
        self.log = ''
        self.tables_changed = False
        self.translation_error = None
        self.failed_file = None
        self.failed_files = []
        self.stages = []         # every stage that failed
        self.tokrules_changed = False
        self.translator_failures = {}   # stage -> error, for the DSL translators
        self.generated_rewritten = []

    def to_json(self):
        return {'ok': self.ok, 'failed_stage': self.stage, 'failed_file': self.failed_file,
                'failed_files': self.failed_files, 'failed_stages': self.stages,
                'tables_rewritten': self.tables_changed, 'generated_rewritten': self.generated_rewritten,
                'translator_failures': self.translator_failures,
                'translation_error': self.translation_error, 'log_tail': self.log[-1500:]}


def build_all(jobs=None):
    """Regenerate Tables.v from /repo, rebuild the development (full .vo
    build), re-extract and compile the driver.  Serialised by a lock so that
    concurrently running checks share one build."""
    info = BuildInfo()
    os.makedirs(BUILD, exist_ok=True)
    lock = open(os.path.join(BUILD, '.lock'), 'w')
    fcntl.flock(lock, fcntl.LOCK_EX)
    try:
        env = dict(os.environ)
        env['PYTHONHASHSEED'] = '0'
        env['TEXSOUP_REPO'] = REPO
        rc, out = sh([PY, os.path.join(VERIF, 'harness', 'gen_tables.py'),
                      os.path.join(COQ, 'theories', 'Model', 'Tables.v')], env=env)
        info.log += out
        if rc != 0:
            info.ok = False
            info.stage = 'translate-tables'
            info.stages.append('translate-tables')
            m = re.search(r'TRANSLATION-FAILED: (.*)', out)
            info.translation_error = m.group(1) if m else out[-300:]
            # keep going with the previous Tables.v if there is one, so that
            # correspondence and oracles can still look for a failing input
            if not os.path.exists(os.path.join(COQ, 'theories', 'Model', 'Tables.v')):
                return info
        info.tables_changed = 'rewritten' in out
        for m in re.finditer(r'TRANSLATION-PARTIAL: (.*)', out):
            info.translator_failures['translate-tables-partial'] = m.group(1)[:400]
        # Classes / rule sets translated from the Python AST into small DSLs
        # (fail-closed translators; DESIGN 3.3).  A translator that gives up
        # (unsupported shape) does NOT make the build fail: the generated file
        # of the previous run stays so that the development still compiles,
        # the Props file stating "generated = hand model" is not counted for
        # this run (main.py), and the hand model remains tied to the code by
        # the correspondence check alone.
        for script, target, stage in GENERATORS:
            if not os.path.exists(os.path.join(VERIF, 'harness', script)):
                continue
            rc, out = sh([PY, os.path.join(VERIF, 'harness', script),
                          os.path.join(COQ, 'theories', 'Model', target)], env=env)
            info.log += out
            if rc != 0:
                m = re.search(r'TRANSLATION-FAILED: (.*)', out)
                info.translator_failures[stage] = m.group(1) if m else out[-300:]
            elif 'rewritten' in out:
                info.generated_rewritten.append(target)
        info.tokrules_changed = 'TokGen.v' in info.generated_rewritten
        if (not os.path.exists(os.path.join(COQ, 'Makefile'))
                or os.path.getmtime(os.path.join(COQ, 'Makefile')) < os.path.getmtime(os.path.join(COQ, '_CoqProject'))):
            rc, out = sh('coq_makefile -f _CoqProject -o Makefile', cwd=COQ)
            info.log += out
        rc, out = sh('timeout 1500 make -k -j%d' % (jobs or NPROC), cwd=COQ, timeout=1600)
        if rc == 124:
            # a time-out on a loaded machine is not a failed proof: go on from
            # where the first run stopped, with more time
            info.log += out[-300:] + '\n[make timed out; second run]\n'
            rc, out = sh('timeout 3000 make -k -j%d' % (jobs or NPROC), cwd=COQ, timeout=3100)
        info.log += out
        if rc != 0:
            info.ok = False
            info.stage = info.stage or 'coq-build'
            info.stages.append('coq-build')
            fl = []
            for m in re.finditer(r'File "\./([^"]+)", line (\d+)', out):
                if m.group(1) not in fl:
                    fl.append(m.group(1))
            info.failed_files = fl
            info.failed_file = fl[0] if fl else None
            # a file that no longer compiles must not leave an older .vo
            # behind for the files after it to load
            for f in fl:
                if f.endswith('.v'):
                    for ext in ('o', 'os', 'ok'):
                        try:
                            os.remove(os.path.join(COQ, f + ext))
                        except OSError:
                            pass
        # the model files must have been built for the driver to be current
        model_ml = os.path.join(COQ, 'model.ml')
        if not os.path.exists(model_ml):
            info.ok = False
            info.stage = info.stage or 'extraction'
            info.stages.append('extraction')
            return info
        need = (not os.path.exists(DRIVER)
                or os.path.getmtime(DRIVER) < os.path.getmtime(model_ml)
                or os.path.getmtime(DRIVER) < os.path.getmtime(os.path.join(VERIF, 'ocaml', 'driver.ml')))
        if need:
            for f in ('model.ml', 'model.mli'):
                shutil.copy(os.path.join(COQ, f), os.path.join(BUILD, f))
            shutil.copy(os.path.join(VERIF, 'ocaml', 'driver.ml'), os.path.join(BUILD, 'driver.ml'))
            rc, out = sh('ocamlfind ocamlopt -w -a model.mli model.ml driver.ml -o driver', cwd=BUILD)
            info.log += out
            if rc != 0:
                info.ok = False
                info.stage = info.stage or 'driver-build'
                info.stages.append('driver-build')
    finally:
        fcntl.flock(lock, fcntl.LOCK_UN)
        lock.close()
    return info


def model_vo_current():
    """True when the model's .vo files exist (i.e. the extracted driver
    reflects the current model sources)."""
    return os.path.exists(DRIVER)


# --------------------------------------------------------------- driver I/O

def cps(s):
    return '.'.join(str(ord(c)) for c in s) if s else '-'


def _run_driver_chunk(lines):
    p = subprocess.run([DRIVER], input=('\n'.join(lines) + '\n').encode(),
                       stdout=subprocess.PIPE, stderr=subprocess.PIPE,
                       preexec_fn=_unlimit_stack)
    out = p.stdout.decode().split('\n')
    if out and out[-1] == '':
        out.pop()
    if len(out) != len(lines):
        out += ['ERR DriverCrashed'] * (len(lines) - len(out))
    return out


def _unlimit_stack():
    import resource
    try:
        resource.setrlimit(resource.RLIMIT_STACK, (resource.RLIM_INFINITY, resource.RLIM_INFINITY))
    except (ValueError, OSError):
        try:
            soft, hard = resource.getrlimit(resource.RLIMIT_STACK)
            resource.setrlimit(resource.RLIMIT_STACK, (hard, hard))
        except (ValueError, OSError):
            pass


X_SAMPLES = {}      # model name -> [(input ints, output ints)] seen by run_driver in this process


def run_driver(lines):
    lines = list(lines)
    if not lines:
        return []
    outs = pmap(_run_driver_chunk, chunked(lines, NPROC))
    res = []
    for o in outs:
        res.extend(o)
    # keep a few generic-model cases for the in-Coq cross-check of extraction
    step = max(1, len(lines) // 25)
    for l, o in list(zip(lines, res))[::step]:
        if l.startswith('X ') and len(l) < 1500 and len(o) < 1500 and not o.startswith(('ERR', 'BAD')):
            parts = l.split(' ')
            X_SAMPLES.setdefault(parts[1], [])
            if len(X_SAMPLES[parts[1]]) < 40:
                try:
                    X_SAMPLES[parts[1]].append(([int(x) for x in parts[2:] if x != ''],
                                                [int(x) for x in o.split(' ') if x != '']))
                except ValueError:
                    pass
    return res


def in_coq_x_sample(prop):
    """Evaluate the recorded generic-model cases inside Coq (vm_compute):
    run_<m> input = output as the extracted driver printed it."""
    r = Result('in-Coq-sample-X')
    if not X_SAMPLES:
        return None

    def zl(l):
        return '[' + '; '.join('(%d)%%Z' % x for x in l) + ']'
    lines = ['From Coq Require Import List ZArith.',
             'From TexModel Require Import CLO Buffer Args Views Edit Regex.',
             'Import ListNotations.', '']
    n = 0
    for m, cases in sorted(X_SAMPLES.items()):
        for i, o in cases:
            lines.append('Goal run_%s %s = %s. Proof. vm_compute. reflexivity. Qed.' % (m, zl(i), zl(o)))
            n += 1
    tmpd = tempfile.mkdtemp(prefix='verif-incoqx-')
    try:
        f = os.path.join(tmpd, 'CasesX.v')
        with open(f, 'w') as fh:
            fh.write('\n'.join(lines) + '\n')
        rc, out = sh('timeout 900 coqc -Q %s TexModel %s' % (os.path.join(COQ, 'theories', 'Model'), f),
                     cwd=tmpd, timeout=1000)
        r.evaluations = n
        r.nontrivial = set(range(n))
        r.samples = lines[4:6]
        if rc != 0:
            m = re.search(r'line (\d+)', out)
            bad = lines[int(m.group(1)) - 1] if m else out[-300:]
            r.fail(Failure(prop, 'in-Coq-vs-extracted', bad[:600], out[-400:], 'vm_compute agrees with the driver',
                           note='extraction / driver disagree with evaluation inside Coq (generic model)'))
    finally:
        shutil.rmtree(tmpd, ignore_errors=True)
    return r


# ---------------------------------------------------------- implementation

def _impl_tok_chunk(cases):
    return [impl.canon_tokens(s) for s in cases]


def _impl_parse_chunk(cases):
    return [impl.canon_parse(s, tol, skip, watchdog=20) for s, tol, skip in cases]


def _impl_cat_chunk(rg):
    lo, hi = rg
    out, cur, cnt = [], None, 0
    for cp in range(lo, hi):
        try:
            nm = impl.cat_of(chr(cp))
        except BaseException as e:      # noqa
            nm = 'RAISES-' + type(e).__name__
        if nm == cur:
            cnt += 1
        else:
            if cnt:
                out.append('%s*%d ' % (cur, cnt))
            cur, cnt = nm, 1
    if cnt:
        out.append('%s*%d ' % (cur, cnt))
    return ''.join(out)


# ------------------------------------------------------------ correspondences

def k_cat(prop, tier):
    """category of every single code point, exhaustive"""
    r = Result('K-cat')
    step = 0x110000 // (NPROC * 4) + 1
    ranges = [(lo, min(0x110000, lo + step)) for lo in range(0, 0x110000, step)]
    model = run_driver(['C %d %d' % rg for rg in ranges])
    implo = pmap(_impl_cat_chunk, ranges)
    for rg, a, b in zip(ranges, model, implo):
        r.evaluations += rg[1] - rg[0]
        if a != b:
            r.fail(Failure(prop, 'K-cat', list(rg), {'implementation': b[:300]}, {'model': a[:300]},
                           note='category of a code point differs between model and code'))
    r.nontrivial = set(range(22))
    r.exhaustive = True
    r.samples = ['code points 0..0x10FFFF in %d ranges' % len(ranges)]
    return r


def tok_cases(prop, tier):
    rng = rng_for(prop, 'K-tok')
    cl, kl, nr = (3, 2, 1500) if tier == 'quick' else (4, 3, 40000)
    cases = list(gen.strings_upto(gen.CHAR_ALPHABET, cl))
    cases += list(gen.strings_upto(gen.KIND_ALPHABET, kl))
    cases += gen.odd_char_cases() + gen.ascii_boundary_cases()
    nex = len(cases)
    cases += list(gen.random_strings(rng, gen.CHAR_ALPHABET + list('leftbigr'), nr, cl + 1, 20))
    docs = [s for s, _ in inputs.grammar_docs(prop, 60 if tier == 'quick' else 600, 3, salt='ktok')]
    cases += docs
    for d in docs[:20 if tier == 'quick' else 200]:
        cases += list(gen.single_deletions(d))[:40]
    cases += ['a\\', 'a\\' + 'x' * 13, 'a\\' + 'x' * 12 + '\\', 'a\\' + 'x' * 12 + '\\z',
              '\\left.|', '\\left(', '\\Bigg\\}', '\\big\\langle x', 'ab\\', ' a\\']
    return cases, nex


def k_tok(prop, tier, extra=()):
    r = Result('K-tok')
    cases, nex = tok_cases(prop, tier)
    cases += list(extra)
    model = run_driver(['T ' + cps(s) for s in cases])
    implo = []
    for o in pmap(_impl_tok_chunk, chunked(cases, NPROC * 2)):
        implo.extend(o)
    for s, a, b in zip(cases, model, implo):
        r.saw(s, nontrivial=len(s) > 1)
        if a != b:
            r.fail(Failure(prop, 'K-tok', s, {'implementation': b[:400]}, {'model': a[:400]},
                           note='token list differs between model and code'))
    r.notes.append('exhaustive part: %d strings' % nex)
    return r


def parse_cases(prop, tier, skip_opts=True):
    rng = rng_for(prop, 'K-parse')
    if tier == 'quick':
        cl, kl, nd, per, nr = 3, 2, 120, 25, 1500
    else:
        cl, kl, nd, per, nr = 4, 3, 1200, 80, 40000
    strs = list(gen.strings_upto(gen.CHAR_ALPHABET, cl))
    strs += list(gen.strings_upto(gen.KIND_ALPHABET, kl))
    strs += gen.env_edge_cases() + gen.odd_char_cases() + gen.ascii_boundary_cases()
    nex = len(strs)
    docs = [s for s, _ in inputs.grammar_docs(prop, nd, 3 if tier == 'quick' else 5, salt='kparse',
                                             maxchars=600)]
    docs += [s for s, _ in inputs.grammar_docs(prop, nd // 3, 3, spaced=True, salt='kparse-sp',
                                              maxchars=600)]
    strs += docs
    sample = docs[:nd // 3]
    from oracles_parse import mutants_of
    strs += mutants_of(sample, rng, per)
    strs += list(gen.random_strings(rng, gen.KIND_ALPHABET, nr, 3, 9))
    strs += [s for s in inputs.repo_samples()]
    strs += [s for s in inputs.doc_strings() if len(s) < 3000]
    cases = []
    for s in strs:
        cases.append((s, 0, ()))
        cases.append((s, 1, ()))
    # names around the library's special tables (read from /repo at run time)
    try:
        from TexSoup.reader import SIGNATURES
        from TexSoup.tokens import MATH_ENV_NAMES, SKIP_ENV_NAMES, SPECIAL_COMMANDS
        for k in sorted(SIGNATURES):
            for nm in (k, k + '*', k + 's', 'x' + k):
                for tail in ('{a}{b} c', ' x', '[o]{a}', '{a}\n\n{b}', '\\y z', ' [', ''):
                    cases.append(('p \\%s%s' % (nm, tail), 0, ()))
                    cases.append(('$\\%s%s$' % (nm, tail), 1, ()))
        for nm in list(MATH_ENV_NAMES) + list(SKIP_ENV_NAMES) + ['itemize', 'document', 'zz']:
            for body in ('x', '$', '\\item a', '{', 'a \\b{c} ]', '\\begin{q}', '% c\n'):
                d = '\\begin{%s}%s\\end{%s} t' % (nm, body, nm)
                for sk in ((), (nm,), ('zz',)):
                    cases.append((d, 0, sk))
                    cases.append(('\\begin{a}' + d + '\\end{a}', 1, sk))
        for nm in sorted(SPECIAL_COMMANDS):
            for body in ('{\\x}{\\begin{y}}', '{\\x}[1]{\\begin{y}#1}', '{\\x}[2][d]{\\end{y}}', '\\x{\\begin{y}}'):
                cases.append(('\\%s%s t \\begin{y}u\\end{y}' % (nm, body), 0, ()))
        # names that are fragments / extensions of the names the reader
        # dispatches on, and environments whose name merely starts with (or
        # extends) a verbatim-like or math name
        for nm in ('i', 't', 'e', 'it', 'em', 'ite', 'tem', 'items', 'en', 'nd', 'ends', 'beg', 'begins'):
            for tail in (' x', '[o] {a}\n\n{b}[k] tail', '{a} b \\item c'):
                cases.append(('\\%s%s' % (nm, tail), 0, ()))
                cases.append(('\\begin{itemize}\\item u \\%s%s\\end{itemize}' % (nm, tail), 1, ()))
                cases.append(('$\\%s%s$' % (nm, tail), 0, ()))
        for base in list(SKIP_ENV_NAMES)[:3] + list(MATH_ENV_NAMES)[:3]:
            for nm in (base + 's', base + 'box', base[:-1], 'x' + base):
                for body in ('\\textbf{x} y', '\\textbf{x y', '$', '\\item a'):
                    d = '\\begin{%s}%s\\end{%s} t' % (nm, body, nm)
                    cases.append((d, 0, ()))
                    cases.append((d, 1, ()))
    except Exception:      # noqa
        pass
    if skip_opts:
        for s in docs[:nd // 2]:
            cases.append((s, 0, ('a', 'center', 'equation')))
        for s in ['\\begin{zz}x{\\end{zz}', '\\begin{a}\\begin{zz}$\\end{zz}\\end{a}',
                  '\\begin{zz}\\end{zz}', '\\begin{zz}x', '{\\begin{zz}${\\end{zz}}']:
            cases.append((s, 0, ('zz',)))
            cases.append((s, 1, ('zz',)))
    return cases, nex


def k_parse(prop, tier, extra=()):
    r = Result('K-parse')
    cases, nex = parse_cases(prop, tier)
    cases += list(extra)
    lines = ['P %d %s %s' % (tol, ','.join(cps(x) for x in skip) if skip else '-', cps(s))
             for s, tol, skip in cases]
    model = run_driver(lines)
    implo = []
    for o in pmap(_impl_parse_chunk, chunked(cases, NPROC * 4)):
        implo.extend(o)
    for (s, tol, skip), a, b in zip(cases, model, implo):
        r.saw((s, tol, skip), nontrivial=len(s) > 1)
        r.count('impl:' + b.split(' ', 2)[0 if b.startswith('OK') else 1][:20])
        if b in ('ERR Watchdog', 'ERR RecursionError') or a == 'ERR StackOverflow':
            r.count('skipped:resource-limit')
            continue
        if a != b:
            r.fail(Failure(prop, 'K-parse', s, {'implementation': b[:600]}, {'model': a[:600]},
                           opts={'tolerance': tol, 'skip_envs': list(skip)},
                           note='parse result differs between model and code'))
    r.notes.append('exhaustive part: %d strings x 2 tolerance modes' % nex)
    return r


def parse_differs(src, tol=0, skip=()):
    """True when model and implementation already disagree on the PARSE of
    `src` (then a difference in views / edits / matches on that document is
    K-parse's business, not that of the later stage)."""
    try:
        line = 'P %d %s %s' % (tol, ','.join(cps(x) for x in skip) if skip else '-', cps(src))
        a = _run_driver_chunk([line])[0]
        b = _impl_parse_chunk([(src, tol, tuple(skip))])[0]
        return a != b
    except Exception:      # noqa
        return False


# ------------------------------------------------- in-Coq cross-check sample

def sexp_parse(s):
    """parse the canonical tree text into nested python lists"""
    toks = re.findall(r'\(|\)|\[|\]|[^\s()\[\]]+', s)
    pos = 0

    def rd():
        nonlocal pos
        t = toks[pos]
        pos += 1
        if t == '(':
            out = []
            while toks[pos] != ')':
                out.append(rd())
            pos += 1
            return out
        if t == '[':
            out = ['LIST']
            while toks[pos] != ']':
                out.append(rd())
            pos += 1
            return out
        return t
    return rd()


def coq_str(c):
    return '[]' if c == '-' else '[' + '; '.join(c.split('.')) + ']%N'


def coq_z(p):
    p = int(p)
    return '(%d)%%Z' % p


def coq_expr(x):
    k = x[0]
    if k == 'T':
        return '(EText (mkt %s %s T%s))' % (coq_str(x[3]), coq_z(x[2]), x[1])
    if k == 'R':
        return '(ERaw %s %s)' % (coq_str(x[2]), coq_z(x[1]))
    if k == 'S':
        return '(EStr %s)' % coq_str(x[1])
    if k == 'C':
        return '(ECmd %s %s %s %s)' % (coq_str(x[1]), coq_list(x[3]), coq_list(x[4]), coq_z(x[2]))
    if k == 'N':
        return '(ENamed %s %s %s %s)' % (coq_str(x[1]), coq_list(x[3]), coq_list(x[4]), coq_z(x[2]))
    if k == 'M':
        return '(EMath M%s %s %s)' % (x[1], coq_list(x[3]), coq_z(x[2]))
    if k == 'G':
        return '(EGroup G%s %s %s)' % (x[1], coq_list(x[3]), coq_z(x[2]))
    if k == 'ROOT':
        return '(ERoot %s)' % coq_list(x[1])
    raise ValueError(k)


def coq_list(l):
    assert l[0] == 'LIST'
    return '[' + '; '.join(coq_expr(e) for e in l[1:]) + ']'


ERRMAP = {'EOFError': 'EOFError', 'TypeError': 'TypeError', 'AssertionError': 'AssertionError',
          'RuntimeError': 'StopIteration', 'KeyError': 'KeyError', 'AttributeError': 'TokenizerError'}


def in_coq_sample(prop, tok_cases_, parse_cases_, limit=120):
    """Evaluate a sample of the correspondence cases inside Coq (vm_compute)
    against what the extracted driver printed: cross-checks extraction, the
    OCaml compiler and the driver's printer."""
    r = Result('in-Coq-sample')
    tok_cases_ = [s for s in tok_cases_ if len(s) < 200][:limit]
    parse_cases_ = [c for c in parse_cases_ if len(c[0]) < 200][:limit]
    tout = run_driver(['T ' + cps(s) for s in tok_cases_])
    pout = run_driver(['P %d %s %s' % (tol, ','.join(cps(x) for x in skip) if skip else '-', cps(s))
                       for s, tol, skip in parse_cases_])
    lines = ['From Coq Require Import List NArith ZArith.',
             'From TexModel Require Import Base Tables Chars Tokenizer Tree Reader.',
             'Import ListNotations.', '']
    n = 0
    for s, o in zip(tok_cases_, tout):
        if not o.startswith('OK'):
            continue
        toks = re.findall(r'\((\w+) (-?\d+) ([\d.\-]+)\)', o)
        term = '[' + '; '.join('mkt %s %s T%s' % (coq_str(t), coq_z(p), c) for c, p, t in toks) + ']'
        lines.append('Goal tokens_of_string %s = (%s, TEnd). Proof. vm_compute. reflexivity. Qed.'
                     % (coq_str(cps(s)), term))
        n += 1
    for (s, tol, skip), o in zip(parse_cases_, pout):
        sk = '[' + '; '.join(coq_str(cps(x)) for x in skip) + ']'
        if o.startswith('OK'):
            tree_txt, strtxt = o[3:].rsplit(' | ', 1)
            term = coq_expr(sexp_parse(tree_txt))
            lines.append('Goal parse %s %s %s = Ok %s. Proof. vm_compute. reflexivity. Qed.'
                         % (coq_str(cps(s)), 'true' if tol == 0 else 'false', sk, term))
            lines.append('Goal match parse %s %s %s with Ok e => estr e | Err _ => [] end = %s. '
                         'Proof. vm_compute. reflexivity. Qed.'
                         % (coq_str(cps(s)), 'true' if tol == 0 else 'false', sk, coq_str(strtxt)))
            n += 1
        elif o.startswith('ERR') and o[4:] in ERRMAP:
            lines.append('Goal parse %s %s %s = Err %s. Proof. vm_compute. reflexivity. Qed.'
                         % (coq_str(cps(s)), 'true' if tol == 0 else 'false', sk, ERRMAP[o[4:]]))
            n += 1
    tmpd = tempfile.mkdtemp(prefix='verif-incoq-')
    try:
        f = os.path.join(tmpd, 'Cases.v')
        with open(f, 'w') as fh:
            fh.write('\n'.join(lines) + '\n')
        rc, out = sh('timeout 600 coqc -Q %s TexModel %s' % (
            os.path.join(COQ, 'theories', 'Model'), f), cwd=tmpd, timeout=700)
        r.evaluations = n
        r.nontrivial = set(range(n))
        r.samples = lines[4:6]
        if rc != 0:
            m = re.search(r'line (\d+)', out)
            bad = lines[int(m.group(1)) - 1] if m else out[-300:]
            r.fail(Failure(prop, 'in-Coq-vs-extracted', bad[:600], out[-400:], 'vm_compute agrees with the driver',
                           note='extraction / driver disagree with evaluation inside Coq'))
    finally:
        shutil.rmtree(tmpd, ignore_errors=True)
    return r
