#!/venv/bin/python
"""Translator: regenerate coq/theories/Model/GlueGen.v from the glue functions
of $TEXSOUP_REPO/TexSoup (default /repo):

    category.py   categorize(text)
    tokens.py     next_token(text, prev=None), tokenize(text)
    tex.py        read(tex, skip_envs=(), tolerance=0)
    __init__.py   TexSoup(tex_code, skip_envs=(), tolerance=0)

The files are read with the Python `ast` module only (nothing is imported or
executed) and every function is written as a term of the small imperative
language of coq/theories/Model/GlueDSL.v, one Coq constructor per Python
construct.  Proofs/GlueGenProofs.v proves that the interpretation of the
generated terms (over the translated token rules of TokGen.v and the
translated reader of ReadGen.v) is the hand-written model.

Fail-closed: every statement or expression shape that is not listed in
GlueDSL.v raises TranslationError, as does everything around the functions the
translation relies on: where the names used come from (imports, star imports
in their order), the decorators, helper code whose meaning is built into the
interpreter (utils.to_buffer, Token.__new__/__eq__/__bool__, the Buffer
methods used, TexExpr/TexEnv/TexNode.__init__ are compared with embedded
reference source), the signature of reader.read_tex, rebinding of any name
with a module-level meaning.

The output depends on the abstract syntax only: comments, docstrings, layout,
type annotations (removed from every file before anything is compared or
translated) and the names of local variables and parameters do not change it.
Before a function is translated it is brought into a normal form (section
"helper functions" below): calls of small module-level helpers are inlined
(a pure wrapper `return E`; a search loop `for ..: if ..: return E` /
`return D`), module-level str / int literal constants are inlined, an `else`
after a branch that always returns / breaks / continues is flattened.
Locals are numbered: parameters first, then in order of first binding; in a
function without loops a local that is bound for the first time takes the
lowest slot whose previous holder is not referenced any more (so one variable
per pipeline stage and one variable rebound at every stage are the same
program), and `x = E; return x, ...` is `return E, ...`.

Usage: gen_glue.py <out.v>    exit 0 = written (only if content changed)
                              exit 2 = translation failed (message on stderr)
"""
import ast
import copy
import os
import sys

REPO = os.environ.get('TEXSOUP_REPO', '/repo')


class TranslationError(Exception):
    pass


def need(cond, msg):
    if not cond:
        raise TranslationError(msg)


CC_NAMES = ['Escape', 'GroupBegin', 'GroupEnd', 'MathSwitch', 'Alignment', 'EndOfLine', 'Macro',
            'Superscript', 'Subscript', 'Ignored', 'Spacer', 'Letter', 'Other', 'Active',
            'Comment', 'Invalid', 'MathGroupBegin', 'MathGroupEnd', 'BracketBegin', 'BracketEnd',
            'ParenBegin', 'ParenEnd']

# ---------------------------------------------------------------- pinned code
# Helper code whose meaning is built into GlueDSL.v.  Compared as abstract
# syntax with docstrings removed.

PINNED = {
    ('utils.py', None, 'to_buffer'): '''
def to_buffer(convert_in=True, convert_out=True, Buffer=Buffer):
    def decorator(f):
        @functools.wraps(f)
        def wrap(*args, **kwargs):
            iterator = args[0]
            if convert_in:
                iterator = kwargs.get('iterator', iterator)
                if not isinstance(iterator, Buffer):
                    iterator = Buffer(iterator)
            output = f(iterator, *args[1:], **kwargs)
            if convert_out:
                return Buffer(output)
            return output
        return wrap
    return decorator
''',
    ('utils.py', 'Token', '__new__'): '''
def __new__(cls, text='', position=None, category=None):
    self = str.__new__(cls, text)
    if isinstance(text, Token):
        self.text = text.text
        self.position = text.position
        self.category = category or text.category
    else:
        self.text = text
        self.position = position
        self.category = category
    return self
''',
    ('utils.py', 'Token', '__eq__'): '''
def __eq__(self, other):
    if isinstance(other, Token):
        return self.text == other.text
    else:
        return self.text == other
''',
    ('utils.py', 'Token', '__bool__'): '''
def __bool__(self):
    return bool(self.text)
''',
    ('utils.py', 'Buffer', '__init__'): '''
def __init__(self, iterator, join=Token.join, empty=lambda: '', init=lambda content, index: Token(content, index)):
    assert hasattr(iterator, '__iter__'), 'Must be an iterable.'
    self.__iterator = iter(iterator)
    self.__queue = []
    self.__i = 0
    self.__join = join
    self.__init = init
    self.__empty = empty
''',
    ('utils.py', 'Buffer', '__next__'): '''
def __next__(self):
    while self.__i >= len(self.__queue):
        self.__queue.append(self.__init(next(self.__iterator), self.__i))
    self.__i += 1
    return self.__queue[self.__i - 1]
''',
    ('utils.py', 'Buffer', '__iter__'): '''
def __iter__(self):
    return self
''',
    ('utils.py', 'Buffer', 'hasNext'): '''
def hasNext(self, n=1):
    return bool(self.peek(n - 1))
''',
    ('utils.py', 'Buffer', 'position'): '''
@property
def position(self):
    return self.__i
''',
    ('data.py', 'TexExpr', '__init__'): '''
def __init__(self, name, contents=(), args=(), preserve_whitespace=False, position=-1):
    self.name = name.strip()
    self.args = TexArgs(args)
    self.parent = None
    self._contents = list(contents) or []
    self.preserve_whitespace = preserve_whitespace
    self.position = position
    for content in contents:
        if isinstance(content, (TexEnv, TexCmd)):
            content.parent = self
''',
    ('data.py', 'TexEnv', '__init__'): '''
def __init__(self, name, begin, end, contents=(), args=(), preserve_whitespace=False, position=-1):
    super().__init__(name, contents, args, preserve_whitespace, position)
    self._begin = begin
    self._end = end
''',
    ('data.py', 'TexNode', '__init__'): '''
def __init__(self, expr, src=None):
    assert isinstance(expr, TexExpr), 'Expression given to node must be a valid TexExpr'
    super().__init__()
    self.expr = expr
    self.parent = None
    if src is not None:
        self.char_to_line = CharToLineOffset(src)
    else:
        self.char_to_line = None
''',
}
CLASS_BASES = {('data.py', 'TexEnv'): ['TexExpr'], ('data.py', 'TexExpr'): ['object'],
               ('data.py', 'TexNode'): ['object'], ('utils.py', 'Token'): ['str'],
               ('utils.py', 'Buffer'): []}

# signatures of the callables the glue calls: parameter names and the defaults
# of the last ones (None = no default; the cursor/first parameter included)
TEXENV_PARAMS = ['name', 'begin', 'end', 'contents', 'args', 'preserve_whitespace', 'position']
TEXNODE_PARAMS = ['expr', 'src']
TOKEN_PARAMS = ['text', 'position', 'category']


def where(n):
    return 'line %s' % getattr(n, 'lineno', '?')


def shape(n):
    return ast.dump(n)[:140]


def is_name(n, ident=None):
    return isinstance(n, ast.Name) and (ident is None or n.id == ident)


def is_const(n, typ):
    return isinstance(n, ast.Constant) and type(n.value) is typ


def is_none(n):
    return isinstance(n, ast.Constant) and n.value is None


def strip_doc(body):
    if body and isinstance(body[0], ast.Expr) and is_const(body[0].value, str):
        return body[1:]
    return body


def coq_str(s):
    return '[%s]%%N' % '; '.join(str(ord(c)) for c in s) if s else '[]'


def coq_z(i):
    return '(%d)' % i if i < 0 else '%d' % i


def dump_nodoc(fn):
    """ast.dump of a def, docstrings (its own and nested defs') removed"""
    fn = ast.parse(ast.unparse(fn)).body[0]
    for n in ast.walk(fn):
        if isinstance(n, ast.FunctionDef):
            n.body = strip_doc(n.body)
    return ast.dump(fn)


def strip_annotations(tree):
    """Annotations of parameters, return values and assignments do not take part
    in running a function: `def f(x: T = d) -> R` is `def f(x=d)`, `x: T = e`
    is `x = e`.  (A bare `x: T` is left alone and refused later.)"""
    class T(ast.NodeTransformer):
        def visit_FunctionDef(self, n):
            self.generic_visit(n)
            n.returns = None
            a = n.args
            for x in getattr(a, 'posonlyargs', []) + a.args + a.kwonlyargs + [a.vararg, a.kwarg]:
                if x is not None:
                    x.annotation = None
            return n

        def visit_AnnAssign(self, n):
            self.generic_visit(n)
            if n.value is not None and isinstance(n.target, (ast.Name, ast.Attribute)):
                return ast.copy_location(ast.Assign(targets=[n.target], value=n.value), n)
            return n
    return ast.fix_missing_locations(T().visit(tree))


def parse_file(name):
    path = os.path.join(REPO, 'TexSoup', name)
    with open(path) as f:
        return strip_annotations(ast.parse(f.read()))


# ------------------------------------------------------------ module bindings

def all_literal(tree):
    """the literal value of __all__, or None when the module has none"""
    out = None
    for st in tree.body:
        if isinstance(st, ast.Assign) and any(is_name(t, '__all__') for t in st.targets):
            need(len(st.targets) == 1 and isinstance(st.value, (ast.List, ast.Tuple))
                 and all(is_const(e, str) for e in st.value.elts), '__all__ is not a literal list')
            need(out is None, '__all__ assigned twice')
            out = [e.value for e in st.value.elts]
        if isinstance(st, (ast.AugAssign, ast.AnnAssign)) and is_name(st.target, '__all__'):
            raise TranslationError('__all__ modified')
    for n in ast.walk(tree):
        if isinstance(n, ast.Attribute) and is_name(n.value, '__all__'):
            raise TranslationError('__all__ modified')
    return out


def module_bindings(tree, fname, star_exports):
    """[(name, how)] for every module-level binding, in order.  `how` is
    'from <mod> import <name>', 'import', 'def', 'class', 'assign',
    'star <mod>'.  Compound statements at module level are refused."""
    out = []
    for st in tree.body:
        if isinstance(st, ast.ImportFrom):
            need(st.level == 0, '%s: relative import' % fname)
            for a in st.names:
                if a.name == '*':
                    need(st.module in star_exports, '%s: star import of %s' % (fname, st.module))
                    for nm in star_exports[st.module]:
                        out.append((nm, 'star %s' % st.module))
                else:
                    out.append((a.asname or a.name, 'from %s import %s' % (st.module, a.name)))
        elif isinstance(st, ast.Import):
            for a in st.names:
                out.append(((a.asname or a.name).split('.')[0],
                            'import' if a.asname is None else 'import-as'))
        elif isinstance(st, ast.FunctionDef):
            out.append((st.name, 'def'))
        elif isinstance(st, ast.ClassDef):
            out.append((st.name, 'class'))
        elif isinstance(st, (ast.Assign, ast.AugAssign, ast.AnnAssign)):
            for t in (st.targets if isinstance(st, ast.Assign) else [st.target]):
                for x in ast.walk(t):
                    if isinstance(x, ast.Name) and isinstance(x.ctx, ast.Store):
                        out.append((x.id, 'assign'))
                    elif isinstance(x, ast.Attribute) and isinstance(x.ctx, ast.Store):
                        # Token.Empty = ...: an attribute of a module-level object
                        base = x.value.id if isinstance(x.value, ast.Name) else '?'
                        out.append(('%s.%s' % (base, x.attr), 'attr-assign'))
                    elif isinstance(x, (ast.Subscript, ast.Starred)) and isinstance(x.ctx, ast.Store):
                        raise TranslationError('%s: module-level subscript/starred target at %s'
                                               % (fname, where(st)))
        elif isinstance(st, ast.Expr) and isinstance(st.value, ast.Constant):
            pass                                    # docstring
        else:
            raise TranslationError('%s: unexpected module-level statement at %s: %s'
                                   % (fname, where(st), shape(st)))
    for n in ast.walk(tree):
        need(not isinstance(n, (ast.Global, ast.Nonlocal)),
             '%s: global/nonlocal at %s' % (fname, where(n)))
        need(not (isinstance(n, ast.Delete) and any(isinstance(t, ast.Name) for t in n.targets)),
             '%s: del of a name at %s' % (fname, where(n)))
    return out


def public_names(tree, fname):
    """what `from <module> import *` binds"""
    al = all_literal(tree)
    if al is not None:
        return al
    return [n for n, _ in module_bindings(tree, fname, STAR_ANY) if not n.startswith('_')]


class _Any(dict):
    def __contains__(self, k):
        return True

    def __getitem__(self, k):
        return []


STAR_ANY = _Any()


def final_binding(bindings, name):
    hows = [h for n, h in bindings if n == name]
    return hows[-1] if hows else None


def only_binding(bindings, name, how, fname):
    hows = [h for n, h in bindings if n == name]
    need(hows == [how], '%s: binding of %s changed: %s (expected %s)' % (fname, name, hows, how))


BUILTINS = ['enumerate', 'reversed', 'isinstance', 'str', 'list', 'iter', 'next', 'len', 'bool']


def check_pins(trees):
    for (fname, cls, name), src in sorted(PINNED.items(), key=lambda kv: (kv[0][0], kv[0][1] or '', kv[0][2])):
        tree = trees[fname]
        scope = tree.body
        label = name
        if cls is not None:
            cs = [c for c in tree.body if isinstance(c, ast.ClassDef) and c.name == cls]
            need(len(cs) == 1, '%s: class %s not found exactly once' % (fname, cls))
            bases = [b.id if isinstance(b, ast.Name) else '?' for b in cs[0].bases]
            need(bases == CLASS_BASES[(fname, cls)] and not cs[0].keywords and not cs[0].decorator_list,
                 '%s: bases/decorators of class %s changed' % (fname, cls))
            scope = cs[0].body
            label = '%s.%s' % (cls, name)
        fns = [f for f in scope if isinstance(f, ast.FunctionDef) and f.name == name]
        need(len(fns) == 1, '%s: %s not defined exactly once' % (fname, label))
        ref = ast.parse(src).body[0]
        need(dump_nodoc(fns[0]) == dump_nodoc(ref), '%s: pinned helper %s changed' % (fname, label))
        if cls is not None:
            # not patched from module level (Token.Empty = ... is fine)
            for nm, how in module_bindings(tree, fname, STAR_ANY):
                need(not (how == 'attr-assign' and (nm == '%s.%s' % (cls, name) or nm.startswith('?.'))),
                     '%s: module-level assignment to %s' % (fname, nm))
            # no other binding of the method name in the class body
            others = [s for s in scope if not (isinstance(s, ast.FunctionDef))
                      and any(isinstance(x, ast.Name) and x.id == name and isinstance(x.ctx, ast.Store)
                              for x in ast.walk(s))]
            need(not others, '%s: %s is rebound in the class body' % (fname, label))


# ------------------------------------------------------------------ functions

class Sig(object):
    """parameters of a callee: names, and defaults as DSL constants"""

    def __init__(self, fn, what):
        a = fn.args
        need(not a.vararg and not a.kwonlyargs and not a.kwarg and not getattr(a, 'posonlyargs', [])
             and not a.kw_defaults, '%s: unsupported parameter kinds' % what)
        self.names = [x.arg for x in a.args]
        need(len(set(self.names)) == len(self.names), '%s: duplicate parameter' % what)
        nd = len(a.defaults)
        self.defaults = [None] * (len(self.names) - nd) + [const_expr(d, what) for d in a.defaults]


def const_expr(n, what):
    """a default value: None, an int, a str, ()  ->  (DSL expression, Coq value)"""
    if is_none(n):
        return ('GNone', 'VNone')
    if is_const(n, int):
        return ('GInt %s' % coq_z(n.value), 'VInt %s' % coq_z(n.value))
    if is_const(n, str):
        return ('GStr %s' % coq_str(n.value), 'VStr %s' % coq_str(n.value))
    if isinstance(n, ast.Tuple) and not n.elts:
        return ('GEmptyTuple', 'VTuple []')
    raise TranslationError('%s: unsupported default value %s' % (what, shape(n)))


def resolve_args(call, names, defaults, what, first=0):
    """positional + keyword arguments of `call` against the parameter list
    names[first:] -> list of ast nodes or default markers ('default', expr)"""
    need(not any(isinstance(a, ast.Starred) for a in call.args), '%s: *args in call' % what)
    need(all(k.arg is not None for k in call.keywords), '%s: **kwargs in call' % what)
    names = names[first:]
    defaults = defaults[first:]
    need(len(call.args) <= len(names), '%s: too many arguments' % what)
    slots = [None] * len(names)
    for i, a in enumerate(call.args):
        slots[i] = a
    for k in call.keywords:
        need(k.arg in names, '%s: unknown keyword %s' % (what, k.arg))
        i = names.index(k.arg)
        need(slots[i] is None, '%s: argument %s given twice' % (what, k.arg))
        slots[i] = k.value
    for i in range(len(slots)):
        if slots[i] is None:
            need(defaults[i] is not None, '%s: missing argument %s' % (what, names[i]))
            slots[i] = ('default', defaults[i][0])
    return slots


class Fun(object):
    """Translation of one function."""

    def __init__(self, fn, module, cursor, conv_in, sigs, module_names, globals_ok):
        """module: file name (for messages and for the module-level names that
        mean something there); cursor: the first parameter is the cursor buffer;
        sigs: {callee name: (F_name, Sig, is_cursor)}; module_names: every name
        bound at module level (a local must not shadow one that is used);
        globals_ok: names with a module-level meaning the body may use."""
        self.fn, self.module, self.cursor, self.conv_in = fn, module, cursor, conv_in
        self.sigs, self.globals_ok, self.module_names = sigs, globals_ok, module_names
        self.sig = Sig(fn, fn.name)
        for n in ast.walk(fn):
            need(not isinstance(n, (ast.FunctionDef, ast.AsyncFunctionDef, ast.Lambda, ast.ClassDef,
                                    ast.YieldFrom, ast.Await, ast.Try, ast.With, ast.Import,
                                    ast.ImportFrom, ast.ListComp, ast.SetComp, ast.DictComp,
                                    ast.GeneratorExp, ast.NamedExpr)) or n is fn,
                 '%s: unsupported construct at %s: %s' % (fn.name, where(n), type(n).__name__))
        self.gen = any(isinstance(n, ast.Yield) for n in ast.walk(fn))
        params = self.sig.names
        need(params, '%s: no parameters' % fn.name)
        self.text = params[0] if cursor else None
        self.locals = {}
        for p in (params[1:] if cursor else params):
            self.locals[p] = len(self.locals)
        self.nparams = len(self.locals)
        if cursor:
            need(self.sig.defaults[0] is None, '%s: default for the buffer parameter' % fn.name)
        self.defaults = [d for d in (self.sig.defaults[1:] if cursor else self.sig.defaults) if d is not None]
        ds = self.sig.defaults[1:] if cursor else self.sig.defaults
        seen_default = False
        for d in ds:
            if d is not None:
                seen_default = True
            need(not (seen_default and d is None), '%s: parameter order' % fn.name)
        self.body = self.inline_return_temp(strip_doc(fn.body))
        has_loop = any(isinstance(n, (ast.While, ast.For)) for st in self.body for n in ast.walk(st))
        if has_loop:
            # number the other locals in order of first binding
            for n in self.stores(self.body):
                if n not in self.locals:
                    need(n != self.text, '%s: the buffer parameter %s is rebound' % (fn.name, n))
                    self.locals[n] = len(self.locals)
            self.nlocals = len(self.locals)
        else:
            self.number_coalesced()
        for n in self.locals:
            need(n not in globals_ok and n not in BUILTINS,
                 '%s: local %s shadows a name the translation relies on' % (fn.name, n))

    def inline_return_temp(self, body):
        """...; x = E; return x, A, ...   ==   ...; return E, A, ...
        when x is bound here only and read there only: E is evaluated at the
        same point (x is the first thing the return statement evaluates)."""
        def leftmost(r):
            while isinstance(r, ast.Tuple) and r.elts:
                r = r.elts[0]
            return r if isinstance(r, ast.Name) else None
        body = list(body)
        while len(body) >= 2 and isinstance(body[-1], ast.Return) and body[-1].value is not None \
                and isinstance(body[-2], ast.Assign) and len(body[-2].targets) == 1 \
                and isinstance(body[-2].targets[0], ast.Name):
            x = body[-2].targets[0].id
            lm = leftmost(body[-1].value)
            occ = [n for st in body for n in ast.walk(st) if isinstance(n, ast.Name) and n.id == x]
            if lm is None or lm.id != x or x in self.sig.names or len(occ) != 2:
                break
            val = body[-2].value

            class T(ast.NodeTransformer):
                def visit_Name(self, n):
                    return val if n is lm else n
            body = body[:-2] + [ast.Return(value=T().visit(body[-1].value))]
        return body

    def number_coalesced(self):
        """Numbering for a function without loops.  Statements are taken in textual
        order (= execution order along every path).  A local whose first binding
        is a top-level statement i of the body, and that nothing reads at or
        before i, takes the lowest slot (after the parameters) whose holder is
        not mentioned after i and is not itself bound by statement i (it may
        be read by it: the right-hand side is evaluated before the target is
        bound).  From i on that local is definitely bound, so every later read
        of the slot is a read of it.  Any other local gets a slot of its own."""
        seq = []

        def names(node, ctx):
            return [n.id for n in ast.walk(node) if isinstance(n, ast.Name) and isinstance(n.ctx, ctx)]

        def walk(stmts, depth):
            for s in stmts:
                if isinstance(s, ast.If):
                    seq.append((names(s.test, ast.Load), [], depth))
                    walk(s.body, depth + 1)
                    walk(s.orelse, depth + 1)
                else:
                    seq.append((names(s, ast.Load), self.stores([s]), depth))
        walk(self.body, 0)
        last, first_load = {}, {}
        for i, (loads, stored, _) in enumerate(seq):
            for n in loads:
                first_load.setdefault(n, i)
            for n in loads + stored:
                last[n] = i
        holder = {}
        for i, (loads, stored, depth) in enumerate(seq):
            for n in stored:
                if n in self.locals:
                    continue
                need(n != self.text, '%s: the buffer parameter %s is rebound' % (self.fn.name, n))
                sl = self.nparams
                share = depth == 0 and first_load.get(n, i + 1) > i
                while sl in holder and not (share and (last[holder[sl]] < i or (
                        last[holder[sl]] == i and holder[sl] not in stored))):
                    sl += 1
                self.locals[n] = sl
                holder[sl] = n
        self.nlocals = self.nparams + len(holder)

    def stores(self, body):
        """names bound in `body`, in source order (pre-order, targets before bodies)"""
        out = []

        def tgt(t):
            if isinstance(t, ast.Name):
                out.append(t.id)
            elif isinstance(t, ast.Tuple):
                for e in t.elts:
                    tgt(e)
            else:
                raise TranslationError('%s: assignment target at %s: %s' % (self.fn.name, where(t), shape(t)))

        def walk(stmts):
            for s in stmts:
                if isinstance(s, ast.Assign):
                    for t in s.targets:
                        tgt(t)
                elif isinstance(s, (ast.AugAssign, ast.AnnAssign)):
                    raise TranslationError('%s: augmented/annotated assignment at %s' % (self.fn.name, where(s)))
                elif isinstance(s, ast.For):
                    tgt(s.target)
                    walk(s.body)
                    walk(s.orelse)
                elif isinstance(s, (ast.While, ast.If)):
                    walk(s.body)
                    walk(s.orelse)
        walk(body)
        return out

    def err(self, n, what):
        raise TranslationError('%s, %s: %s: %s' % (self.fn.name, where(n), what, shape(n)))

    # ---- names
    def var(self, n):
        if isinstance(n, ast.Name) and n.id in self.locals:
            return self.locals[n.id]
        return None

    def is_text(self, n):
        return self.cursor and is_name(n, self.text)

    def targets(self, t):
        if isinstance(t, ast.Name):
            v = self.var(t)
            need(v is not None, '%s: target %s' % (self.fn.name, shape(t)))
            return [v]
        if isinstance(t, ast.Tuple) and len(t.elts) >= 2 and all(isinstance(e, ast.Name) for e in t.elts):
            vs = [self.var(e) for e in t.elts]
            need(len(set(vs)) == len(vs), '%s: repeated name in a tuple target' % self.fn.name)
            return vs
        self.err(t, 'unsupported assignment target')

    def glob(self, n, ident):
        """the module-level name `ident`, used with its module-level meaning"""
        return is_name(n, ident) and ident in self.globals_ok and ident not in self.locals

    # ---- expressions
    def ex(self, n):
        if is_none(n):
            return 'GNone'
        if is_const(n, bool):
            return 'GBool %s' % ('true' if n.value else 'false')
        if is_const(n, int):
            return 'GInt %s' % coq_z(n.value)
        if is_const(n, str):
            return 'GStr %s' % coq_str(n.value)
        if isinstance(n, ast.Tuple):
            if not n.elts:
                return 'GEmptyTuple'
            if len(n.elts) == 2:
                return 'GPair (%s) (%s)' % (self.ex(n.elts[0]), self.ex(n.elts[1]))
            self.err(n, 'tuple of other than 0 or 2 elements')
        if isinstance(n, ast.Name):
            need(not self.is_text(n), '%s, %s: the buffer parameter used as a value' % (self.fn.name, where(n)))
            v = self.var(n)
            if v is not None:
                return 'GVar %d' % v
            if self.glob(n, 'tokenizers'):
                return 'GTokenizers'
            self.err(n, 'unknown name')
        if isinstance(n, ast.Attribute):
            if self.glob(n.value, 'CC'):
                need(n.attr in CC_NAMES, '%s: unknown category CC.%s' % (self.fn.name, n.attr))
                return 'GCat C%s' % n.attr
            if n.attr == 'position' and self.is_text(n.value):
                return 'GPosition'
            self.err(n, 'unsupported attribute')
        if isinstance(n, ast.UnaryOp) and isinstance(n.op, ast.Not):
            return 'GNot (%s)' % self.ex(n.operand)
        if isinstance(n, ast.UnaryOp) and isinstance(n.op, ast.USub) and is_const(n.operand, int):
            return 'GInt %s' % coq_z(-n.operand.value)
        if isinstance(n, ast.BoolOp):
            ctor = {ast.And: 'GAnd', ast.Or: 'GOr'}[type(n.op)]
            parts = [self.ex(v) for v in n.values]
            out = parts[-1]
            for p in reversed(parts[:-1]):
                out = '%s (%s) (%s)' % (ctor, p, out)
            return out
        if isinstance(n, ast.Compare):
            if len(n.ops) != 1:
                self.err(n, 'chained comparison')
            op, lhs, rhs = type(n.ops[0]), n.left, n.comparators[0]
            if op in (ast.Is, ast.IsNot):
                need(is_none(rhs), '%s, %s: `is` with other than None on the right' % (self.fn.name, where(n)))
                return '%s (%s)' % ('GIsNone' if op is ast.Is else 'GIsNotNone', self.ex(lhs))
            if op in (ast.In, ast.NotIn) and self.glob(rhs, 'TC'):
                need(isinstance(lhs, ast.Attribute) and lhs.attr == 'category',
                     '%s, %s: `in TC` of other than x.category' % (self.fn.name, where(n)))
                e = 'GCatInTC (%s)' % self.ex(lhs.value)
                return e if op is ast.In else 'GNot (%s)' % e
            if op in (ast.Eq, ast.NotEq):
                return '%s (%s) (%s)' % ('GEq' if op is ast.Eq else 'GNe', self.ex(lhs), self.ex(rhs))
            if op in (ast.In, ast.NotIn):
                e = 'GIn (%s) (%s)' % (self.ex(lhs), self.ex(rhs))
                return e if op is ast.In else 'GNot (%s)' % e
            self.err(n, 'unsupported comparison')
        if isinstance(n, ast.Call):
            return self.call_ex(n)
        if isinstance(n, ast.IfExp):
            return 'GIfExp (%s) (%s) (%s)' % (self.ex(n.test), self.ex(n.body), self.ex(n.orelse))
        self.err(n, 'unsupported expression')

    def call_ex(self, n):
        f = n.func
        # text.hasNext() / text.hasNext(k)
        if isinstance(f, ast.Attribute) and self.is_text(f.value):
            if f.attr == 'hasNext' and not n.keywords:
                if not n.args:
                    return 'GHasNext 1'
                if len(n.args) == 1 and is_const(n.args[0], int) and n.args[0].value >= 1:
                    return 'GHasNext %d' % n.args[0].value
            self.err(n, 'unsupported use of the buffer')
        # x.isspace()
        if isinstance(f, ast.Attribute) and f.attr == 'isspace' and not n.args and not n.keywords:
            return 'GIsSpace (%s)' % self.ex(f.value)
        # CATEGORY_CODES.items()
        if isinstance(f, ast.Attribute) and f.attr == 'items' and self.glob(f.value, 'CATEGORY_CODES'):
            need(not n.args and not n.keywords, '%s: items() with arguments' % self.fn.name)
            return 'GCategoryItems'
        # '<sep>'.join(x)
        if isinstance(f, ast.Attribute) and f.attr == 'join' and is_const(f.value, str):
            need(len(n.args) == 1 and not n.keywords and not isinstance(n.args[0], ast.Starred),
                 '%s: join arguments' % self.fn.name)
            return 'GJoin (GStr %s) (%s)' % (coq_str(f.value.value), self.ex(n.args[0]))
        # itertools.chain(*x)
        if isinstance(f, ast.Attribute) and f.attr == 'chain' and self.glob(f.value, 'itertools'):
            need(len(n.args) == 1 and isinstance(n.args[0], ast.Starred) and not n.keywords,
                 '%s, %s: only itertools.chain(*x)' % (self.fn.name, where(n)))
            return 'GChainStar (%s)' % self.ex(n.args[0].value)
        if isinstance(f, ast.Name) and f.id not in self.locals:
            nm = f.id
            if nm == 'isinstance' and nm not in self.module_names:
                need(len(n.args) == 2 and not n.keywords and is_name(n.args[1], 'str')
                     and 'str' not in self.module_names and 'str' not in self.locals,
                     '%s, %s: only isinstance(x, str)' % (self.fn.name, where(n)))
                return 'GIsStr (%s)' % self.ex(n.args[0])
            if nm == 'reversed' and nm not in self.module_names:
                need(len(n.args) == 1 and not n.keywords, '%s: reversed arguments' % self.fn.name)
                return 'GReversed (%s)' % self.ex(n.args[0])
            if nm == 'enumerate' and nm not in self.module_names:
                slots = resolve_args(n, ['iterable', 'start'], [None, ('GInt 0', 'VInt 0')], 'enumerate')
                start = 0
                if not isinstance(slots[1], tuple):
                    s = slots[1]
                    if isinstance(s, ast.UnaryOp) and isinstance(s.op, ast.USub) and is_const(s.operand, int):
                        start = -s.operand.value
                    else:
                        need(is_const(s, int), '%s: enumerate start is not an int literal' % self.fn.name)
                        start = s.value
                need(not any(k.arg == 'iterable' for k in n.keywords), 'enumerate(iterable=...)')
                return 'GEnumerate (%s) %s' % (self.ex(slots[0]), coq_z(start))
            if self.glob(f, 'Token'):
                slots = resolve_args(n, TOKEN_PARAMS, [('GStr []', ''), ('GNone', ''), ('GNone', '')], 'Token')
                return 'GNewToken %s' % ' '.join('(%s)' % self.slot(s) for s in slots)
            if self.glob(f, 'TexEnv'):
                slots = resolve_args(n, TEXENV_PARAMS,
                                     [None, None, None, ('GEmptyTuple', ''), ('!', ''), ('!', ''), ('!', '')], 'TexEnv')
                need(all(isinstance(s, tuple) for s in slots[4:]),
                     '%s, %s: TexEnv(args=/preserve_whitespace=/position=) is not modelled' % (self.fn.name, where(n)))
                return 'GNewTexEnv %s' % ' '.join('(%s)' % self.slot(s) for s in slots[:4])
            if self.glob(f, 'TexNode'):
                slots = resolve_args(n, TEXNODE_PARAMS, [None, ('GNone', '')], 'TexNode')
                return 'GNewTexNode %s' % ' '.join('(%s)' % self.slot(s) for s in slots)
        self.err(n, 'unsupported call')

    def slot(self, s):
        return s[1] if isinstance(s, tuple) else self.ex(s)

    # ---- statements
    def call_stmt(self, targets, v):
        """xs = f(...) where f is a rule variable or one of the known functions;
        None when v is not such a call"""
        if not isinstance(v, ast.Call) or not isinstance(v.func, ast.Name):
            return None
        f = v.func
        fv = self.var(f)
        if fv is not None:
            # a local holding one of the registered rules: f(text, prev=...)
            need(self.cursor, '%s, %s: call of a local' % (self.fn.name, where(v)))
            slots = resolve_args(v, ['text', 'prev'], [None, ('GNone', 'VNone')], 'rule call')
            need(not isinstance(slots[0], tuple) and self.is_text(slots[0]),
                 '%s, %s: a rule must be called on the buffer parameter' % (self.fn.name, where(v)))
            need(not any(k.arg == 'text' for k in v.keywords), 'rule call with text=')
            need(len(targets) == 1, '%s: tuple target of a rule call' % self.fn.name)
            return ('atom', 'SCallRule %d (GVar %d) (%s)' % (targets[0], fv, self.slot(slots[1])))
        if f.id in self.sigs and f.id in self.globals_ok and f.id not in self.locals:
            cname, sig, callee_cursor = self.sigs[f.id]
            slots = resolve_args(v, sig.names, sig.defaults, f.id)
            pass_text = False
            if callee_cursor and not isinstance(slots[0], tuple) and self.is_text(slots[0]):
                need(not any(k.arg == sig.names[0] for k in v.keywords),
                     '%s: buffer passed by keyword' % self.fn.name)
                pass_text = True
                slots = slots[1:]
            # to_buffer reads kwargs.get('iterator', ...): never pass that keyword
            need(not any(k.arg == 'iterator' for k in v.keywords), '%s: iterator= keyword' % self.fn.name)
            # the decorator takes the buffer from args[0]
            if callee_cursor or cname == 'F_categorize':
                need(len(v.args) >= 1, '%s, %s: the first argument of %s must be positional'
                     % (self.fn.name, where(v), f.id))
            return ('atom', 'SCall [%s] %s %s [%s]' % ('; '.join(str(t) for t in targets), cname,
                                                       'true' if pass_text else 'false',
                                                       '; '.join(self.slot(s) for s in slots)))
        return None

    def stmt(self, s):
        if isinstance(s, ast.Assign):
            need(len(s.targets) == 1, '%s, %s: multiple assignment targets' % (self.fn.name, where(s)))
            ts = self.targets(s.targets[0])
            c = self.call_stmt(ts, s.value)
            if c is not None:
                return c
            need(len(ts) == 1, '%s, %s: tuple target of a plain assignment' % (self.fn.name, where(s)))
            return ('atom', 'SAssign %d (%s)' % (ts[0], self.ex(s.value)))
        if isinstance(s, ast.Return):
            if s.value is None:
                return ('atom', 'SReturn GNone')
            need(not self.gen or is_none(s.value), '%s: return with a value in a generator' % self.fn.name)
            return ('atom', 'SReturn (%s)' % self.ex(s.value))
        if isinstance(s, ast.Expr):
            if isinstance(s.value, ast.Yield):
                need(s.value.value is not None, '%s: bare yield' % self.fn.name)
                return ('atom', 'SYield (%s)' % self.ex(s.value.value))
            self.err(s, 'unsupported expression statement')
        if isinstance(s, ast.Break):
            return ('atom', 'SBreak')
        if isinstance(s, ast.Continue):
            return ('atom', 'SContinue')
        if isinstance(s, ast.Pass):
            return ('atom', 'SPass')
        if isinstance(s, ast.Assert):
            need(s.msg is None or is_const(s.msg, str), '%s: assert message' % self.fn.name)
            return ('atom', 'SAssert (%s)' % self.ex(s.test))
        if isinstance(s, ast.If):
            return ('if', self.ex(s.test), self.block(s.body), self.block(s.orelse))
        if isinstance(s, ast.While):
            need(not s.orelse, '%s: while-else' % self.fn.name)
            need(self.cursor, '%s: while loop outside a buffer function' % self.fn.name)
            return ('while', self.ex(s.test), self.block(s.body))
        if isinstance(s, ast.For):
            need(not s.orelse, '%s: for-else' % self.fn.name)
            ts = self.targets(s.target)
            return ('for', '[%s]' % '; '.join(str(t) for t in ts), self.ex(s.iter), self.block(s.body))
        self.err(s, 'unsupported statement')

    def block(self, body):
        return [self.stmt(s) for s in body]

    def translate(self):
        body = self.body
        need(body, '%s: empty body' % self.fn.name)
        # yield only as a statement
        ys = [n for n in ast.walk(self.fn) if isinstance(n, ast.Yield)]
        stm = [n for n in ast.walk(self.fn) if isinstance(n, ast.Expr) and isinstance(n.value, ast.Yield)]
        need(len(ys) == len(stm), '%s: yield used as an expression' % self.fn.name)
        # falling off the end returns None: a final top-level `return` /
        # `return None` is the same program
        if len(body) > 1 and isinstance(body[-1], ast.Return) \
                and (body[-1].value is None or is_none(body[-1].value)):
            body = body[:-1]
        return self.block(body)


# ------------------------------------------------------------------- printing

def pp_block(items, ind):
    pad = ' ' * ind
    if not items:
        return [pad + '(blk [])']
    out = [pad + '(blk [']
    for i, it in enumerate(items):
        lines = pp_stmt(it, ind + 2)
        if i < len(items) - 1:
            lines[-1] += ';'
        out.extend(lines)
    out[-1] += '])'
    return out


def pp_stmt(it, ind):
    pad = ' ' * ind
    if it[0] == 'atom':
        return [pad + it[1]]
    if it[0] == 'if':
        return [pad + 'SIf (%s)' % it[1]] + pp_block(it[2], ind + 2) + pp_block(it[3], ind + 2)
    if it[0] == 'while':
        return [pad + 'SWhile (%s)' % it[1]] + pp_block(it[2], ind + 2)
    if it[0] == 'for':
        return [pad + 'SFor %s (%s)' % (it[1], it[2])] + pp_block(it[3], ind + 2)
    raise TranslationError('internal: %r' % (it,))



# ------------------------------------------------------------ helper functions
# A call of a small module-level helper inside an expression is replaced by the
# helper's meaning, for two shapes of helper:
#   def h(p...): return E                      ->  E[p := argument]
#   def h(p...):                               ->  r = D
#       for T in I:                                for T in I:
#           if C: return E                             if C:
#       return D          (D a constant)                   r = E; break
#                                                  ... r ...
# The arguments must be names or constants (no evaluation to order), the helper
# must not rebind its parameters, everything the statement evaluates before the
# call must be a name or a constant (so running the loop first changes
# nothing), and the helper's other locals are renamed apart.

def pure_leaf(n):
    return (isinstance(n, (ast.Name, ast.Constant))
            or (isinstance(n, ast.Attribute) and isinstance(n.value, ast.Name) and n.value.id in ('CC', 'TC')))


def eval_order(e, out):
    """sub-expressions of e in the order Python evaluates them (only the node
    kinds that can sit around a helper call; anything else: one opaque node)"""
    if isinstance(e, ast.Tuple):
        for x in e.elts:
            eval_order(x, out)
    elif isinstance(e, ast.Call) and not any(isinstance(a, ast.Starred) for a in e.args) \
            and all(k.arg is not None for k in e.keywords):
        eval_order(e.func, out)
        for a in e.args:
            eval_order(a, out)
        for k in e.keywords:
            eval_order(k.value, out)
        out.append(e)
    else:
        out.append(e)


class ExprInliner(object):
    def __init__(self, fn, helpers, fname):
        self.fn, self.helpers, self.fname = fn, helpers, fname
        self.k = 0
        self.used = set()
        self.locals = set(x.arg for x in fn.args.args)
        for n in ast.walk(fn):
            if isinstance(n, ast.Name) and isinstance(n.ctx, ast.Store):
                self.locals.add(n.id)

    def run(self):
        self.fn.body = self.block(self.fn.body)
        return self.fn

    def block(self, stmts):
        out = []
        for s in stmts:
            if isinstance(s, (ast.If, ast.While, ast.For)):
                s.body = self.block(s.body)
                s.orelse = self.block(s.orelse)
                out.append(s)
                continue
            pre = []
            for _ in range(4):
                if not self.one(s, pre):
                    break
            out.extend(pre)
            out.append(s)
        return out

    def value_of(self, s):
        if isinstance(s, ast.Expr) and isinstance(s.value, ast.Yield):
            return s.value, 'value'
        if isinstance(s, (ast.Assign, ast.Return, ast.Expr)):
            return s, 'value'
        return None, None

    def one(self, s, pre):
        holder, fld = self.value_of(s)
        if holder is None or getattr(holder, fld) is None:
            return False
        order = []
        eval_order(getattr(holder, fld), order)
        for i, e in enumerate(order):
            if isinstance(e, ast.Call) and isinstance(e.func, ast.Name) and e.func.id in self.helpers \
                    and e.func.id not in self.locals:
                before = [x for x in order[:i] if x is not e.func]
                if not all(pure_leaf(x) for x in before):
                    return False
                repl = self.expand(e, pre)

                class T(ast.NodeTransformer):
                    def visit_Call(self, n):
                        if n is e:
                            return repl
                        return self.generic_visit(n)
                setattr(holder, fld, T().visit(getattr(holder, fld)))
                return True
            if not pure_leaf(e):
                return False
        return False

    def expand(self, call, pre):
        h = self.helpers[call.func.id]
        who = '%s: call of %s' % (self.fn.name, h.name)
        a = h.args
        need(not a.vararg and not a.kwonlyargs and not a.kwarg and not getattr(a, 'posonlyargs', [])
             and not a.defaults and not a.kw_defaults, '%s: unsupported parameter kinds' % who)
        params = [x.arg for x in a.args]
        need(len(set(params)) == len(params) and not call.keywords and len(call.args) == len(params)
             and all(pure_leaf(x) for x in call.args), '%s: arguments must be positional names or constants' % who)
        body = copy.deepcopy(strip_doc(h.body))
        stores = set(n.id for st in body for n in ast.walk(st)
                     if isinstance(n, ast.Name) and isinstance(n.ctx, ast.Store))
        need(not stores & set(params), '%s: the helper rebinds a parameter' % who)
        self.k += 1
        ren = dict((l, '_h%d_%s' % (self.k, l)) for l in stores)
        sub = dict(zip(params, call.args))
        for st in body:
            for n in ast.walk(st):
                need(not isinstance(n, (ast.FunctionDef, ast.Lambda, ast.ClassDef, ast.Yield, ast.YieldFrom,
                                        ast.Await, ast.Try, ast.With, ast.Import, ast.ImportFrom, ast.Global,
                                        ast.Nonlocal, ast.Delete, ast.ListComp, ast.SetComp, ast.DictComp,
                                        ast.GeneratorExp, ast.NamedExpr)),
                     '%s: unsupported construct %s in the helper' % (who, type(n).__name__))
                if isinstance(n, ast.Name) and n.id not in stores and n.id not in params:
                    need(n.id not in self.locals, '%s: the helper uses the global %s, a local of the caller'
                         % (who, n.id))

        class T(ast.NodeTransformer):
            def visit_Name(self, n):
                if n.id in sub:
                    return copy.deepcopy(sub[n.id])
                if n.id in ren:
                    return ast.Name(id=ren[n.id], ctx=n.ctx)
                return n
        body = [T().visit(st) for st in body]
        self.used.add(h.name)
        self.locals |= set(ren.values())
        # def h(..): return E
        if len(body) == 1 and isinstance(body[0], ast.Return) and body[0].value is not None:
            return body[0].value
        # def h(..): for T in I: if C: return E ; return D
        if len(body) == 2 and isinstance(body[0], ast.For) and not body[0].orelse \
                and isinstance(body[1], ast.Return) and body[1].value is not None and pure_leaf(body[1].value) \
                and not isinstance(body[1].value, ast.Name) \
                and len(body[0].body) == 1 and isinstance(body[0].body[0], ast.If) \
                and not body[0].body[0].orelse and len(body[0].body[0].body) == 1 \
                and isinstance(body[0].body[0].body[0], ast.Return) \
                and body[0].body[0].body[0].value is not None:
            r = '_h%d_result' % self.k
            self.locals.add(r)
            loop, inner = body[0], body[0].body[0]

            def assign(v):
                return ast.Assign(targets=[ast.Name(id=r, ctx=ast.Store())], value=v)
            inner.body = [assign(inner.body[0].value), ast.Break()]
            pre.append(assign(body[1].value))
            pre.append(loop)
            return ast.Name(id=r, ctx=ast.Load())
        raise TranslationError('%s: the helper has neither of the two shapes that are inlined' % who)


def module_helpers(tree, bindings, exclude):
    out = {}
    for st in tree.body:
        if isinstance(st, ast.FunctionDef) and not st.decorator_list and st.name not in exclude \
                and [h for n, h in bindings if n == st.name] == ['def']:
            out[st.name] = st
    return out


def literal_consts(tree, bindings):
    """module-level names bound exactly once, by a str / int / bool / None
    literal or a tuple of str / int literals: immutable, so the name means the
    literal wherever a function reads it without binding it locally"""
    out = {}
    for st in tree.body:
        if isinstance(st, ast.Assign) and len(st.targets) == 1 and isinstance(st.targets[0], ast.Name):
            nm = st.targets[0].id
            v = st.value
            if [h for n, h in bindings if n == nm] != ['assign'] or nm.startswith('__'):
                continue
            if is_const(v, str) or is_const(v, int) or is_const(v, bool) or is_none(v) \
                    or (isinstance(v, ast.Tuple) and all(is_const(e, str) or is_const(e, int) for e in v.elts)):
                out[nm] = v
    return out


def always_jumps(stmts):
    if not stmts:
        return False
    s = stmts[-1]
    if isinstance(s, (ast.Return, ast.Break, ast.Continue, ast.Raise)):
        return True
    return isinstance(s, ast.If) and always_jumps(s.body) and always_jumps(s.orelse)


def flatten_else(stmts):
    """if C: X (ends in return / break / continue)    ==   if C: X
       else: Y                                              Y"""
    out = []
    for s in stmts:
        for fld in ('body', 'orelse'):
            if isinstance(getattr(s, fld, None), list):
                setattr(s, fld, flatten_else(getattr(s, fld)))
        if isinstance(s, ast.If) and s.orelse and always_jumps(s.body):
            rest, s.orelse = s.orelse, []
            out.append(s)
            out.extend(rest)
        else:
            out.append(s)
    return out


class CallHoister(object):
    """x = f(g(a), b)   ==   t = g(a); x = f(t, b)     for the functions the
    glue calls (they are statements of the DSL): a call nested in an
    expression gets a temporary of its own when everything the statement
    evaluates before it is a name or a constant, so the order is kept."""

    def __init__(self, fn, callees):
        self.fn, self.callees, self.k = fn, callees, 0
        self.locals = set(x.arg for x in fn.args.args) | set(
            n.id for n in ast.walk(fn) if isinstance(n, ast.Name) and isinstance(n.ctx, ast.Store))

    def run(self):
        self.fn.body = self.block(self.fn.body)
        return self.fn

    def block(self, stmts):
        out = []
        for s in stmts:
            if isinstance(s, (ast.If, ast.While, ast.For)):
                s.body = self.block(s.body)
                s.orelse = self.block(s.orelse)
                out.append(s)
                continue
            out.extend(self.stmt(s, 0))
        return out

    def stmt(self, s, depth):
        if depth > 8:
            return [s]
        if isinstance(s, ast.Expr) and isinstance(s.value, ast.Yield):
            holder = s.value
        elif isinstance(s, (ast.Assign, ast.Return, ast.Expr)):
            holder = s
        else:
            return [s]
        if holder.value is None:
            return [s]
        top = holder.value
        order = []
        eval_order(top, order)
        for i, e in enumerate(order):
            if isinstance(e, ast.Call) and isinstance(e.func, ast.Name) and e.func.id in self.callees \
                    and e.func.id not in self.locals and not (e is top and isinstance(s, ast.Assign)):
                funcs = [x.func for x in order if isinstance(x, ast.Call)]
                before = [x for x in order[:i] if not any(x is f for f in funcs)]
                if not all(pure_leaf(x) for x in before):
                    return [s]
                self.k += 1
                tmp = '_t%d' % self.k
                self.locals.add(tmp)

                class T(ast.NodeTransformer):
                    def visit_Call(self, n):
                        if n is e:
                            return ast.Name(id=tmp, ctx=ast.Load())
                        return self.generic_visit(n)
                holder.value = T().visit(top)
                pre = ast.Assign(targets=[ast.Name(id=tmp, ctx=ast.Store())], value=e)
                return self.stmt(pre, depth + 1) + self.stmt(s, depth + 1)
            if not pure_leaf(e) and not (isinstance(e, ast.Call) and e is top):
                return [s]
        return [s]


def prepared(fn, tree, bindings, exclude, fname, callees=()):
    """-> (normal form of fn (a copy), names of the helpers inlined into it):
    helper calls inlined, literal module constants inlined, no else after a
    branch that always leaves"""
    inl = ExprInliner(copy.deepcopy(fn), module_helpers(tree, bindings, set(exclude) | {fn.name}), fname)
    new = inl.run()
    consts = literal_consts(tree, bindings)
    local = set(x.arg for x in new.args.args) | set(
        n.id for n in ast.walk(new) if isinstance(n, ast.Name) and isinstance(n.ctx, ast.Store))

    class T(ast.NodeTransformer):
        def visit_Name(self, n):
            if isinstance(n.ctx, ast.Load) and n.id in consts and n.id not in local and n.id not in exclude:
                return copy.deepcopy(consts[n.id])
            return n
    new.body = [T().visit(st) for st in new.body]
    new.body = strip_doc(new.body)
    new.body = flatten_else(new.body)
    if callees:
        new = CallHoister(new, set(callees)).run()
    return ast.fix_missing_locations(new), inl.used


# --------------------------------------------------------------------- driver

def the_def(tree, name, fname):
    fns = [s for s in tree.body if isinstance(s, ast.FunctionDef) and s.name == name]
    need(len(fns) == 1, '%s: %s is not defined exactly once' % (fname, name))
    return fns[0]


def check_to_buffer_decorator(fn, fname):
    need(len(fn.decorator_list) == 1, '%s: decorators of %s changed' % (fname, fn.name))
    d = fn.decorator_list[0]
    need(isinstance(d, ast.Call) and is_name(d.func, 'to_buffer') and not d.args and not d.keywords,
         '%s: %s is not decorated with @to_buffer()' % (fname, fn.name))


def uses_of(tree, ident):
    """{owner: [ctx, ...]} for every occurrence of the name `ident`"""
    owners = {}
    for st in tree.body:
        for n in ast.walk(st):
            if isinstance(n, ast.Name) and n.id == ident:
                owners.setdefault(st.name if isinstance(st, (ast.FunctionDef, ast.ClassDef)) else '<module>',
                                  []).append(type(n.ctx).__name__)
    return owners


def generate():
    trees = {f: parse_file(f) for f in ('category.py', 'tokens.py', 'tex.py', '__init__.py',
                                        'utils.py', 'data.py', 'reader.py')}
    check_pins(trees)
    exports = {'TexSoup.data': public_names(trees['data.py'], 'data.py'),
               'TexSoup.utils': public_names(trees['utils.py'], 'utils.py')}

    # ---- utils.py / data.py: the classes and the decorator are what they are
    ub = module_bindings(trees['utils.py'], 'utils.py', STAR_ANY)
    for nm, how in (('to_buffer', 'def'), ('Token', 'class'), ('Buffer', 'class'), ('CC', 'assign'),
                    ('TC', 'assign')):
        only_binding(ub, nm, how, 'utils.py')
    only_binding(ub, 'functools', 'import', 'utils.py')
    db = module_bindings(trees['data.py'], 'data.py', exports)
    for nm in ('TexEnv', 'TexExpr', 'TexNode'):
        only_binding(db, nm, 'class', 'data.py')
    need('TexEnv' in exports['TexSoup.data'] and 'TexNode' in exports['TexSoup.data'],
         'data.py: TexEnv/TexNode not exported')
    for nm in ('TexArgs', 'TexCmd'):
        only_binding(db, nm, 'class', 'data.py')
    need(final_binding(db, 'CharToLineOffset') == 'from TexSoup.utils import CharToLineOffset',
         'data.py: CharToLineOffset binding changed')
    for nm in ('list', 'isinstance', 'super'):
        need(final_binding(db, nm) is None, 'data.py: builtin %s is rebound' % nm)

    # ---- reader.py: read_tex(buf, skip_envs=(), tolerance=0), body translated by gen_reader.py
    rb = module_bindings(trees['reader.py'], 'reader.py', exports)
    only_binding(rb, 'read_tex', 'def', 'reader.py')
    read_tex = the_def(trees['reader.py'], 'read_tex', 'reader.py')
    need(not read_tex.decorator_list, 'reader.py: read_tex is decorated')
    rt_sig = Sig(read_tex, 'read_tex')
    need(rt_sig.names == ['buf', 'skip_envs', 'tolerance']
         and rt_sig.defaults == [None, ('GEmptyTuple', 'VTuple []'), ('GInt 0', 'VInt 0')],
         'reader.py: signature of read_tex changed')

    # ---- tokens.py
    tk = trees['tokens.py']
    tb = module_bindings(tk, 'tokens.py', exports)
    only_binding(tb, 'to_buffer', 'from TexSoup.utils import to_buffer', 'tokens.py')
    only_binding(tb, 'TC', 'from TexSoup.utils import TC', 'tokens.py')
    only_binding(tb, 'tokenizers', 'assign', 'tokens.py')
    only_binding(tb, 'next_token', 'def', 'tokens.py')
    only_binding(tb, 'tokenize', 'def', 'tokens.py')
    asg = [st for st in tk.body if isinstance(st, ast.Assign) and any(is_name(t, 'tokenizers') for t in st.targets)]
    need(len(asg) == 1 and len(asg[0].targets) == 1 and isinstance(asg[0].value, ast.List)
         and asg[0].value.elts == [], 'tokens.py: `tokenizers = []` changed')
    need(uses_of(tk, 'tokenizers') == {'<module>': ['Store'], 'token': ['Load'], 'next_token': ['Load']},
         'tokens.py: `tokenizers` is used in unexpected places: %s' % sorted(uses_of(tk, 'tokenizers').items()))
    need(set(uses_of(tk, 'next_token')) <= {'tokenize'}, 'tokens.py: next_token is used outside tokenize')
    tk_names = set(n for n, _ in tb)
    tk_known = set(BUILTINS) | {'next_token', 'tokenize', 'token', 'tokenizers', 'TC', 'CC', 'Token'}
    next_token, _ = prepared(the_def(tk, 'next_token', 'tokens.py'), tk, tb, tk_known, 'tokens.py')
    tokenize, _ = prepared(the_def(tk, 'tokenize', 'tokens.py'), tk, tb, tk_known, 'tokens.py')
    need(not next_token.decorator_list, 'tokens.py: next_token is decorated')
    check_to_buffer_decorator(tokenize, 'tokens.py')
    nt_sig, tz_sig = Sig(next_token, 'next_token'), Sig(tokenize, 'tokenize')
    need(len(tz_sig.names) == 1, 'tokens.py: parameters of tokenize changed')
    tok_sigs = {'next_token': ('F_next_token', nt_sig, True)}
    f_next = Fun(next_token, 'tokens.py', True, False, tok_sigs, tk_names, {'tokenizers', 'TC'})
    need(f_next.nparams == 1 and len(f_next.defaults) == 1, 'tokens.py: parameters of next_token changed')
    f_tokz = Fun(tokenize, 'tokens.py', True, False, tok_sigs, tk_names, {'next_token', 'TC'})

    # ---- category.py
    cg = trees['category.py']
    cb = module_bindings(cg, 'category.py', exports)
    for nm in ('CC', 'Token', 'to_buffer'):
        only_binding(cb, nm, 'from TexSoup.utils import %s' % nm, 'category.py')
    only_binding(cb, 'CATEGORY_CODES', 'assign', 'category.py')
    only_binding(cb, 'categorize', 'def', 'category.py')
    categorize0 = the_def(cg, 'categorize', 'category.py')
    categorize, cat_helpers = prepared(categorize0, cg, cb, set(BUILTINS) | {'CATEGORY_CODES', 'CC', 'Token'}, 'category.py')
    cc_uses = uses_of(cg, 'CATEGORY_CODES')
    need(cc_uses.pop('<module>', None) == ['Store'] and set(cc_uses) <= {'categorize'} | cat_helpers
         and all(set(v) == {'Load'} for v in cc_uses.values()),
         'category.py: CATEGORY_CODES is used in unexpected places')
    casg = [st for st in cg.body if isinstance(st, ast.Assign) and any(is_name(t, 'CATEGORY_CODES') for t in st.targets)]
    need(len(casg) == 1 and len(casg[0].targets) == 1 and isinstance(casg[0].value, ast.Dict),
         'category.py: CATEGORY_CODES is not one dict literal')      # its content: gen_tables.py
    check_to_buffer_decorator(categorize, 'category.py')
    need(len(Sig(categorize, 'categorize').names) == 1, 'category.py: parameters of categorize changed')
    cg_names = set(n for n, _ in cb)
    f_cat = Fun(categorize, 'category.py', False, True, {}, cg_names, {'CC', 'Token', 'CATEGORY_CODES'})

    # ---- tex.py
    tx = trees['tex.py']
    xb = module_bindings(tx, 'tex.py', exports)
    for nm, how in (('read_tex', 'from TexSoup.reader import read_tex'),
                    ('tokenize', 'from TexSoup.tokens import tokenize'),
                    ('categorize', 'from TexSoup.category import categorize'),
                    ('itertools', 'import'), ('TexEnv', 'star TexSoup.data'), ('read', 'def')):
        need(final_binding(xb, nm) == how, 'tex.py: %s is bound by %s' % (nm, final_binding(xb, nm)))
    need([h for n, h in xb if n == 'read'] == ['def'], 'tex.py: read bound more than once')
    tx_names = set(n for n, _ in xb)
    read, _ = prepared(the_def(tx, 'read', 'tex.py'), tx, xb,
                       set(BUILTINS) | {'read', 'categorize', 'tokenize', 'read_tex', 'TexEnv', 'itertools'}, 'tex.py',
                       callees=('categorize', 'tokenize', 'read_tex'))
    need(not read.decorator_list, 'tex.py: read is decorated')
    tex_sigs = {'categorize': ('F_categorize', Sig(categorize, 'categorize'), False),
                'tokenize': ('F_tokenize', tz_sig, True),
                'read_tex': ('F_read_tex', rt_sig, False)}
    f_read = Fun(read, 'tex.py', False, False, tex_sigs, tx_names,
                 {'categorize', 'tokenize', 'read_tex', 'TexEnv', 'itertools'})

    # ---- __init__.py
    it = trees['__init__.py']
    ib = module_bindings(it, '__init__.py', exports)
    for nm, how in (('read', 'from TexSoup.tex import read'), ('TexNode', 'from TexSoup.data import TexNode'),
                    ('TexSoup', 'def')):
        only_binding(ib, nm, how, '__init__.py')
    soup, _ = prepared(the_def(it, 'TexSoup', '__init__.py'), it, ib,
                       set(BUILTINS) | {'TexSoup', 'read', 'TexNode'}, '__init__.py', callees=('read',))
    need(not soup.decorator_list, '__init__.py: TexSoup is decorated')
    it_names = set(n for n, _ in ib)
    f_soup = Fun(soup, '__init__.py', False, False, {'read': ('F_read', Sig(read, 'read'), False)},
                 it_names, {'read', 'TexNode'})

    funs = [('next_token', 'tokens.py', f_next), ('tokenize', 'tokens.py', f_tokz),
            ('categorize', 'category.py', f_cat), ('read', 'tex.py', f_read),
            ('TexSoup', '__init__.py', f_soup)]
    out = []
    w = out.append
    w('(* GENERATED by harness/gen_glue.py from TexSoup/category.py, tokens.py, tex.py,')
    w('   __init__.py -- do not edit.  One term of GlueDSL.fundef per function,')
    w('   constructor by constructor from the Python abstract syntax; see GlueDSL.v')
    w('   for the meaning.  Locals are numbered: parameters first (the buffer')
    w('   parameter of next_token / tokenize is not a local), then in order of first')
    w('   binding. *)')
    w('From Coq Require Import List NArith ZArith.')
    w('From TexModel Require Import Base Tables Chars Tokenizer Tree Reader GlueDSL.')
    w('From TexModel Require TokDSL TokGen ReadDSL ReadGen.')
    w('Import ListNotations.')
    w('')
    for name, fname, f in funs:
        prog = f.translate()
        w('(* %s: def %s *)' % (fname, name))
        w('Definition gen_%s_body : gblock :=' % name)
        lines = pp_block(prog, 2)
        lines[-1] += '.'
        out.extend(lines)
        w('')
        w('Definition gen_%s : fundef :=' % name)
        w('  mkfd %s %s %s %d [%s] %d gen_%s_body.'
          % ('true' if f.cursor else 'false', 'true' if f.conv_in else 'false',
             'true' if f.gen else 'false', f.nparams, '; '.join(d[1] for d in f.defaults),
             f.nlocals, name))
        w('')
    w('Definition gen_funs (f : fname) : option fundef :=')
    w('  match f with')
    for name, _, _ in funs:
        w('  | F_%s => Some gen_%s' % (name, name))
    w('  | F_read_tex => None')
    w('  end.')
    w('')
    w('(* the translated glue over the translated token rules and the translated reader *)')
    w('Definition gen_env : genv :=')
    w('  mkenv TokGen.gen_program TokGen.gen_rule_order ReadGen.gen_table gen_funs.')
    return '\n'.join(out) + '\n'


def main():
    outp = sys.argv[1]
    try:
        txt = generate()
    except TranslationError as e:
        sys.stderr.write('TRANSLATION-FAILED: %s\n' % e)
        return 2
    except Exception as e:   # noqa
        sys.stderr.write('TRANSLATION-FAILED: %s: %s\n' % (type(e).__name__, e))
        return 2
    old = None
    if os.path.exists(outp):
        with open(outp) as f:
            old = f.read()
    if old != txt:
        with open(outp, 'w') as f:
            f.write(txt)
        print('GlueGen.v rewritten')
    else:
        print('GlueGen.v unchanged')
    return 0


if __name__ == '__main__':
    sys.exit(main())
