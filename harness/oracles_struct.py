"""Direct oracles for the structured-input properties C09 C10 C11 C12 and
for C17 (input forms / isolation / hash seeds)."""
import re
import io
import itertools
import json
import os
import subprocess
import sys

import gen
import impl
import inputs
from common import Failure, Result, chunked, pmap, rng_for, NPROC, REPO, VERIF
from impl import D, Token
from oracles_parse import try_parse, nf_of_contents, nf_of

TexNode = D.TexNode

# contexts: (prefix, suffix, name)
CONTEXTS = [
    ('', '', 'top'),
    ('\\begin{a}', '\\end{a}', 'env'),
    ('\\w{', '}', 'brace-arg'),
    ('\\w[', ']', 'bracket-arg'),
    ('{', '}', 'group'),
    ('\\begin{itemize}\\item ', '\\end{itemize}', 'item'),
    ('$', '$', 'inline-math'),
    ('$$', '$$', 'display-math'),
    ('\\(', '\\)', 'paren-math'),
    ('\\[', '\\]', 'bracket-math'),
    ('\\begin{equation}', '\\end{equation}', 'math-env'),
]


def find_cmd(soup, name):
    r = soup.find(name)
    return r


def in_context(ctx, body):
    return ctx[0] + body + ctx[1]


# ------------------------------------------------------------------- C09

# CR is an end-of-line character like LF: one attaches, two (a blank line in a
# file with CR line ends) detach
ATTACH = ['', ' ', '  ', '\t', '\n', ' \n', '\n ', ' \t\n\t ', '\r', ' \r ']
DETACH = ['\n\n', ' \n \n ', '\r\r', '\r \r', ' \r\r', '\n\r', '.', ', ', '%c\n', '\\\\', '1', '~', '\x0b', '\x0c', '\xa0']
GROUP_BODIES = {
    'Bracket': ['o', '', 'a b', '{]}', '\\y{z}', '(', '{[}x', '{a} {b}', ' '],
    'Brace': ['r', '', 'a]b', 'a[b', '[', ']', '\\y[z]', '{n}', '$m$', '[x]', ')(', '] [', '{x} {y}', ' ',
              'a {b} [c] d'],
}


def _c09_chunk(cases):
    r = Result('oracle-C09')
    for src, name, groups, k_attached, ctxname in cases:
        # groups: [(kind, body, sep)], the first k_attached must be arguments
        r.saw(src)
        r.count('ctx:' + ctxname)
        r.count('attached:%d/%d' % (k_attached, len(groups)))
        soup, err = try_parse(src)
        if soup is None:
            r.fail(Failure('C09', 'parse-fails', src, err, 'parse succeeds',
                           opts={'context': ctxname}))
            continue
        node = soup.find(name)
        if node is None:
            r.fail(Failure('C09', 'command-not-found', src, None, name))
            continue
        got = [(impl.GROUP_KIND.get(type(a).__name__, '?'),
                ''.join(str(c) for c in a._contents)) for a in node.expr.args]
        want = [(k, b) for k, b, _ in groups[:k_attached]]
        if got != want:
            r.fail(Failure('C09', 'arguments', src, got, want,
                           opts={'context': ctxname, 'command': name}))
            continue
        # the documented accessor of a group's contents says the same
        strs = [str(a.string) for a in node.expr.args]
        if strs != [b for _, b in want]:
            r.fail(Failure('C09', 'arguments', src, strs, [b for _, b in want],
                           opts={'context': ctxname, 'command': name, 'via': '.string'}))
            continue
        # what follows the command in the output is the rest of the input
        rest = ''.join(sep + ('{%s}' if k == 'Brace' else '[%s]') % b
                       for k, b, sep in groups[k_attached:])
        out = str(soup)
        head = '\\' + name + ''.join(('{%s}' if k == 'Brace' else '[%s]') % b for k, b in want)
        if head + rest not in out:
            r.fail(Failure('C09', 'following-text', src, out, head + rest,
                           opts={'context': ctxname}))
    return r


def c09_cases(tier):
    rng = rng_for('C09', 'cases')
    names = ['x', 'foo*', 'emph', 'it', 'em', 't', 'i', 'e', 'en', 'b']
    # names just outside the fixed-signature table: starred and near-miss
    # variants of its keys (read from the library at run time)
    try:
        from TexSoup.reader import SIGNATURES
        for k in sorted(SIGNATURES):
            names += [k + '*', k + 's', k.capitalize() if k.capitalize() != k else k + 'x', 'x' + k]
    except Exception:      # noqa
        names += ['section*', 'label*', 'textbfs', 'xin']
    cases = []
    maxb, maxr = (2, 3) if tier == 'quick' else (3, 4)
    shapes = [(nb, nr) for nb in range(maxb + 1) for nr in range(maxr + 1)]
    per_shape = 40 if tier == 'quick' else 400
    for nb, nr in shapes:
        n = nb + nr
        combos = []
        for _ in range(per_shape):
            seps, det_at = [], None
            for i in range(n):
                if det_at is None and rng.random() < 0.25:
                    seps.append(rng.choice(DETACH))
                    det_at = i
                else:
                    seps.append(rng.choice(ATTACH))
            combos.append((seps, det_at))
        # plus: exactly one detaching separator at every position, every attaching layout
        for i in range(n):
            for d in DETACH:
                combos.append(([''] * i + [d] + [''] * (n - i - 1), i))
        for a in ATTACH:
            combos.append(([a] * n, None))
        for seps, det_at in combos:
            name = rng.choice(names)
            ctx = rng.choice(CONTEXTS)
            groups = []
            for i in range(n):
                kind = 'Bracket' if i < nb else 'Brace'
                body = rng.choice(GROUP_BODIES[kind])
                if ctx[2] == 'bracket-arg':
                    body = body.replace(']', ')').replace('[', '(') if kind == 'Brace' and False else body
                groups.append((kind, body, seps[i]))
            k_att = n if det_at is None else det_at
            # the run is brackets THEN braces: once a brace group has been
            # read, a bracket group that follows after blanks is not part of it
            # (it stays in the surrounding text and needs no partner)
            if k_att == n and nr >= 1 and ctx[2] != 'bracket-arg' and rng.random() < 0.5:
                groups.append(('Bracket', rng.choice(['b', '0,1)', 'a b']),
                               rng.choice([a for a in ATTACH if a])))
            body = '\\' + name + ''.join(s + ('{%s}' if k == 'Brace' else '[%s]') % b
                                         for k, b, s in groups)
            # after a detaching separator, following bracket groups are free
            # text: inside a bracket argument their `]` would close it
            if ctx[2] == 'bracket-arg' and k_att < n and any(k == 'Bracket' for k, _, _ in groups[k_att:]):
                continue
            if ctx[2] == 'bracket-arg' and any(']' in b and k == 'Bracket' for k, b, _ in groups):
                continue
            tail = rng.choice(['', '. tail', ' tail', '\n\ntail'])
            if n == 0 and tail[:1].isalpha():
                tail = ' ' + tail
            if k_att == len(groups) and tail.lstrip(' \t').startswith(('{', '[')):
                tail = '.' + tail
            if 'math' in ctx[2] and any('$' in b for _, b, _ in groups):
                continue
            if 'math' in ctx[2] and ctx[2] != 'math-env' and False:
                continue
            src = in_context(ctx, 'pre ' + body + tail)
            if ctx[2] in ('inline-math', 'display-math') and '$' in body:
                continue
            cases.append((src, name, groups, k_att, ctx[2]))
    # free brackets that do not follow a command need no partner
    for ctx in CONTEXTS:
        if ctx[2] == 'bracket-arg':
            continue
        for t in ['a [b', 'a ]b', 'a [b] c [', ') (', 'f(x] [0,1)', '\\x a [b', '\\alpha $[0,1)$'
                  if 'math' not in ctx[2] else 'u [v']:
            cases.append((in_context(ctx, t + ' \\z{q}'), 'z', [('Brace', 'q', '')], 1, ctx[2]))
    return cases


def oracle_C09(tier):
    cases = c09_cases(tier)
    res = Result('oracle-C09')
    for r in pmap(_c09_chunk, chunked(cases, NPROC * 2)):
        res.merge(r)
    return res


# ------------------------------------------------------------------- C10

def shape_of(nf):
    """normal form with comment payloads blanked"""
    out = []
    for it in nf:
        if it[0] == 'c':
            out.append(('c',))
        elif it[0] == 't':
            out.append(it)
        elif it[0] in ('cmd', 'env'):
            out.append((it[0], it[1], [(k, shape_of(b)) for k, b in it[2]], shape_of(it[3])))
        else:
            out.append((it[0], it[1], shape_of(it[2])))
    return out


def _c10_chunk(cases):
    r = Result('oracle-C10')
    for tmpl, payload, ctxname, eol in cases:
        src = tmpl.replace('@@', payload)
        ref = tmpl.replace('@@', 'plain')
        r.saw(src)
        r.count('ctx:' + ctxname)
        soup, err = try_parse(src)
        rsoup, rerr = try_parse(ref)
        if rsoup is None:
            r.count('skipped:reference-does-not-parse')
            continue
        if soup is None:
            r.fail(Failure('C10', 'payload-breaks-parse', src, err, 'parses like ' + repr(ref),
                           opts={'payload': payload, 'context': ctxname}))
            continue
        a = shape_of(nf_of_contents(soup.expr._contents))
        b = shape_of(nf_of_contents(rsoup.expr._contents))
        if a != b:
            r.fail(Failure('C10', 'tree-depends-on-payload', src, repr(a)[:400], repr(b)[:400],
                           opts={'payload': payload, 'context': ctxname}))
            continue
        if str(soup) != src:
            r.fail(Failure('C10', 'comment-not-preserved', src, str(soup), src))
        # the comment is one leaf holding exactly %payload
        leaves = [str(t) for t in soup.text]
        if '%' + payload not in leaves:
            r.fail(Failure('C10', 'comment-not-one-leaf', src, leaves, '%' + payload))
        for nm in ('hidden', 'begin', 'item', 'zq'):
            if '\\' + nm in payload and '\\' + nm not in tmpl:
                if soup.find_all(nm):
                    r.fail(Failure('C10', 'search-finds-comment-content', src,
                                   [str(x) for x in soup.find_all(nm)], [],
                                   opts={'name': nm}))
    return r


def _c10_parity_chunk(cases):
    r = Result('oracle-C10-parity')
    for src, k, ctxname in cases:
        r.saw(src)
        r.count('backslashes:%d' % k)
        try:
            toks = impl.tokens_of(src)
        except BaseException as e:  # noqa
            r.fail(Failure('C10', 'tokenize-raises', src, type(e).__name__, 'tokens'))
            continue
        comment = [t for t in toks if t[2] == 'Comment']
        want_comment = (k % 2 == 0)
        if bool(comment) != want_comment:
            r.fail(Failure('C10', 'escape-parity', src, [list(t) for t in toks],
                           'comment' if want_comment else 'escaped percent',
                           opts={'backslashes': k}))
    return r


def oracle_C10(tier):
    rng = rng_for('C10', 'cases')
    npay = 60 if tier == 'quick' else 600
    payloads = [''] + gen.HOSTILE_COMMENT + ['\\hidden{x}', '\\begin{zq}', '}}}', '{{{', ']]', '$$$',
                                              '\\end{a}\\end{itemize}', '\\item \\zq', '% %', '\\']
    for _ in range(npay):
        payloads.append(''.join(rng.choice(gen.HOSTILE_COMMENT) for _ in range(rng.randint(1, 5))))
    # a comment runs to the end of its LINE: characters that other notions of
    # line end / white space cover (form feed, vertical tab, NEL, U+2028, ...)
    # do not end it; CR does (it is an end-of-line character) and is left out
    for ch in gen.ODD_CHARS:
        if ch != '\r':
            payloads += ['x' + ch + '}', ch + '\\begin{zq}[', ch + '{']
    cases = []
    for ctx in CONTEXTS:
        for eol in ('\n', ''):
            if eol == '' and ctx[1] != '':
                continue   # comment ended by end of input only at the very end
            tmpl = in_context(ctx, 'pre \\k{v} %@@' + eol + ('post \\k{w}' if eol else ''))
            for p in payloads:
                cases.append((tmpl, p, ctx[2], eol))
            # what follows the line break must not matter either: a group, a
            # bracket, a closing brace, blanks (the places where a spacer token
            # would otherwise be read on)
            if eol:
                for before, after in (('pre \\k{v} ', '{w} post'), ('pre \\k ', '[o]{w} post'),
                                      ('pre {x ', '} post'), ('pre \\k{v}\t', ' {w} post'),
                                      ('pre \\k{v}', '\n{w} post')):
                    tmpl3 = in_context(ctx, before + '%@@' + eol + after)
                    for p in payloads[:12] + payloads[-6:]:
                        cases.append((tmpl3, p, ctx[2], eol))
            # the comment directly after every kind of preceding token
            for before in ('pre \\%', 'pre \\&', 'pre \\k', 'pre \\k{v}', 'pre x', 'pre \\\\',
                           'pre \\k[o]', 'pre %c\n'):
                if 'math' in ctx[2] and before.endswith('&'):
                    pass
                tmpl2 = in_context(ctx, before + '%@@' + eol + ('post \\k{w}' if eol else ''))
                for p in payloads[:12] + payloads[-6:]:
                    cases.append((tmpl2, p, ctx[2], eol))
    res = Result('oracle-C10')
    for r in pmap(_c10_chunk, chunked(cases, NPROC * 2)):
        res.merge(r)
    par = []
    for k in range(0, 5):
        for ctx in CONTEXTS:
            par.append((in_context(ctx, 'a' + '\\' * k + '%b}\n'), k, ctx[2]))
            par.append(('\\' * k + '%', k, 'bare'))
    for r in pmap(_c10_parity_chunk, chunked(par, 4)):
        res.merge(r)
    return res


# ------------------------------------------------------------------- C11

USER_NAMES = ['myverb', 'code', 'Raw', 'minted*', 'zz']
# user-chosen names that collide with names the library treats specially (math
# environments, list environments, the root's name): they must behave exactly
# like any other user-supplied name
USER_NAMES += ['equation', 'align*', 'math', 'itemize', 'document', 'split']
ENCLOSING = [('', ''), ('\\begin{a}', '\\end{a}'),
             ('\\begin{a}\\begin{b} t ', ' u \\end{b}\\end{a}'),
             ('pre \\k{v} ', ' post'), ('\\begin{center}\n', '\n\\end{center} $m$')]


def verb_bodies(rng, n, name):
    out = ['x', '\nline\n', 'a{b', 'a}b', '$', 'x\\begin{%s}y' % name, '\\end{other}', 'x[', 'x]',
           'a % c\nb', '\\item', '$$ \\[', '\\end', '\\end{', 'x\\end {%s}' % name, '&#^_~',
           '.{x}', '.[x]', 'x\\\\ y', '\\begin{a}', 'a\\end{a}b', '\\x{', '\\hidden{q}', ' x', '\nx',
           # the end marker is `\end{name}` exactly: an \end of an environment
           # whose name merely starts with this one does not close it
           'x \\end{%s*} y' % name, 'x\\begin{%sx}z\\end{%sx}' % (name, name), '\\end{%s ' % name,
           'x\\end{%s' % name + 'tab} y',
           # other line-end conventions: a comment on an EARLIER line (ended by
           # CR or CR LF) does not reach the closing \\end
           'x = 1 % set x {\ry = 2\r', 'a % c\r\nb\r\n', '\rx\r']
    for _ in range(n):
        b = rng.choice(['x', '.', '\nx', 'x ']) + ''.join(
            rng.choice(gen.HOSTILE_VERB + ['\\hidden{q}']) for _ in range(rng.randint(1, 7)))
        out.append(b)
    res = []
    for b in out:
        b = b.replace('\\end{%s}' % name, '\\end{other}')
        if b.endswith('\\'):
            b += ' '
        if '%' in re.split('[\n\r]', b)[-1]:      # CR ends a line (and a comment) too
            b += '\n'
        if b[:1] in '{[':
            b = '.' + b
        res.append(b)
    return res


def _rename_nf(nf, old, new):
    """rename environment `old` to `new` in a normal form (and the name where
    it occurs inside text leaves), leaving kind tags alone"""
    out = []
    for it in nf:
        tag = it[0]
        if tag in ('t', 'c'):
            out.append((tag, it[1].replace(old, new)))
        elif tag in ('env', 'cmd'):
            nm = new if (tag == 'env' and it[1] == old) else it[1]
            out.append((tag, nm, [(k, _rename_nf(b, old, new)) for k, b in it[2]],
                        _rename_nf(it[3], old, new)))
        elif tag in ('math', 'group'):
            out.append((tag, it[1], _rename_nf(it[2], old, new)))
        else:
            out.append(it)
    return out


def _c11_chunk(cases):
    r = Result('oracle-C11')
    for name, body, enc, user in cases:
        src = enc[0] + '\\begin{%s}' % name + body + '\\end{%s}' % name + enc[1]
        skip = (name,) if user else ()
        r.saw((src, user))
        r.count('name:' + ('user' if user else 'builtin'))
        soup, err = try_parse(src, skip=skip)
        if soup is None:
            r.fail(Failure('C11', 'body-causes-parse-error', src, err, 'parses',
                           opts={'skip_envs': list(skip)}))
            continue
        env = soup.find(name)
        if env is None:
            r.fail(Failure('C11', 'environment-not-found', src, None, name))
            continue
        cont = env.expr._contents
        if len(cont) != 1 or str(cont[0]) != body or isinstance(cont[0], D.TexExpr) and not isinstance(cont[0], D.TexText):
            r.fail(Failure('C11', 'body-not-single-raw-text', src,
                           [str(c) for c in cont], [body], opts={'skip_envs': list(skip)}))
            continue
        if env.expr.args:
            r.fail(Failure('C11', 'body-read-as-arguments', src, str(env.expr.args), ''))
        if list(env.children) or [d for d in env.descendants if isinstance(d, TexNode)]:
            r.fail(Failure('C11', 'body-parsed', src, [str(c) for c in env.children], []))
        if 'hidden' in body and soup.find_all('hidden'):
            r.fail(Failure('C11', 'body-searchable', src, len(soup.find_all('hidden')), 0))
        if str(soup) != src:
            r.fail(Failure('C11', 'not-preserved', src, str(soup), src))
        if user:
            # same shape as a built-in name with the same body
            b2 = 'verbatim'
            src2 = enc[0] + '\\begin{%s}' % b2 + body.replace(name, b2) + \
                '\\end{%s}' % b2 + enc[1]
            s2, e2 = try_parse(src2)
            if 'verbatim' not in body:
                n1 = nf_of_contents(soup.expr._contents)
                n2 = nf_of_contents(s2.expr._contents) if s2 is not None else e2
                if s2 is None or json.dumps(_rename_nf(n1, name, b2)) != json.dumps(n2):
                    r.fail(Failure('C11', 'user-name-differs-from-builtin', src,
                                   repr(n1)[:300], repr(n2)[:300]))
            # without the option the body is parsed normally
            s3, e3 = try_parse(src)
            if 'hidden{q}' in body and s3 is not None and not s3.find_all('hidden'):
                r.fail(Failure('C11', 'without-option-still-opaque', src, 0, 'hidden is found'))
    return r


def oracle_C11(tier):
    rng = rng_for('C11', 'cases')
    nb = 25 if tier == 'quick' else 400
    cases = []
    for name in gen.VERB_ENV_NAMES:
        for body in verb_bodies(rng, nb, name):
            cases.append((name, body, rng.choice(ENCLOSING), False))
    for name in USER_NAMES:
        for body in verb_bodies(rng, nb, name):
            cases.append((name, body, rng.choice(ENCLOSING), True))
    res = Result('oracle-C11')
    for r in pmap(_c11_chunk, chunked(cases, NPROC * 2)):
        res.merge(r)
    # probe the documented exclusions so that a finding there is reported by
    # classifier, not silently skipped
    probes = [('verbatim', '\n{x}\n', ENCLOSING[0], False), ('verbatim', ' { ', ENCLOSING[0], False),
              ('verbatim', ' [x]', ENCLOSING[1], False)]
    for r in pmap(_c11_chunk, [probes]):
        res.merge(r)
    return res


# ------------------------------------------------------------------- C12

MATH_FORMS = [('$', '$', 'TexMathModeEnv'), ('$$', '$$', 'TexDisplayMathModeEnv'),
              ('\\(', '\\)', 'TexMathEnv'), ('\\[', '\\]', 'TexDisplayMathEnv')]
SIZERS = ['left', 'right', 'big', 'Big', 'bigg', 'Bigg']
DELIMS = ['(', ')', '[', ']', '<', '>', '|', '.', '\\{', '\\}', '\\langle', '\\rangle',
          '\\lfloor', '\\rceil', '\\lbrack', '\\urcorner']
ZERO_OPS = ['cup', 'cap', 'in', 'notin', 'infty']


def math_bodies(rng, n):
    out = ['x', 'a+b', '\\alpha', '\\frac{1}{2}', '{x}', '\\$', 'a\\$b', '(', ')', '[', ']',
           '[0,1)', '(0,1]', 'f(x', 'x]', '] [', '\\frac{a}{b} + [c', 'x \\in [0,1)',
           'A \\cup [0,1)', 'A\\cap(B', 'x \\notin ]a,b[', '\\infty)', '\\infty]',
           'a & b \\\\ c', 'x_i^2', '\\hidden{q}', '% c\nx', '\\text{a $b$ c}', '\\mathbb{R}^n ',
           # zero-argument operators inside a bare brace group (scripts): the
           # group is read without the math mode, the operator must still not
           # take the bracket as an argument
           '\\bigcup_{t \\in [0,1)} A_t', 'y^{a \\cup[b} + 1', '{x \\in [0,1)}', '\\sum_{i \\notin ]a,b[} x_i',
           '{\\infty]}', 'z_{\\cap(}',
           # commands with three or more groups, some textually equal
           '\\genfrac{}{}{0pt}{}{n}{k}', '\\foo{a}{a}{b}', '\\mathchoice{\\alpha}{\\alpha}{b}{c}', '\\sideset{}{}{\\sum}']
    for s in SIZERS:
        for d in DELIMS:
            out.append('\\%s%s x' % (s, d))
            out.append('a \\%s%s' % (s, d))
    out.append('\\left( x \\right]')
    out.append('\\left[ \\frac{1}{2} \\right)')
    out.append('\\Big| x \\Big|] [')
    atoms = ['x', 'a+b ', '\\alpha ', '\\frac{1}{2}', '{x}', '\\$', '(', ')', '[', ']',
             '\\cup[', '\\in(', '\\left[', '\\right)', '\\big(', ' ', '\\beta{y}', '\\infty]', '^2', '_i',
             '\\left.', '\\right|', '\\,']
    for _ in range(n):
        b = ''
        prev_cmd = False
        for _ in range(rng.randint(1, 6)):
            a = rng.choice(atoms)
            # brackets directly after an ordinary command are its arguments
            if prev_cmd and a[:1] in '[{(' and a[:1] in '[{':
                a = ' x' + a if False else 'x' + a
            if prev_cmd and (a[:1].isalpha() or a[:1] == '*'):
                a = ' ' + a
            b += a
            prev_cmd = a.rstrip() in ('\\alpha', '\\,') or a in ('\\alpha ',)
            if a == '\\alpha ':
                prev_cmd = True
        out.append(b)
    return out


def math_body_ok(body):
    """side conditions of C12: no bracket directly after an ordinary or
    sizing command (it would be an argument)"""
    import re
    # ordinary command followed (after blanks) by [ or {: argument - allowed
    # for braces (they are arguments by intent) but not for brackets
    for m in re.finditer(r'\\([A-Za-z]+\*?)([ \t]*\n?[ \t]*)(\[)', body):
        if m.group(1) not in ZERO_OPS and not any(m.group(1).startswith(s) and False for s in SIZERS):
            return False
    # a bracket directly after the closing brace/bracket of a command's
    # argument is still "directly after a command": the second argument pass
    # of read_args attaches it (\beta{y}[x ...)
    if re.search(r'\\[A-Za-z]+\*?[ \t]*\n?[ \t]*(\{[^{}]*\}|\[[^\[\]]*\])+\[', body):
        return False
    # blanks between a command (or one of its argument groups) and a following
    # group are dropped on output (the group is an argument; C01/C08 allow
    # exactly that): the body is then not reproduced character for character
    for m in re.finditer(r'\\([A-Za-z]+\*?)((?:\{[^{}]*\}|\[[^\[\]]*\])*)([ \t]*\n?[ \t]*)[\[{]', body):
        if m.group(3) and not (m.group(1) in ZERO_OPS and not m.group(2)):
            return False
    # sizing command + delimiter followed by [ or {
    for m in re.finditer(r'\\(left|right|big|Big|bigg|Bigg)(\\[A-Za-z]+|\\[{}]|[()<>\[\]|.])([ \t]*\n?[ \t]*)[\[{]', body):
        return False
    # a command directly followed (after blanks) by { is taking an argument:
    # fine.  A sizing prefix without delimiter is outside the property.
    if re.search(r'\\(left|right|big|Big|bigg|Bigg)(?![(<>\[\]{}.|)\\])', body):
        return False
    if re.search(r'\\(left|right|big|Big|bigg|Bigg)\\(?!langle|rangle|lfloor|rfloor|lceil|rceil|ulcorner|urcorner|lbrack|rbrack|\{|\})', body):
        return False
    return True


def _c12_chunk(cases):
    r = Result('oracle-C12')
    for form, body, ctx in cases:
        b, e, cls = form
        src = in_context(ctx, 'pre ' + b + body + e + ' post')
        r.saw(src)
        r.count('form:' + (cls or b))
        soup, err = try_parse(src)
        if soup is None:
            r.fail(Failure('C12', 'parse-fails', src, err, 'parses',
                           opts={'body': body, 'context': ctx[2]}))
            continue
        if cls is not None:
            nodes = [x for x in [soup] + [d for d in soup.descendants if isinstance(d, TexNode)]
                     if type(x.expr).__name__ == cls]
        else:
            nm = b[len('\\begin{'):-1]
            nodes = [x for x in soup.find_all(nm) if isinstance(x.expr, D.TexNamedEnv)]
        if ctx[2] in ('inline-math', 'display-math', 'paren-math', 'bracket-math', 'math-env'):
            r.count('skipped:math-in-math')
            continue
        if len(nodes) != 1:
            r.fail(Failure('C12', 'not-one-math-node', src, [str(n) for n in nodes], b + body + e,
                           opts={'context': ctx[2]}))
            continue
        node = nodes[0]
        got_body = ''.join(str(c) for c in node.expr._contents)
        if got_body != body or node.expr.begin != b or node.expr.end != e or str(node) != b + body + e:
            r.fail(Failure('C12', 'math-body', src, {'body': got_body, 'begin': node.expr.begin,
                                                     'end': node.expr.end}, body,
                           opts={'context': ctx[2]}))
            continue
        if str(soup) != src:
            r.fail(Failure('C12', 'not-preserved', src, str(soup), src))
        if '\\hidden{q}' in body and len(node.find_all('hidden')) != body.count('\\hidden{q}'):
            r.fail(Failure('C12', 'command-in-math-not-searchable', src,
                           len(node.find_all('hidden')), body.count('\\hidden{q}')))
        for op in ZERO_OPS:
            if '\\' + op in body:
                for x in node.find_all(op):
                    if x.expr.args:
                        r.fail(Failure('C12', 'zero-argument-operator-took-argument', src,
                                       str(x), '\\' + op))
    return r


def _c12_adj_chunk(cases):
    r = Result('oracle-C12-adjacent')
    for f1, b1, f2, b2, sep in cases:
        src = f1[0] + b1 + f1[1] + sep + f2[0] + b2 + f2[1]
        r.saw(src)
        soup, err = try_parse(src)
        if soup is None:
            r.fail(Failure('C12', 'adjacent-regions-parse-fails', src, err, 'two math nodes'))
            continue
        kinds = [type(c).__name__ for c in soup.expr._contents if isinstance(c, D.TexEnv)]
        if kinds != [f1[2], f2[2]]:
            r.fail(Failure('C12', 'adjacent-regions', src, kinds, [f1[2], f2[2]]))
            continue
        bodies = [''.join(str(c) for c in x._contents) for x in soup.expr._contents
                  if isinstance(x, D.TexEnv)]
        if bodies != [b1, b2]:
            r.fail(Failure('C12', 'adjacent-regions-bodies', src, bodies, [b1, b2]))
    return r


def oracle_C12(tier):
    rng = rng_for('C12', 'cases')
    nb = 60 if tier == 'quick' else 800
    bodies = [b for b in math_bodies(rng, nb) if math_body_ok(b)]
    forms = list(MATH_FORMS) + [('\\begin{%s}' % n, '\\end{%s}' % n, None)
                                for n in gen.MATH_ENV_NAMES + ['eqnarray', 'equation*', 'flalign',
                                                               'flalign*', 'gather*', 'multline*',
                                                               'alignat', 'array']]
    ctxs = [c for c in CONTEXTS if 'math' not in c[2]]
    cases = []
    for form in forms:
        for body in bodies:
            if form[0] in ('$', '$$') and ('$' in body.replace('\\$', '') or body.endswith('\\')):
                continue
            if form[0] == '$' and body == '':
                continue
            ctx = rng.choice(ctxs)
            if ctx[2] == 'bracket-arg' and (']' in body):
                continue
            if form[2] is None and body.lstrip(' \t\n')[:1] in ('[', '{'):
                continue        # read as arguments of \begin{name}
            if '\\text{a $b$ c}' in body and form[0] in ('$', '$$'):
                continue
            cases.append((form, body, ctx))
    res = Result('oracle-C12')
    for r in pmap(_c12_chunk, chunked(cases, NPROC * 2)):
        res.merge(r)
    adj = []
    for f1 in MATH_FORMS:
        for f2 in MATH_FORMS:
            for sep in ['', ' ', 'x']:
                adj.append((f1, 'a', f2, 'b', sep))
    for r in pmap(_c12_adj_chunk, chunked(adj, 4)):
        res.merge(r)
    return res


# ------------------------------------------------------------------- C17

def chunkings(s, rng, max_exhaustive=12, nrandom=20):
    n = len(s)
    out = []
    if n <= max_exhaustive:
        for mask in range(1 << max(0, n - 1)):
            cuts = [i + 1 for i in range(n - 1) if mask >> i & 1]
            out.append(cuts)
    else:
        for _ in range(nrandom):
            k = rng.randint(1, min(8, n - 1))
            out.append(sorted(rng.sample(range(1, n), k)))
        out.append(list(range(1, n)))      # char by char
    res = []
    for cuts in out:
        parts, last = [], 0
        for c in cuts:
            parts.append(s[last:c])
            last = c
        parts.append(s[last:])
        res.append(parts)
    return res


def _obs(soup):
    return (impl.canon_expr(soup.expr), str(soup))


def _c17_forms_chunk(arg):
    cases, salt = arg
    r = Result('oracle-C17-forms')
    rng = rng_for('C17', 'chunks' + salt)
    for src in cases:
        ref, err = try_parse(src)
        try:
            refobs = _obs(ref) if ref is not None else ('ERR', err)
        except BaseException as e:      # noqa  (e.g. a tree that contains itself)
            r.fail(Failure('C17', 'earlier-parse-or-edit-influences-parse', src,
                           'observing the parse result raised ' + type(e).__name__,
                           'a finite tree that depends on the source text only'))
            continue
        forms = []
        for parts in chunkings(src, rng, max_exhaustive=9):
            forms.append(('list', parts))
        parts = forms[-1][1] if forms else [src]
        forms.append(('tuple', tuple(parts)))
        forms.append(('generator', 'gen'))
        forms.append(('lines', src.splitlines(True)))
        forms.append(('file', 'file'))
        forms.append(('file-newline-kept', 'file'))
        for kind, val in forms:
            r.saw((src, kind, str(val)[:80]), nontrivial=len(src) > 1)
            r.count('form:' + kind)
            if kind == 'generator':
                val = (p for p in parts)
            elif kind == 'file':
                val = io.StringIO(src)
            elif kind == 'file-newline-kept':
                val = io.StringIO(src, newline='')
            try:
                s2 = impl.with_watchdog(5, impl.TexSoup, val)
                obs = _obs(s2)
            except BaseException as e:  # noqa
                obs = ('ERR', type(e).__name__)
            if obs != refobs:
                r.fail(Failure('C17', 'input-form-changes-result', src, str(obs)[:300],
                               str(refobs)[:300], opts={'form': kind,
                                                        'chunks': parts if kind != 'file' else None}))
                break
    return r


def _c17_isolation_chunk(arg):
    pairs, salt = arg
    r = Result('oracle-C17-isolation')
    rng = rng_for('C17', 'iso' + salt)
    for a, b in pairs:
        ra, _ = try_parse(a)
        rb, _ = try_parse(b)
        if ra is None or rb is None:
            continue
        try:
            refa, refb = _obs(ra), _obs(rb)
        except BaseException as e:      # noqa  (e.g. a tree that contains itself)
            r.fail(Failure('C17', 'earlier-parse-or-edit-influences-parse', {'first': a, 'second': b},
                           'observing the parse result raised ' + type(e).__name__,
                           'a finite tree that depends on the source text only'))
            continue
        r.saw((a, b))
        # interleave parses and edits
        sa = impl.parse(a)
        ops = []
        for _ in range(rng.randint(1, 5)):
            nodes = [d for d in sa.descendants if isinstance(d, TexNode)]
            op = rng.choice(['delete', 'rename', 'append', 'args', 'parse-b', 'parse-a', 'parse-skip',
                             'edit-arg', 'edit-text'])
            ops.append(op)
            try:
                if op == 'delete' and nodes:
                    rng.choice(nodes).delete()
                elif op == 'rename' and nodes:
                    n = rng.choice(nodes)
                    if isinstance(n.expr, (D.TexCmd, D.TexNamedEnv)):
                        n.name = 'leak'
                elif op == 'append':
                    sa.append('LEAK')
                elif op == 'args' and nodes:
                    n = rng.choice(nodes)
                    n.args.append('{leak}')
                elif op == 'parse-skip':
                    # a parse with options must not leave anything behind
                    for nm in ('foobar', 'zz', 'a'):
                        try:
                            impl.parse(rng.choice([a, b]), 0, (nm,))
                        except BaseException:  # noqa
                            pass
                elif op == 'edit-arg' and nodes:
                    n = rng.choice(nodes)
                    if len(n.args) >= 1:
                        try:
                            n.args[0].string = 'EDITED'
                        except BaseException:  # noqa
                            pass
                elif op == 'edit-text':
                    # assigning .text is the documented way to edit a text piece
                    for e in _all_objs(sa.expr):
                        t = e._text if isinstance(e, D.TexText) else e
                        if isinstance(t, Token) and rng.random() < 0.5:
                            t.text = 'EDITED-TEXT'
                elif op == 'parse-b':
                    if _obs(impl.parse(b)) != refb:
                        r.fail(Failure('C17', 'earlier-parse-or-edit-influences-parse',
                                       {'first': a, 'second': b}, str(_obs(impl.parse(b)))[:300],
                                       str(refb)[:300], opts={'ops': ops}))
                        break
                elif op == 'parse-a':
                    if _obs(impl.parse(a)) != refa:
                        r.fail(Failure('C17', 'edit-influences-reparse-of-same-source',
                                       {'first': a, 'second': a}, str(_obs(impl.parse(a)))[:300],
                                       str(refa)[:300], opts={'ops': ops}))
                        break
            except BaseException:  # noqa
                pass
        # parsing twice: equal trees, no shared mutable state
        x, y = impl.parse(a), impl.parse(a)
        if _obs(x) != _obs(y):
            r.fail(Failure('C17', 'two-parses-differ', a, str(_obs(y))[:300], str(_obs(x))[:300]))
        ids_x = {id(e) for e in _all_objs(x.expr)}
        shared = [e for e in _all_objs(y.expr) if id(e) in ids_x]
        if shared:
            r.fail(Failure('C17', 'two-parses-share-objects', a, len(shared), 0))
        x.append('MUT')
        for n in [d for d in x.descendants if isinstance(d, TexNode)][:3]:
            try:
                n.args.append('{mut}')
            except BaseException:  # noqa
                pass
        if _obs(y) != refa:
            r.fail(Failure('C17', 'edit-of-one-parse-visible-in-the-other', a,
                           str(_obs(y))[:300], str(refa)[:300]))
        if _obs(impl.parse(b)) != refb:
            r.fail(Failure('C17', 'edit-influences-later-parse', {'first': a, 'second': b},
                           str(_obs(impl.parse(b)))[:300], str(refb)[:300]))
    return r


def _all_objs(e):
    out = [e, e.args, e._contents]
    for a in e.args:
        out.extend(_all_objs(a))
    for c in e._contents:
        if isinstance(c, D.TexExpr) and not isinstance(c, D.TexText):
            out.extend(_all_objs(c))
        elif isinstance(c, D.TexText):
            out.append(c)
            if isinstance(c._text, Token):
                out.append(c._text)       # tokens carry assignable attributes
        elif isinstance(c, Token):
            out.append(c)
    return out


HASHSEED_SCRIPT = r'''
import sys, json
sys.path.insert(0, %(repo)r)
sys.path.insert(0, %(harness)r)
import impl
cases = json.load(open(%(cases)r))
out = []
for s in cases:
    out.append(impl.canon_parse(s, watchdog=5))
    out.append(impl.canon_tokens(s))
json.dump(out, sys.stdout)
'''


def hashseed_cases():
    cases = []
    for s in SIZERS:
        for d in DELIMS + ['{', '}', '.|', '|.', '..', '||']:
            cases.append('$\\%s%s x$' % (s, d))
            cases.append('\\%s%s' % (s, d))
            cases.append('a \\%s%s| b' % (s, d))
    cases += [s for s, _ in inputs.grammar_docs('C17', 40, 3, salt='hs')]
    cases += list(gen.strings_upto(gen.KIND_ALPHABET[:12], 2))
    return cases


def run_hashseeds(nseeds, res):
    import tempfile
    cases = hashseed_cases()
    tmpd = tempfile.mkdtemp(prefix='verif-c17-')
    try:
        cf = os.path.join(tmpd, 'cases.json')
        with open(cf, 'w') as f:
            json.dump(cases, f)
        script = HASHSEED_SCRIPT % {'repo': REPO, 'harness': os.path.join(VERIF, 'harness'),
                                    'cases': cf}
        procs = []
        for k in range(nseeds):
            env = dict(os.environ)
            env['PYTHONHASHSEED'] = str(k * 7919 + 1)
            procs.append((env['PYTHONHASHSEED'], subprocess.Popen(
                [sys.executable, '-c', script], env=env, stdout=subprocess.PIPE,
                stderr=subprocess.DEVNULL)))
        outs = []
        for hs, p in procs:
            o, _ = p.communicate()
            try:
                outs.append((hs, json.loads(o.decode())))
            except ValueError:
                res.fail(Failure('C17', 'hash-seed-run-crashed', None, hs, 'results'))
        if outs:
            ref_seed, ref = outs[0]
            for hs, o in outs[1:]:
                res.evaluations += len(cases)
                for i, (x, y) in enumerate(zip(ref, o)):
                    if x != y:
                        res.fail(Failure('C17', 'result-depends-on-hash-seed', cases[i // 2],
                                         {'PYTHONHASHSEED=' + hs: y[:200]},
                                         {'PYTHONHASHSEED=' + ref_seed: x[:200]}))
                        break
            res.count('hash-seeds', len(outs))
            res.count('hash-seed-cases', len(cases))
    finally:
        import shutil
        shutil.rmtree(tmpd, ignore_errors=True)


FIRST_CALL_DOCS = ['\\begin{equation}\\item x\\end{equation}', '\\begin{align}\\alpha + \\frac{\\beta}{2} \\in [0,1)\\end{align}',
                   '\\begin{verbatim}\\end{verbatim} t', '\\begin{lstlisting} $ { \\end{lstlisting}', '\\textbf x \\cup [a',
                   '\\begin{itemize}\\item a\\item[b] c\\end{itemize}', '$\\left( x \\right]$ \\in', '\\newcommand{\\e}{\\end{a}}',
                   '\\cmd{a}{a}{b}', '\\begin{foobar}\\x{\\end{foobar}', '{', '\\item']


def run_first_calls(res):
    """The result of parsing a document as the FIRST call of a fresh interpreter
    equals its result in this (long-running, already exercised) process: what a
    parse returns does not depend on how many parses came before it."""
    script = ('import sys, json\nsys.path.insert(0, %r)\nsys.path.insert(0, %r)\nimport impl\n'
              's = json.loads(sys.argv[1])\nprint(json.dumps([impl.canon_parse(s, t, watchdog=5) for t in (0, 1)]))'
              % (REPO, os.path.join(VERIF, 'harness')))
    procs = []
    for d in FIRST_CALL_DOCS:
        env = dict(os.environ)
        env['PYTHONHASHSEED'] = '0'
        procs.append((d, subprocess.Popen([sys.executable, '-c', script, json.dumps(d)], env=env,
                                          stdout=subprocess.PIPE, stderr=subprocess.DEVNULL)))
    for d, p in procs:
        o, _ = p.communicate()
        res.evaluations += 1
        try:
            fresh = json.loads(o.decode())
        except ValueError:
            res.fail(Failure('C17', 'first-call-run-crashed', d, o[-200:].decode('utf-8', 'replace'), 'results'))
            continue
        here = [impl.canon_parse(d, t, watchdog=5) for t in (0, 1)]
        if fresh != here:
            res.fail(Failure('C17', 'earlier-parse-or-edit-influences-parse', d,
                             {'in this process (after other parses)': [x[:200] for x in here]},
                             {'as the first call of a fresh interpreter': [x[:200] for x in fresh]}))
    res.count('first-call-documents', len(FIRST_CALL_DOCS))


def oracle_C17(tier):
    res = Result('oracle-C17')
    try:
        run_first_calls(res)
    except Exception as e:      # noqa
        res.notes.append('first-call comparison did not run: %r' % (e,))
    rng = rng_for('C17', 'inputs')
    n = 60 if tier == 'quick' else 600
    docs = [s for s, _ in inputs.grammar_docs('C17', n, 3, maxchars=300)]
    docs += list(gen.strings_upto(gen.KIND_ALPHABET, 2))[: (400 if tier == 'quick' else 2000)]
    docs += list(gen.random_strings(rng, gen.KIND_ALPHABET, n, 3, 6))
    # other line-end conventions: chunk boundaries after CR LF, after a lone
    # CR, between CR and LF
    crlf = [d.replace('\n', '\r\n') for d in docs[:n // 2] if '\n' in d]
    crlf += [d.replace('\n', '\r') for d in docs[:n // 4] if '\n' in d]
    crlf += [c for c in gen.odd_char_cases() if '\r' in c]
    crlf += ['\\b\r\n{x}y', 'a\r\n\r\nb', '\\item x\r\n\\item y', '% c\r\n\\x', '\\x\r{y}', '\\x\n\r{y}']
    docs += crlf
    for r in pmap(_c17_forms_chunk, [(c, str(i)) for i, c in enumerate(chunked(docs, NPROC * 2))]):
        res.merge(r)
    # documents whose parse builds nodes outside the token stream (bare-token
    # arguments are coerced through TexGroup.parse) and documents with names a
    # skip_envs option may mention: hidden shared state would show here
    special = ['\\textbf a and \\textbf{a}', '\\label x \\label x', '\\section a\\section a',
               '\\def\\foo{x} \\textbf\\foo', '\\textbf a', '$\\textbf x \\in [0,1)$',
               '\\begin{foobar} \\textbf{x} $y$ \\end{foobar} tail',
               '\\begin{zz}\\x{a}\\end{zz}\\begin{a}\\begin{zz}${\\end{zz}\\end{a}',
               # empty raw bodies, empty groups and empty math: whatever stands
               # for "nothing" in a tree must be that tree's own object
               'a\\begin{verbatim}\\end{verbatim}b', '\\begin{lstlisting}\\end{lstlisting} and \\begin{verbatim} y \\end{verbatim}',
               '\\x{}[]{} $$ \\begin{a}\\end{a}', '\\begin{equation}\\item x\\end{equation}',
               '\\begin{itemize}\\item u\\end{itemize}\\begin{equation}x\\end{equation}']
    docs = special + docs
    pairs = [(docs[i], docs[(i * 7 + 3) % len(docs)]) for i in range(0, min(len(docs), n * 2))]
    pairs += [(a, b) for a in special for b in special]
    for r in pmap(_c17_isolation_chunk, [(c, str(i)) for i, c in enumerate(chunked(pairs, NPROC * 2))]):
        res.merge(r)
    run_hashseeds(8 if tier == 'quick' else 64, res)
    return res
