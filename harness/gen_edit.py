#!/venv/bin/python
"""Translator: regenerate coq/theories/Model/EditGen.v from the editing methods of
$TEXSOUP_REPO/TexSoup/data.py (default /repo).

Read with the Python `ast` module only (nothing is imported or executed) and written
as terms of the language of coq/theories/Model/EditDSL.v, one Coq constructor per
Python construct:

  TexExpr   append insert remove _supports_contents _assert_supports_contents,
            the setters of `string` and `contents`
  TexCmd    _supports_contents _assert_supports_contents __str__
  TexEnv    __str__, the properties begin / end (getter and setter)
  TexNamedEnv  the properties begin / end
  TexText   __str__          TexArgs  __str__
  TexNode   append insert remove delete replace replace_with copy __str__, the
            properties name / args (getter and setter), the setters of `string` and
            `contents`
  and ANY definition of one of these member names in any other class of the hierarchy
  (an override added later is translated too, or the translation fails).

Proofs/EditGenProofs.v then proves that interpreting each generated body is the
hand-written operation of Model/Edit.v (and Tree.estr for the __str__ family).

Fail-closed: any statement or expression shape that is not listed in EditDSL.v raises
TranslationError, as does a change of what the interpreter's reading relies on:
  * the `class C(Base)` headers of the hierarchy (EditDSL.mro),
  * the source of the code that is read but not translated, compared with the
    reference text PINNED below: TexNode.__init__, TexNode.contents (getter),
    TexExpr.__init__ / __eq__ / all / contents (getter), TexEnv.__init__,
    TexText.__init__ / __eq__, TexArgs.__getitem__, the class attributes of the
    delimiter classes; utils.py: Token.__new__ / __eq__ / __str__, to_list; tex.py:
    the construction of the root environment,
  * __eq__/__ne__/__bool__/__len__/__getattribute__/__setattr__/__delattr__ defined
    anywhere else in the hierarchy, __getattr__ anywhere but TexNode,
  * a read of `.parent` outside class TexNode, a store to `._contents` outside
    TexExpr.__init__ and the `contents` setter, a class-level definition of a field
    name (expr, parent, _contents, _text, _begin, _end),
  * a rebinding of the builtins / class names the bodies use.

The output depends on the abstract syntax only: comments, docstrings, layout and the
names of parameters and locals do not change it.  Before the pins are compared and the
bodies translated the AST is NORMALISED (N1-N8 below, each an identity of Python's
semantics): annotations dropped, module-level literal constants and small helper
functions inlined, f-strings / str.format as %-formatting, list(x.contents) = x.contents,
`yield from`, if/else of one assignment = conditional expression, structured control
flow (early return / raise / continue vs else, `if not c`), so that such rewrites of
the source give the identical EditGen.v.  Pinned functions are compared up to the names
of their locals.  Constructs the model has no meaning for but that are plain Python
(`x.all`, list methods on a TexArgs / `l[i] = v` on a list object, int comparisons / max /
min / -) are translated to constructors whose evaluation leaves the fragment (OUnsup,
EditDSL.v) or computes on ints: a body that uses them is a program whose equality lemma
fails, rather than a translation failure.

Usage: gen_edit.py <out.v>        exit 0 = written (only if content changed)
                                  exit 2 = translation failed (message on stderr)
"""
import ast
import copy
import os
import sys

REPO = os.environ.get('TEXSOUP_REPO', '/repo')


class TranslationError(Exception):
    pass


def need(cond, msg):
    if not cond:
        raise TranslationError(msg)


def where(n):
    return 'line %s' % getattr(n, 'lineno', '?')


def shape(n):
    return ast.dump(n)[:140]


def is_name(n, ident):
    return isinstance(n, ast.Name) and n.id == ident


def strip_doc(body):
    if body and isinstance(body[0], ast.Expr) and isinstance(body[0].value, ast.Constant) \
            and isinstance(body[0].value.value, str):
        return body[1:]
    return body


def norm_fn(fn):
    return (ast.dump(fn.args), [ast.dump(x) for x in strip_doc(fn.body)],
            [ast.dump(d) for d in fn.decorator_list])


def zlit(v):
    return '%d%%Z' % v if v >= 0 else '(%d)%%Z' % v


def strlit(s):
    if not s:
        return '[]'
    return '[%s]%%N' % '; '.join(str(ord(c)) for c in s)


# ----------------------------------------------------------------- vocabulary
# class name in data.py -> constructor of EditDSL.cls ; the four math classes are one
MATH = ['TexDisplayMathModeEnv', 'TexMathModeEnv', 'TexDisplayMathEnv', 'TexMathEnv']
CLS = {'TexNode': 'CTexNode', 'TexExpr': 'CTexExpr', 'TexEnv': 'CTexEnv',
       'TexNamedEnv': 'CTexNamedEnv', 'TexUnNamedEnv': 'CTexUnNamedEnv', 'TexCmd': 'CTexCmd',
       'TexText': 'CTexText', 'TexGroup': 'CTexGroup', 'BraceGroup': 'CBraceGroup',
       'BracketGroup': 'CBracketGroup', 'TexArgs': 'CTexArgs'}
for _m in MATH:
    CLS[_m] = 'CMathEnv'
ISINSTANCE_CLS = dict(CLS, str='CStr', int='CInt', list='CList', tuple='CTuple')
for _m in MATH:
    del ISINSTANCE_CLS[_m]          # never tested for in the translated bodies
# the hierarchy EditDSL.mro encodes
BASES = {'TexNode': ['object'], 'TexExpr': ['object'], 'TexEnv': ['TexExpr'],
         'TexNamedEnv': ['TexEnv'], 'TexUnNamedEnv': ['TexEnv'], 'TexCmd': ['TexExpr'],
         'TexText': ['TexExpr', 'str'], 'TexGroup': ['TexUnNamedEnv'], 'BraceGroup': ['TexGroup'],
         'BracketGroup': ['TexGroup'], 'TexArgs': ['list']}
for _m in MATH:
    BASES[_m] = ['TexUnNamedEnv']
CLASS_ORDER = ['TexNode', 'TexExpr', 'TexEnv', 'TexNamedEnv', 'TexUnNamedEnv'] + MATH + \
              ['TexCmd', 'TexText', 'TexGroup', 'BracketGroup', 'BraceGroup', 'TexArgs']

ATTRS = {'expr': 'A_expr', 'parent': 'A_parent', 'args': 'A_args', '_contents': 'A_raw',
         'contents': 'A_contents', 'name': 'A_name', 'string': 'A_string', 'begin': 'A_begin',
         'end': 'A_end', '_text': 'A_text', '_begin': 'A_begin_raw', '_end': 'A_end_raw',
         'all': 'A_all'}
FIELDS = ['expr', 'parent', '_contents', '_text', '_begin', '_end']
METHODS = {'append': 'M_append', 'insert': 'M_insert', 'remove': 'M_remove', 'delete': 'M_delete',
           'replace': 'M_replace', 'replace_with': 'M_replace_with', 'copy': 'M_copy',
           '_supports_contents': 'M_supports', '_assert_supports_contents': 'M_assert_supports',
           '__str__': 'M_str'}
# properties: translated getters / setters; `contents` and `string` getters are not
# translated (contents: pinned, a primitive of the interpreter; string: never read)
PROPS = ['name', 'args', 'begin', 'end', 'contents', 'string']
UNTRANSLATED_GETTERS = {('TexNode', 'contents'), ('TexExpr', 'contents'),
                        ('TexNode', 'string'), ('TexExpr', 'string')}
LOPS = {'extend': ('LExtend', (1,)), 'insert': ('LInsert', (2,)), 'index': ('LIndex', (1,)),
        'append': ('LAppend', (1,)), 'remove': ('LRemove', (1,)), 'pop': ('LPop', (0, 1)),
        'clear': ('LClear', (0,)), 'reverse': ('LReverse', (0,))}
LIST_HOLDERS = ('_contents', 'args', 'all')      # attributes that hold list objects
CMPOPS = {ast.Lt: 'CLt', ast.LtE: 'CLe', ast.Gt: 'CGt', ast.GtE: 'CGe'}
EXNS = ('TypeError', 'ValueError', 'AssertionError', 'IndexError')
BUILTINS = ('isinstance', 'str', 'int', 'list', 'tuple', 'len', 'bool', 'next', 'any', 'all',
            'enumerate', 'map', 'super', 'object', 'property', 'max', 'min') + EXNS
FORBIDDEN_DUNDERS = ('__eq__', '__ne__', '__bool__', '__len__', '__getattribute__', '__setattr__',
                     '__delattr__', '__getattr__', '__hash__', '__set__', '__get__',
                     '__init_subclass__', '__class_getitem__', '__new__', '__format__')
# TexArgs is translated by gen_args.py; here only its __str__ and __getitem__ matter
LIST_ATTRS = frozenset(dir(list))
TEXARGS_MEMBERS = ['__init__', '_TexArgs__coerce', '__coerce', 'append', 'extend', 'insert',
                   'remove', 'pop', 'reverse', 'clear', '__getitem__', '__contains__', '__str__',
                   '__repr__']

PINNED_DATA = '''
class TexNode(object):
    def __init__(self, expr, src=None):
        assert isinstance(expr, TexExpr), \\
            'Expression given to node must be a valid TexExpr'
        super().__init__()
        self.expr = expr
        self.parent = None
        if src is not None:
            self.char_to_line = CharToLineOffset(src)
        else:
            self.char_to_line = None

    @property
    @to_list
    def contents(self):
        for child in self.expr.contents:
            if isinstance(child, TexExpr):
                node = TexNode(child)
                node.parent = self
                yield node
            else:
                yield child

class TexExpr(object):
    def __init__(self, name, contents=(), args=(), preserve_whitespace=False,
                 position=-1):
        self.name = name.strip()  # TODO: should not ever have space
        self.args = TexArgs(args)
        self.parent = None
        self._contents = list(contents) or []
        self.preserve_whitespace = preserve_whitespace
        self.position = position

        for content in contents:
            if isinstance(content, (TexEnv, TexCmd)):
                content.parent = self

    def __eq__(self, other):
        return str(other) == str(self)

    @property
    @to_list
    def all(self):
        for arg in self.args:
            for expr in arg.contents:
                yield expr
        for content in self._contents:
            yield content

    @property
    @to_list
    def contents(self):
        for content in self.all:
            if isinstance(content, TexText):
                content = content._text
            is_whitespace = isinstance(content, str) and content.isspace()
            if not is_whitespace or self.preserve_whitespace:
                yield content

class TexEnv(TexExpr):
    def __init__(self, name, begin, end, contents=(), args=(),
                 preserve_whitespace=False, position=-1):
        super().__init__(name, contents, args, preserve_whitespace, position)
        self._begin = begin
        self._end = end

class TexText(TexExpr, str):
    def __init__(self, text, position=-1):
        super().__init__('text', [text], position=position)
        self._text = text

    def __eq__(self, other):
        if isinstance(other, TexText):
            return self._text == other._text
        if isinstance(other, str):
            return self._text == other
        return False

class TexArgs(list):
    def __getitem__(self, key):
        value = super().__getitem__(key)
        if isinstance(value, list):
            return TexArgs(value)
        return value
'''

PINNED_UTILS = '''
class Token(str):
    def __new__(cls, text='', position=None, category=None):
        self = str.__new__(cls, text)
        if isinstance(text, Token):
            self.text = text.text
            self.position = text.position
            self.category = category or text.category
        else:
            self.text = text
            self.position = position
            self.category = category
        return self

    def __str__(self):
        return str(self.text)

    def __eq__(self, other):
        if isinstance(other, Token):
            return self.text == other.text
        else:
            return self.text == other

def to_list(f):
    @functools.wraps(f)
    def wrapper(*args, **kwargs):
        return list(f(*args, **kwargs))
    return wrapper
'''

PINNED_ROOT = "TexEnv('[tex]', begin='', end='', contents=buf)"



# ------------------------------------------------------------ normalisation
# Rewrites of the Python AST applied BEFORE the pins are compared and the bodies are
# translated.  Each one is an identity of Python's semantics under the side conditions
# checked here (fail-closed: when a side condition does not hold the source is left as it
# is, and then either translates as written or makes the translation fail):
#   N1  annotations (parameters, return, `x: T = e`) are dropped.
#   N2  a module-level name bound exactly once, by `NAME = <literal>` (str / int / None /
#       bool / tuple of those), is replaced by the literal where it is read and is not a local.
#   N3  a module-level function `def f(p..): return E` (positional parameters only, bound
#       once, no decorator) called as f(<names / constants>) is replaced by E[p := argument];
#       `def f(p..): <assignments / expression statements>; return E` likewise where the call
#       is the whole value of an expression statement / assignment / return / yield (its
#       locals get fresh names).  Nothing is captured: checked.  A helper no reference to
#       which remains is removed from the module.
#   N4  f-strings and '..{}..'.format(..) are %-formatting with %s ('%' escaped).
#   N5  list(x.contents) is x.contents (the getters TexNode.contents / TexExpr.contents are
#       pinned: @to_list builds a new list on every read).
#   N6  `for x in E: yield x` (x not used otherwise) is `yield from E` (only the pinned
#       generators contain yields).
#   N7  `if c: T = a else: T = b` is `T = a if c else b` (T a name or an attribute of a name).
#   N8  structured control flow: when a branch of an `if` always leaves (return / raise /
#       continue) the statements after the `if` are moved into the other branch; `if not c:
#       A else: B` is `if c: B else: A`; a `continue` that ends a loop body and a `return` /
#       `return None` that ends the function are dropped.
def is_literal(n):
    if isinstance(n, ast.Constant):
        return n.value is None or type(n.value) in (str, int, bool)
    if isinstance(n, ast.Tuple) and isinstance(n.ctx, ast.Load):
        return all(is_literal(e) for e in n.elts)
    return False


def function_locals(fn):
    """every identifier bound somewhere inside fn (parameters, assignments, loop and
    comprehension targets, except-handlers, imports, nested definitions)"""
    out = set()
    a = fn.args
    for x in a.args + a.kwonlyargs + getattr(a, 'posonlyargs', []) + \
            ([a.vararg] if a.vararg else []) + ([a.kwarg] if a.kwarg else []):
        out.add(x.arg)
    for n in ast.walk(fn):
        if isinstance(n, ast.Name) and not isinstance(n.ctx, ast.Load):
            out.add(n.id)
        elif isinstance(n, (ast.FunctionDef, ast.ClassDef, ast.AsyncFunctionDef)) and n is not fn:
            out.add(n.name)
        elif isinstance(n, ast.ExceptHandler) and n.name:
            out.add(n.name)
        elif isinstance(n, (ast.Import, ast.ImportFrom)):
            for al in n.names:
                out.add((al.asname or al.name).split('.')[0])
        elif isinstance(n, ast.arg):
            out.add(n.arg)          # lambda parameters
    return out


def copy_node(n):
    return copy.deepcopy(n)


class Subst(ast.NodeTransformer):
    """replace Name loads by expressions / rename identifiers"""
    def __init__(self, loads, renames):
        self.loads, self.renames = loads, renames

    def visit_Name(self, n):
        if n.id in self.renames:
            return ast.copy_location(ast.Name(id=self.renames[n.id], ctx=n.ctx), n)
        if isinstance(n.ctx, ast.Load) and n.id in self.loads:
            return ast.copy_location(copy_node(self.loads[n.id]), n)
        return n


def helper_kind(fn):
    """None, or ('expr', E) / ('stmts', [stmts], E) for an inlinable module-level function"""
    a = fn.args
    if fn.decorator_list or a.vararg or a.kwarg or a.kwonlyargs or a.defaults or a.kw_defaults \
            or getattr(a, 'posonlyargs', []):
        return None
    params = [x.arg for x in a.args]
    if len(set(params)) != len(params):
        return None
    body = strip_doc(fn.body)
    if not body or not isinstance(body[-1], ast.Return) or body[-1].value is None:
        return None
    for n in ast.walk(fn):
        if isinstance(n, (ast.Lambda, ast.Yield, ast.YieldFrom, ast.Await, ast.NamedExpr, ast.Global,
                          ast.Nonlocal, ast.FunctionDef, ast.ClassDef, ast.AsyncFunctionDef,
                          ast.Starred)) and n is not fn:
            return None
        if isinstance(n, ast.Name) and not isinstance(n.ctx, ast.Load) and n.id in params:
            return None             # a parameter is assigned
        if isinstance(n, ast.Call) and is_name(n.func, fn.name):
            return None             # recursive
    for st in body[:-1]:
        ok = isinstance(st, ast.Expr) or (isinstance(st, ast.Assign) and len(st.targets) == 1 and (
            isinstance(st.targets[0], ast.Name) or
            (isinstance(st.targets[0], ast.Attribute) and isinstance(st.targets[0].value, ast.Name))))
        if not ok:
            return None
    if len(body) == 1:
        return ('expr', body[0].value)
    return ('stmts', body[:-1], body[-1].value)


class Inliner(object):
    def __init__(self, consts, helpers):
        self.consts, self.helpers = consts, helpers
        self.counter = 0

    def simple_args(self, call, locs, fn):
        """the call passes names / constants only, one per parameter"""
        if call.keywords or len(call.args) != len(fn.args.args):
            return False
        for x in call.args:
            if not (isinstance(x, ast.Name) or (isinstance(x, ast.Constant) and is_literal(x))):
                return False
        return True

    def instantiate(self, name, call, locs):
        """(statements, expression) of the helper for this call, or None"""
        fn = self.helpers[name]
        kind = helper_kind(fn)
        if kind is None or not self.simple_args(call, locs, fn):
            return None
        params = [x.arg for x in fn.args.args]
        hlocals = function_locals(fn) - set(params)
        # free names of the helper keep their module-level meaning in the caller
        free = {n.id for n in ast.walk(fn) if isinstance(n, ast.Name)} - hlocals - set(params)
        if free & locs:
            return None
        argnames = {x.id for x in call.args if isinstance(x, ast.Name)}
        if kind[0] == 'expr' and hlocals:
            return None             # comprehension targets inside E: keep it simple
        self.counter += 1
        renames = {h: '_h%d_%s' % (self.counter, h) for h in sorted(hlocals)}
        if set(renames.values()) & (locs | argnames):
            return None
        sub = Subst(dict(zip(params, call.args)), renames)
        stmts = [] if kind[0] == 'expr' else [ast.fix_missing_locations(sub.visit(copy_node(st)))
                                              for st in kind[1]]
        ex = ast.fix_missing_locations(sub.visit(copy_node(kind[-1])))
        return stmts, ex

    def inline_function(self, fn):
        """fn with module constants and helper calls replaced (a new FunctionDef)"""
        locs = function_locals(fn)
        me = self

        class T(ast.NodeTransformer):
            def visit_Name(self, n):
                if isinstance(n.ctx, ast.Load) and n.id in me.consts and n.id not in locs:
                    return ast.copy_location(copy_node(me.consts[n.id]), n)
                return n

            def visit_Call(self, n):
                self.generic_visit(n)
                if isinstance(n.func, ast.Name) and n.func.id in me.helpers and n.func.id not in locs:
                    got = me.instantiate(n.func.id, n, locs)
                    if got is not None and not got[0]:
                        return ast.copy_location(got[1], n)
                return n

        def stmt_list(body):
            out = []
            for st in body:
                # a helper with statements: the call must be the whole value of the statement
                call, put = None, None
                if isinstance(st, ast.Expr) and isinstance(st.value, ast.Yield) and st.value.value is not None:
                    call = st.value.value
                    put = lambda e, st=st: ast.copy_location(ast.Expr(value=ast.Yield(value=e)), st)
                elif isinstance(st, ast.Expr):
                    call = st.value
                    put = lambda e, st=st: ast.copy_location(ast.Expr(value=e), st)
                elif isinstance(st, ast.Assign) and len(st.targets) == 1 and isinstance(st.targets[0], ast.Name):
                    call = st.value
                    put = lambda e, st=st: ast.copy_location(ast.Assign(targets=st.targets, value=e), st)
                elif isinstance(st, ast.Return) and st.value is not None:
                    call = st.value
                    put = lambda e, st=st: ast.copy_location(ast.Return(value=e), st)
                if isinstance(call, ast.Call) and isinstance(call.func, ast.Name) \
                        and call.func.id in me.helpers and call.func.id not in locs:
                    got = me.instantiate(call.func.id, call, locs)
                    if got is not None and got[0]:
                        for h in got[0]:
                            out.append(ast.copy_location(h, st))
                        out.append(ast.fix_missing_locations(put(got[1])))
                        continue
                for field in ('body', 'orelse', 'finalbody'):
                    if isinstance(getattr(st, field, None), list) and not isinstance(st, ast.IfExp):
                        setattr(st, field, stmt_list(getattr(st, field)))
                out.append(st)
            return out

        new = copy_node(fn)
        new.body = stmt_list(new.body)
        new = T().visit(new)
        return ast.fix_missing_locations(new)


def inline_module(tree, allow_attr=()):
    """N2 / N3 on every method of every class; removes the helpers / constants that are no
    longer referred to"""
    bound = module_bindings(tree, allow_attr)
    consts, helpers = {}, {}
    for st in tree.body:
        if isinstance(st, ast.Assign) and len(st.targets) == 1 and isinstance(st.targets[0], ast.Name) \
                and is_literal(st.value) and bound.get(st.targets[0].id) == ['assign'] \
                and not st.targets[0].id.startswith('__'):
            consts[st.targets[0].id] = st.value
        elif isinstance(st, ast.FunctionDef) and bound.get(st.name) == ['def'] and helper_kind(st):
            helpers[st.name] = st
    if not consts and not helpers:
        return tree
    inl = Inliner(consts, helpers)
    # constants inside the helpers first
    for nm in list(helpers):
        helpers[nm] = inl_consts_only(helpers[nm], consts)
    body = []
    for st in tree.body:
        if isinstance(st, ast.ClassDef):
            st = copy_class(st, [inl.inline_function(x) if isinstance(x, ast.FunctionDef) else x
                                 for x in st.body])
        body.append(st)
    # drop what is no longer referred to
    def referred(name, skip):
        for st in body:
            if st is skip:
                continue
            for n in ast.walk(st):
                if isinstance(n, ast.Name) and n.id == name:
                    return True
                if isinstance(n, ast.Constant) and n.value == name:
                    return True     # e.g. listed in __all__
        return False
    out = []
    for st in body:
        if isinstance(st, ast.FunctionDef) and st.name in helpers and not referred(st.name, st):
            continue
        if isinstance(st, ast.Assign) and len(st.targets) == 1 and isinstance(st.targets[0], ast.Name) \
                and st.targets[0].id in consts and not referred(st.targets[0].id, st):
            continue
        out.append(st)
    return ast.fix_missing_locations(ast.Module(body=out, type_ignores=[]))


def inl_consts_only(fn, consts):
    return Inliner(consts, {}).inline_function(fn)


def copy_class(cl, body):
    return ast.copy_location(ast.ClassDef(name=cl.name, bases=cl.bases, keywords=cl.keywords,
                                          body=body, decorator_list=cl.decorator_list), cl)


def fmt_escape(s):
    return s.replace('%', '%%')


class ExprNorm(ast.NodeTransformer):
    """N4, N5"""
    def __init__(self, locs):
        self.locs = locs

    def visit_JoinedStr(self, n):
        self.generic_visit(n)
        fmt, args = '', []
        for v in n.values:
            if isinstance(v, ast.Constant) and type(v.value) is str:
                fmt += fmt_escape(v.value)
            elif isinstance(v, ast.FormattedValue) and v.conversion in (-1, 115) and v.format_spec is None:
                fmt += '%s'
                args.append(v.value)
            else:
                return n
        return ast.copy_location(ast.BinOp(left=ast.Constant(value=fmt), op=ast.Mod(),
                                           right=ast.Tuple(elts=args, ctx=ast.Load())), n)

    def visit_Call(self, n):
        self.generic_visit(n)
        f = n.func
        if isinstance(f, ast.Name) and f.id == 'list' and 'list' not in self.locs and not n.keywords \
                and len(n.args) == 1 and isinstance(n.args[0], ast.Attribute) and n.args[0].attr == 'contents':
            return n.args[0]
        if isinstance(f, ast.Attribute) and f.attr == 'format' and isinstance(f.value, ast.Constant) \
                and type(f.value.value) is str and not n.keywords \
                and not any(isinstance(a, ast.Starred) for a in n.args):
            # only '{}' fields, '{{' and '}}'
            src, fmt, k, i = f.value.value, '', 0, 0
            while i < len(src):
                if src.startswith('{{', i) or src.startswith('}}', i):
                    fmt += src[i]
                    i += 2
                elif src.startswith('{}', i):
                    fmt += '%s'
                    k += 1
                    i += 2
                elif src[i] in '{}':
                    return n
                else:
                    fmt += fmt_escape(src[i])
                    i += 1
            if k != len(n.args):
                return n
            return ast.copy_location(ast.BinOp(left=ast.Constant(value=fmt), op=ast.Mod(),
                                               right=ast.Tuple(elts=list(n.args), ctx=ast.Load())), n)
        return n


def leaves(block):
    """the block always ends in return / raise / continue / break"""
    if not block:
        return False
    last = block[-1]
    if isinstance(last, (ast.Return, ast.Raise, ast.Continue, ast.Break)):
        return True
    if isinstance(last, ast.If):
        return leaves(last.body) and leaves(last.orelse)
    return False


def mk_if(test, body, orelse, at):
    while isinstance(test, ast.UnaryOp) and isinstance(test.op, ast.Not):
        test, body, orelse = test.operand, orelse, body
    return ast.copy_location(ast.If(test=test, body=body, orelse=orelse), at)


def simple_target(t):
    return isinstance(t, ast.Name) or (isinstance(t, ast.Attribute) and isinstance(t.value, ast.Name))


def structure(stmts):
    out = []
    for i, s in enumerate(stmts):
        if isinstance(s, ast.If):
            rest = stmts[i + 1:]
            if rest and leaves(s.body):
                out.append(mk_if(s.test, s.body, structure(s.orelse + rest), s))
                return out
            if rest and leaves(s.orelse):
                out.append(mk_if(s.test, structure(s.body + rest), s.orelse, s))
                return out
            b, e = s.body, s.orelse
            if len(b) == 1 and len(e) == 1 and isinstance(b[0], ast.Assign) and isinstance(e[0], ast.Assign) \
                    and len(b[0].targets) == 1 and len(e[0].targets) == 1 \
                    and simple_target(b[0].targets[0]) \
                    and ast.dump(b[0].targets[0]) == ast.dump(e[0].targets[0]):
                out.append(ast.copy_location(ast.Assign(
                    targets=[b[0].targets[0]],
                    value=ast.copy_location(ast.IfExp(test=s.test, body=b[0].value, orelse=e[0].value), s)), s))
                continue
            out.append(mk_if(s.test, s.body, s.orelse, s))
        else:
            out.append(s)
    return out


def strip_tail(block, kinds):
    """drop a trailing `continue` (loop body) / bare return (function body)"""
    block = list(block)
    while block:
        last = block[-1]
        if 'continue' in kinds and isinstance(last, ast.Continue):
            block.pop()
        elif 'return' in kinds and isinstance(last, ast.Return) and (
                last.value is None or (isinstance(last.value, ast.Constant) and last.value.value is None)):
            block.pop()
        elif isinstance(last, ast.If):
            block[-1] = ast.copy_location(ast.If(test=last.test, body=strip_tail(last.body, kinds),
                                                 orelse=strip_tail(last.orelse, kinds)), last)
            break
        else:
            break
    return block


def count_name(fn, ident):
    return sum(1 for n in ast.walk(fn) if isinstance(n, ast.Name) and n.id == ident)


def norm_block(stmts, fn):
    out = []
    for s in stmts:
        if isinstance(s, ast.AnnAssign):
            if s.value is None:
                continue
            if s.simple and isinstance(s.target, ast.Name):
                s = ast.copy_location(ast.Assign(targets=[s.target], value=s.value), s)
        if isinstance(s, ast.If):
            s = ast.copy_location(ast.If(test=s.test, body=norm_block(s.body, fn),
                                         orelse=norm_block(s.orelse, fn)), s)
        elif isinstance(s, ast.For):
            body = strip_tail(norm_block(s.body, fn), ('continue',))
            # N6
            if not s.orelse and isinstance(s.target, ast.Name) and len(body) == 1 \
                    and isinstance(body[0], ast.Expr) and isinstance(body[0].value, ast.Yield) \
                    and is_name(body[0].value.value, s.target.id) and count_name(fn, s.target.id) == 2:
                s = ast.copy_location(ast.Expr(value=ast.YieldFrom(value=s.iter)), s)
            else:
                s = ast.copy_location(ast.For(target=s.target, iter=s.iter, body=body,
                                              orelse=norm_block(s.orelse, fn), type_comment=None), s)
        elif isinstance(s, ast.While):
            s = ast.copy_location(ast.While(test=s.test, body=norm_block(s.body, fn),
                                            orelse=norm_block(s.orelse, fn)), s)
        out.append(s)
    return structure(out)


def normalise_function(fn):
    """N1, N4 - N8 (N2 / N3 are done on the module: inline_module)"""
    new = copy_node(fn)
    new.decorator_list = fn.decorator_list
    a = new.args
    for x in a.args + a.kwonlyargs + getattr(a, 'posonlyargs', []) + \
            ([a.vararg] if a.vararg else []) + ([a.kwarg] if a.kwarg else []):
        x.annotation = None
    new.returns = None
    new = ExprNorm(function_locals(new)).visit(new)
    doc = new.body[:len(new.body) - len(strip_doc(new.body))]
    new.body = doc + strip_tail(norm_block(strip_doc(new.body), new), ('return',))
    if not strip_doc(new.body):
        new.body = new.body + [ast.Pass()]
    return ast.fix_missing_locations(new)


def normalise_module(tree, allow_attr=()):
    tree = inline_module(tree, allow_attr)
    body = []
    for st in tree.body:
        if isinstance(st, ast.ClassDef):
            st = copy_class(st, [normalise_function(x) if isinstance(x, ast.FunctionDef) else x
                                 for x in st.body])
        elif isinstance(st, ast.FunctionDef):
            st = normalise_function(st)
        elif isinstance(st, ast.AnnAssign) and st.simple and isinstance(st.target, ast.Name) \
                and st.value is not None:
            st = ast.copy_location(ast.Assign(targets=[st.target], value=st.value), st)
        body.append(st)
    return ast.fix_missing_locations(ast.Module(body=body, type_ignores=[]))


def alpha_fn(fn):
    """the function with its non-parameter locals renamed in order of first occurrence"""
    a = fn.args
    params = {x.arg for x in a.args + a.kwonlyargs + getattr(a, 'posonlyargs', [])}
    if a.vararg:
        params.add(a.vararg.arg)
    if a.kwarg:
        params.add(a.kwarg.arg)
    locs = function_locals(fn) - params
    order = []

    class V(ast.NodeVisitor):
        def visit_Name(self, n):
            if n.id in locs and n.id not in order:
                order.append(n.id)
    for st in fn.body:
        V().visit(st)
    ren = {nm: '_v%d' % i for i, nm in enumerate(order)}
    new = copy_node(fn)
    new.decorator_list = fn.decorator_list
    return ast.fix_missing_locations(Subst({}, ren).visit(new))


# ------------------------------------------------------------- module checks
def module_bindings(tree, allow_attr=()):
    bound = {}
    for st in tree.body:
        if isinstance(st, ast.ImportFrom):
            for a in st.names:
                need(a.name != '*', 'star import at %s' % where(st))
                bound.setdefault(a.asname or a.name, []).append('import')
        elif isinstance(st, ast.Import):
            for a in st.names:
                bound.setdefault((a.asname or a.name).split('.')[0], []).append('import')
        elif isinstance(st, ast.FunctionDef):
            bound.setdefault(st.name, []).append('def')
        elif isinstance(st, ast.ClassDef):
            bound.setdefault(st.name, []).append('class')
        elif isinstance(st, ast.Assign):
            for t in st.targets:
                for x in ast.walk(t):
                    if isinstance(x, ast.Name) and isinstance(x.ctx, ast.Store):
                        bound.setdefault(x.id, []).append('assign')
                    elif isinstance(x, ast.Attribute) and not isinstance(x.ctx, ast.Load):
                        need(isinstance(x.value, ast.Name) and (x.value.id, x.attr) in allow_attr,
                             'module-level attribute assignment at %s' % where(st))
        elif isinstance(st, ast.AnnAssign) and isinstance(st.target, ast.Name):
            if st.value is not None:
                bound.setdefault(st.target.id, []).append('assign')
        elif isinstance(st, ast.Expr) and isinstance(st.value, ast.Constant):
            pass
        else:
            raise TranslationError('unexpected module-level statement at %s: %s' % (where(st), shape(st)))
    return bound


def prop_kind(fn):
    """('method'|'getter'|'setter', property name) from the decorators"""
    decs = fn.decorator_list
    if not decs:
        return 'method', fn.name
    if is_name(decs[0], 'property'):
        need(all(is_name(d, 'to_list') for d in decs[1:]),
             '%s: unexpected decorators at %s' % (fn.name, where(fn)))
        return ('getter' if len(decs) == 1 else 'getter_to_list'), fn.name
    if len(decs) == 1 and isinstance(decs[0], ast.Attribute) and decs[0].attr == 'setter' \
            and is_name(decs[0].value, fn.name):
        return 'setter', fn.name
    if len(decs) == 1 and is_name(decs[0], 'classmethod'):
        return 'classmethod', fn.name
    need(fn.name not in METHODS and fn.name not in PROPS and fn.name not in FIELDS,
         '%s: unexpected decorators at %s' % (fn.name, where(fn)))
    return 'other', fn.name


def pin_form(fn):
    return norm_fn(alpha_fn(fn))


def check_pins(classes, ref_src, fname):
    ref = normalise_module(ast.parse(ref_src))
    for r in ref.body:
        if isinstance(r, ast.FunctionDef):
            continue
        cl = classes.get(r.name)
        need(cl is not None, '%s: class %s is gone' % (fname, r.name))
        for item in r.body:
            kind = prop_kind(item)[0]
            got = [x for x in cl.body if isinstance(x, ast.FunctionDef) and x.name == item.name
                   and prop_kind(x)[0] == kind]
            need(len(got) == 1 and pin_form(got[0]) == pin_form(item),
                 '%s.%s differs from the source the interpreter\'s reading is pinned to'
                 % (r.name, item.name))


def check_data_module(tree):
    need(isinstance(tree, ast.Module), 'not a module')
    bound = module_bindings(tree)
    for nm in CLASS_ORDER:
        need(bound.get(nm) == ['class'], 'module-level binding of %s changed: %s' % (nm, bound.get(nm)))
    for nm in BUILTINS:
        need(nm not in bound, 'builtin %s is rebound at module level' % nm)
    need(bound.get('to_list') == ['import'] and bound.get('Token') == ['import'],
         'to_list / Token are no longer imported')
    imp = [st for st in tree.body if isinstance(st, ast.ImportFrom)
           and any(a.name in ('to_list', 'Token') for a in st.names)]
    need(len(imp) == 1 and imp[0].module == 'TexSoup.utils' and imp[0].level == 0
         and all(a.asname is None for a in imp[0].names), 'import of to_list / Token changed')
    classes = {st.name: st for st in tree.body if isinstance(st, ast.ClassDef)}
    for n in ast.walk(tree):
        need(not isinstance(n, (ast.Global, ast.Nonlocal)), 'global/nonlocal at %s' % where(n))
        if isinstance(n, ast.Delete):
            need(all(isinstance(t, ast.Subscript) for t in n.targets),
                 'del of a name/attribute at %s' % where(n))
        if isinstance(n, ast.Call) and isinstance(n.func, ast.Name) \
                and n.func.id in ('setattr', 'delattr', 'exec', 'eval', '__import__', 'vars', 'globals',
                                  'locals'):
            raise TranslationError('%s(...) at %s' % (n.func.id, where(n)))
        if isinstance(n, ast.Attribute) and (n.attr in ('__dict__', '__bases__', '__mro__')
                                             or (n.attr == '__class__' and not isinstance(n.ctx, ast.Load))):
            raise TranslationError('use of %s at %s' % (n.attr, where(n)))
        if isinstance(n, ast.Attribute) and not isinstance(n.ctx, ast.Load) \
                and isinstance(n.value, ast.Name) and n.value.id in CLASS_ORDER:
            raise TranslationError('assignment to an attribute of class %s at %s' % (n.value.id, where(n)))
    # ---- the class headers
    for nm in CLASS_ORDER:
        cl = classes[nm]
        got = [b.id if isinstance(b, ast.Name) else shape(b) for b in cl.bases]
        need(got == BASES[nm] and not cl.keywords and not cl.decorator_list,
             'bases of %s changed: %s' % (nm, got))
    # no other class derives from the hierarchy
    for nm, cl in classes.items():
        if nm in CLASS_ORDER:
            continue
        for b in cl.bases:
            need(not (isinstance(b, ast.Name) and b.id in CLASS_ORDER),
                 'new class %s derives from %s' % (nm, b.id))
    # ---- pinned sources
    check_pins(classes, PINNED_DATA, 'data.py')
    # ---- members
    for nm in CLASS_ORDER:
        cl = classes[nm]
        for st in strip_doc(cl.body):
            if isinstance(st, ast.FunctionDef):
                need(st.returns is None, '%s.%s: annotated' % (nm, st.name))
                if st.name in FORBIDDEN_DUNDERS:
                    ok = (nm, st.name) in (('TexExpr', '__eq__'), ('TexText', '__eq__'),
                                           ('TexNode', '__getattr__'))
                    need(ok, '%s defines %s' % (nm, st.name))
                need(st.name not in FIELDS, '%s defines the field name %s' % (nm, st.name))
            elif isinstance(st, ast.Assign):
                for t in st.targets:
                    need(isinstance(t, ast.Name), '%s: class-level target at %s' % (nm, where(st)))
                    need(t.id not in FORBIDDEN_DUNDERS and t.id not in METHODS
                         and t.id not in ('contents', 'string', 'args'),
                         '%s binds %s at class level' % (nm, t.id))
                    if t.id in FIELDS:
                        need(nm == 'TexEnv' and t.id in ('_begin', '_end')
                             and isinstance(st.value, ast.Constant) and st.value.value is None,
                             '%s binds the field name %s at class level' % (nm, t.id))
                    if t.id in ('name', 'begin', 'end'):
                        # delimiter classes: constants (their values are in Tables.v,
                        # regenerated by gen_tables.py); TexUnNamedEnv: None
                        need(nm in MATH + ['TexUnNamedEnv', 'BraceGroup', 'BracketGroup']
                             and isinstance(st.value, ast.Constant)
                             and (st.value.value is None if nm == 'TexUnNamedEnv'
                                  else isinstance(st.value.value, str) and st.value.value != ''),
                             '%s binds %s at class level' % (nm, t.id))
            else:
                raise TranslationError('unexpected statement in class %s at %s: %s'
                                       % (nm, where(st), shape(st)))
        if nm in MATH + ['BraceGroup', 'BracketGroup']:
            names = set()
            for st in strip_doc(cl.body):
                need(isinstance(st, ast.Assign), '%s: a delimiter class defines a method' % nm)
                names.update(t.id for t in st.targets)
            need({'name', 'begin', 'end'} <= names, '%s: name/begin/end not all defined' % nm)
    tn = [st.name for st in classes['TexArgs'].body if isinstance(st, ast.FunctionDef)]
    # an additional method is harmless unless it overrides something of `list` or is special / private
    need(all(nm in TEXARGS_MEMBERS or (not nm.startswith('_') and nm not in LIST_ATTRS and nm != 'all')
             for nm in tn), 'the methods of TexArgs changed: %s' % sorted(tn))
    # ---- .parent is read in TexNode only; ._contents is stored by __init__ and the setter only
    for nm, cl in classes.items():
        for fn in cl.body:
            if not isinstance(fn, ast.FunctionDef):
                continue
            for n in ast.walk(fn):
                if isinstance(n, ast.Attribute) and n.attr == 'parent' and isinstance(n.ctx, ast.Load):
                    need(nm == 'TexNode', 'TexExpr.parent is read in %s.%s' % (nm, fn.name))
                if isinstance(n, ast.Attribute) and n.attr == '_contents' and isinstance(n.ctx, ast.Store):
                    need((nm, fn.name) in (('TexExpr', '__init__'), ('TexExpr', 'contents')),
                         '_contents is assigned in %s.%s' % (nm, fn.name))
                if isinstance(n, ast.Constant) and n.value in ('parent', '_contents'):
                    raise TranslationError('the string %r in %s.%s' % (n.value, nm, fn.name))
    for st in tree.body:
        if isinstance(st, ast.FunctionDef):
            for n in ast.walk(st):
                need(not (isinstance(n, ast.Attribute) and (n.attr == 'parent' or (
                    n.attr == '_contents' and not isinstance(n.ctx, ast.Load)))),
                     'module-level function %s touches .%s' % (st.name, getattr(n, 'attr', '')))
    return classes


def check_utils_module(tree):
    bound = module_bindings(tree, allow_attr=(('Token', 'Empty'),))
    need(bound.get('Token') == ['class'] and bound.get('to_list') == ['def'],
         'utils.py: binding of Token / to_list changed')
    need(bound.get('functools') == ['import'], 'utils.py: functools')
    for nm in ('str', 'list', 'isinstance'):
        need(nm not in bound, 'utils.py rebinds %s' % nm)
    classes = {st.name: st for st in tree.body if isinstance(st, ast.ClassDef)}
    tok = classes['Token']
    need(len(tok.bases) == 1 and is_name(tok.bases[0], 'str') and not tok.decorator_list
         and not tok.keywords, 'bases of Token changed')
    check_pins(classes, PINNED_UTILS, 'utils.py')
    for st in tok.body:
        if isinstance(st, ast.FunctionDef):
            need(st.name not in ('__ne__', '__getattribute__', '__setattr__', '__req__'),
                 'Token defines %s' % st.name)
    ref = [r for r in normalise_module(ast.parse(PINNED_UTILS)).body if isinstance(r, ast.FunctionDef)][0]
    got = [st for st in tree.body if isinstance(st, ast.FunctionDef) and st.name == 'to_list']
    need(len(got) == 1 and pin_form(got[0]) == pin_form(ref), 'utils.to_list changed')


def check_tex_module(tree):
    def form(call):
        # the name of the variable that holds the contents does not matter
        call = copy.deepcopy(call)
        for kw in call.keywords:
            if kw.arg == 'contents' and isinstance(kw.value, ast.Name):
                kw.value = ast.Name(id='buf', ctx=ast.Load())
        return ast.dump(call)
    ref = form(ast.parse(PINNED_ROOT, mode='eval').body)
    calls = [n for n in ast.walk(tree) if isinstance(n, ast.Call) and is_name(n.func, 'TexEnv')]
    need(len(calls) == 1 and form(calls[0]) == ref,
         'tex.py: the construction of the root environment changed')


# ------------------------------------------------------------ the translation
def safe_message(n):
    """an expression that cannot fail to evaluate and has no effect (assert / raise text)"""
    if isinstance(n, ast.Constant) and isinstance(n.value, str):
        return True
    if isinstance(n, ast.Name):
        return True
    if isinstance(n, ast.Attribute) and isinstance(n.value, ast.Name) and n.attr in ('name',):
        return True
    if isinstance(n, ast.Tuple):
        return all(safe_message(e) for e in n.elts)
    if isinstance(n, ast.Call) and isinstance(n.func, ast.Attribute) and n.func.attr == 'format' \
            and isinstance(n.func.value, ast.Constant) and isinstance(n.func.value.value, str) \
            and not n.keywords:
        return all(safe_message(a) for a in n.args)
    if isinstance(n, ast.BinOp) and isinstance(n.op, ast.Mod) and isinstance(n.left, ast.Constant) \
            and isinstance(n.left.value, str):
        return safe_message(n.right)
    return False


def parse_format(s, owner, n):
    pieces, lit, i = [], '', 0
    while i < len(s):
        if s[i] == '%':
            need(i + 1 < len(s) and s[i + 1] in 's%', '%s: format directive at %s' % (owner, where(n)))
            if s[i + 1] == '%':
                lit += '%'
            else:
                if lit:
                    pieces.append('FLit %s' % strlit(lit))
                    lit = ''
                pieces.append('FHole')
            i += 2
        else:
            lit += s[i]
            i += 1
    if lit:
        pieces.append('FLit %s' % strlit(lit))
    return pieces


class Scope(object):
    def __init__(self, owner, fn):
        a = fn.args
        need(not a.kwonlyargs and not a.kwarg and not a.kw_defaults
             and not getattr(a, 'posonlyargs', []) and len(a.args) >= 1,
             '%s: unsupported parameter list' % owner)
        for x in a.args + ([a.vararg] if a.vararg else []):
            need(x.annotation is None, '%s: annotated parameter' % owner)
        self.owner = owner
        self.self_name = a.args[0].arg
        self.vars = {self.self_name: 0}
        self.nslots = 1
        for x in a.args[1:] + ([a.vararg] if a.vararg else []):
            need(x.arg not in self.vars, '%s: repeated parameter' % owner)
            self.vars[x.arg] = self.nslots
            self.nslots += 1
        self.loop_depth = 0
        # names that may hold a tuple (a VList stands for a list or a tuple; `+` tells them
        # apart in Python -- list + tuple is a TypeError -- so `+` on such a name is refused)
        self.tuples = set([a.vararg.arg] if a.vararg else [])
        changed = True
        while changed:
            changed = False
            for n in ast.walk(fn):
                if isinstance(n, ast.Assign) and self.may_tuple(n.value):
                    for t in n.targets:
                        for x in ast.walk(t):
                            if isinstance(x, ast.Name) and x.id not in self.tuples:
                                self.tuples.add(x.id)
                                changed = True
        for n in ast.walk(fn):
            need(not isinstance(n, (ast.FunctionDef, ast.AsyncFunctionDef, ast.ClassDef, ast.Lambda,
                                    ast.Yield, ast.YieldFrom, ast.Await, ast.With, ast.Import,
                                    ast.ImportFrom, ast.While, ast.Try, ast.NamedExpr, ast.SetComp,
                                    ast.DictComp, ast.AugAssign, ast.Break, ast.Global, ast.Nonlocal,
                                    ast.Dict, ast.Set, ast.JoinedStr, ast.AnnAssign)) or n is fn,
                 '%s: unsupported construct at %s: %s' % (owner, where(n), type(n).__name__))

    def err(self, n, what):
        raise TranslationError('%s, %s: %s: %s' % (self.owner, where(n), what, shape(n)))

    def may_tuple(self, n):
        if isinstance(n, ast.Tuple):
            return True
        if isinstance(n, ast.Name):
            return n.id in self.tuples
        if isinstance(n, ast.IfExp):
            return self.may_tuple(n.body) or self.may_tuple(n.orelse)
        if isinstance(n, ast.BoolOp):
            return any(self.may_tuple(v) for v in n.values)
        if isinstance(n, ast.BinOp):
            return self.may_tuple(n.left) or self.may_tuple(n.right)
        if isinstance(n, ast.Call) and is_name(n.func, 'tuple'):
            return True
        return False

    def free(self, name):
        return name not in self.vars

    def fresh(self):
        k = self.nslots
        self.nslots += 1
        return k

    def declare(self, nm):
        need(nm != self.self_name, '%s: assignment to self' % self.owner)
        need(nm not in BUILTINS and nm not in ISINSTANCE_CLS, '%s: assignment to %s' % (self.owner, nm))
        if nm not in self.vars:
            self.vars[nm] = self.fresh()
        return self.vars[nm]

    # -- expressions
    def exprs(self, lst):
        return '(exprs_of [%s])' % '; '.join(self.ex(a) for a in lst)

    def cargs(self, lst):
        out = []
        for a in lst:
            if isinstance(a, ast.Starred):
                out.append('Star (%s)' % self.ex(a.value))
            else:
                out.append('Pos (%s)' % self.ex(a))
        return '(cargs_of [%s])' % '; '.join(out)

    def clslist(self, t):
        elts = t.elts if isinstance(t, ast.Tuple) else [t]
        out = []
        for e in elts:
            need(isinstance(e, ast.Name) and e.id in ISINSTANCE_CLS and self.free(e.id),
                 '%s: isinstance against %s' % (self.owner, shape(e)))
            out.append(ISINSTANCE_CLS[e.id])
        return '[%s]' % '; '.join(out)

    def comprehension(self, n):
        need(len(n.generators) == 1, '%s: nested comprehension at %s' % (self.owner, where(n)))
        g = n.generators[0]
        need(not g.is_async, '%s: async comprehension' % self.owner)
        it = self.ex(g.iter)
        saved = dict(self.vars)
        if isinstance(g.target, ast.Name):
            x = self.fresh()
            self.vars[g.target.id] = x
            pat = 'PVar %d%%nat' % x
        elif isinstance(g.target, ast.Tuple) and len(g.target.elts) == 2 \
                and all(isinstance(e, ast.Name) for e in g.target.elts) \
                and g.target.elts[0].id != g.target.elts[1].id:
            i, x = self.fresh(), self.fresh()
            self.vars[g.target.elts[0].id] = i
            self.vars[g.target.elts[1].id] = x
            pat = 'PPair %d%%nat %d%%nat' % (i, x)
        else:
            self.err(n, 'unsupported comprehension target')
        for nm in (self.self_name,):
            need(self.vars.get(nm) == 0, '%s: comprehension rebinds self' % self.owner)
        if not g.ifs:
            cond = 'ETrue'
        else:
            parts = [self.ex(c) for c in g.ifs]
            cond = parts[-1]
            for p in reversed(parts[:-1]):
                cond = 'EAnd (%s) (%s)' % (p, cond)
        elt = self.ex(n.elt)
        self.vars = saved
        return 'EGen (%s) (%s) (%s) (%s)' % (pat, it, cond, elt)

    def ex(self, n):
        if isinstance(n, ast.Constant):
            if n.value is None:
                return 'ENone'
            if n.value is True:
                return 'ETrue'
            if n.value is False:
                return 'EFalse'
            if type(n.value) is int:
                return 'EInt %s' % zlit(n.value)
            if type(n.value) is str:
                return 'EStrLit %s' % strlit(n.value)
            self.err(n, 'unsupported constant')
        if isinstance(n, ast.UnaryOp):
            if isinstance(n.op, ast.USub) and isinstance(n.operand, ast.Constant) \
                    and type(n.operand.value) is int:
                return 'EInt %s' % zlit(-n.operand.value)
            if isinstance(n.op, ast.Not):
                return 'ENot (%s)' % self.ex(n.operand)
            self.err(n, 'unsupported unary operator')
        if isinstance(n, ast.Name):
            need(isinstance(n.ctx, ast.Load), 'name context')
            if n.id in self.vars:
                return 'EVar %d%%nat' % self.vars[n.id]
            self.err(n, 'name that is neither a parameter nor a local')
        if isinstance(n, ast.Attribute):
            need(isinstance(n.ctx, ast.Load), 'attribute context')
            if n.attr in ATTRS:
                return 'EAttr (%s) %s' % (self.ex(n.value), ATTRS[n.attr])
            self.err(n, 'unsupported attribute')
        if isinstance(n, ast.BinOp):
            if isinstance(n.op, ast.Add):
                need(not self.may_tuple(n.left) and not self.may_tuple(n.right),
                     '%s: `+` on what may be a tuple at %s' % (self.owner, where(n)))
                return 'EAdd (%s) (%s)' % (self.ex(n.left), self.ex(n.right))
            if isinstance(n.op, ast.Sub):
                return 'ESub (%s) (%s)' % (self.ex(n.left), self.ex(n.right))
            if isinstance(n.op, ast.Mod) and isinstance(n.left, ast.Constant) \
                    and type(n.left.value) is str:
                pieces = parse_format(n.left.value, self.owner, n)
                args = n.right.elts if isinstance(n.right, ast.Tuple) else [n.right]
                need(pieces.count('FHole') == len(args),
                     '%s: format arguments at %s' % (self.owner, where(n)))
                need(not any(isinstance(a, (ast.Tuple, ast.Starred, ast.Dict)) for a in args),
                     '%s: format argument shape at %s' % (self.owner, where(n)))
                return 'EFormat [%s] %s' % ('; '.join(pieces), self.exprs(args))
            self.err(n, 'unsupported binary operator')
        if isinstance(n, ast.BoolOp):
            need(len(n.values) >= 2, 'boolean operator')
            parts = [self.ex(v) for v in n.values]
            con = 'EAnd' if isinstance(n.op, ast.And) else 'EOr'
            out = parts[-1]
            for p in reversed(parts[:-1]):
                out = '%s (%s) (%s)' % (con, p, out)
            return out
        if isinstance(n, ast.IfExp):
            return 'EIfExp (%s) (%s) (%s)' % (self.ex(n.test), self.ex(n.body), self.ex(n.orelse))
        if isinstance(n, ast.Compare):
            if len(n.ops) != 1:
                self.err(n, 'chained comparison')
            a, b, op = self.ex(n.left), self.ex(n.comparators[0]), n.ops[0]
            if isinstance(op, ast.Is):
                return 'EIs (%s) (%s)' % (a, b)
            if isinstance(op, ast.IsNot):
                return 'ENot (EIs (%s) (%s))' % (a, b)
            if isinstance(op, ast.Eq):
                return 'EEq (%s) (%s)' % (a, b)
            if isinstance(op, ast.NotEq):
                return 'ENot (EEq (%s) (%s))' % (a, b)
            if isinstance(op, ast.In):
                return 'EIn (%s) (%s)' % (a, b)
            if isinstance(op, ast.NotIn):
                return 'ENot (EIn (%s) (%s))' % (a, b)
            if type(op) in CMPOPS:
                return 'ECmp %s (%s) (%s)' % (CMPOPS[type(op)], a, b)
            self.err(n, 'unsupported comparison')
        if isinstance(n, (ast.List, ast.Tuple)):
            # a tuple display is a VList too (EditDSL: a VList stands for a list or a tuple)
            need(isinstance(n.ctx, ast.Load), 'list context')
            need(not any(isinstance(e, ast.Starred) for e in n.elts), 'starred list display')
            return 'EListLit %s' % self.exprs(n.elts)
        if isinstance(n, ast.Subscript):
            need(isinstance(n.ctx, ast.Load), 'subscript context')
            idx = n.slice
            if isinstance(idx, getattr(ast, 'Index', ())):
                idx = idx.value
            if isinstance(idx, (ast.Slice, ast.Tuple)):
                self.err(n, 'slice / tuple subscript')
            return 'EIndex (%s) (%s)' % (self.ex(n.value), self.ex(idx))
        if isinstance(n, (ast.GeneratorExp, ast.ListComp)):
            return self.comprehension(n)
        if isinstance(n, ast.Call):
            need(not n.keywords, '%s: keyword arguments at %s' % (self.owner, where(n)))
            f, a = n.func, n.args
            nostar = not any(isinstance(x, ast.Starred) for x in a)
            if isinstance(f, ast.Name) and self.free(f.id):
                if f.id == 'isinstance' and len(a) == 2 and nostar:
                    return 'EIsInst (%s) %s' % (self.ex(a[0]), self.clslist(a[1]))
                one = {'list': 'EListOf', 'enumerate': 'EEnumerate', 'len': 'ELen', 'bool': 'EBoolOf',
                       'str': 'EStrOf', 'any': 'EAny', 'all': 'EAll', 'TexNode': 'ENewNode',
                       'TexText': 'ENewText'}
                if f.id in one and len(a) == 1 and nostar:
                    return '%s (%s)' % (one[f.id], self.ex(a[0]))
                if f.id == 'next' and len(a) == 2 and nostar:
                    return 'ENext (%s) (%s)' % (self.ex(a[0]), self.ex(a[1]))
                if f.id in ('max', 'min') and len(a) == 2 and nostar:
                    return 'EMinMax %s (%s) (%s)' % ('true' if f.id == 'max' else 'false',
                                                     self.ex(a[0]), self.ex(a[1]))
                if f.id == 'map' and len(a) == 2 and nostar and is_name(a[0], 'str') and self.free('str'):
                    x = self.fresh()
                    return 'EGen (PVar %d%%nat) (%s) (ETrue) (EStrOf (EVar %d%%nat))' % (x, self.ex(a[1]), x)
                self.err(n, 'unsupported call')
            if isinstance(f, ast.Attribute):
                if f.attr == 'join' and isinstance(f.value, ast.Constant) and type(f.value.value) is str \
                        and len(a) == 1 and nostar:
                    return 'EJoin %s (%s)' % (strlit(f.value.value), self.ex(a[0]))
                if isinstance(f.value, ast.Attribute) and f.value.attr in LIST_HOLDERS:
                    # a method of the list object
                    if f.attr in LOPS and len(a) in LOPS[f.attr][1] and nostar:
                        return 'ELop (%s) %s %s' % (self.ex(f.value), LOPS[f.attr][0], self.exprs(a))
                    self.err(n, 'unsupported list method')
                if f.attr in METHODS and f.attr != '__str__':
                    return 'ECall (%s) %s %s' % (self.ex(f.value), METHODS[f.attr], self.cargs(a))
            self.err(n, 'unsupported call')
        self.err(n, 'unsupported expression')

    # -- statements
    def target_pat(self, t):
        if isinstance(t, ast.Name):
            return 'PVar %d%%nat' % self.declare(t.id)
        if isinstance(t, ast.Tuple) and len(t.elts) == 2 and all(isinstance(e, ast.Name) for e in t.elts) \
                and t.elts[0].id != t.elts[1].id:
            return 'PPair %d%%nat %d%%nat' % (self.declare(t.elts[0].id), self.declare(t.elts[1].id))
        self.err(t, 'unsupported loop target')

    def stmt(self, s):
        if isinstance(s, ast.Expr):
            if isinstance(s.value, ast.Constant):
                self.err(s, 'constant expression statement')
            return ('atom', 'SExpr (%s)' % self.ex(s.value))
        if isinstance(s, ast.Assign):
            need(len(s.targets) == 1, '%s: chained assignment at %s' % (self.owner, where(s)))
            t = s.targets[0]
            val = self.ex(s.value)
            if isinstance(t, ast.Attribute):
                need(t.attr in ATTRS, '%s: assignment to .%s at %s' % (self.owner, t.attr, where(s)))
                return ('atom', 'SSetAttr (%s) %s (%s)' % (self.ex(t.value), ATTRS[t.attr], val))
            if isinstance(t, ast.Name):
                return ('atom', 'SAssign %d%%nat (%s)' % (self.declare(t.id), val))
            if isinstance(t, ast.Subscript) and isinstance(t.value, ast.Attribute) \
                    and t.value.attr in LIST_HOLDERS:
                # l[i] = v / l[a:b] = v on a list object: translated, outside the model (OUnsup)
                return ('atom', 'SStoreItem (%s) (%s)' % (self.ex(t.value), val))
            self.err(s, 'unsupported assignment target')
        if isinstance(s, ast.Delete):
            need(len(s.targets) == 1 and isinstance(s.targets[0], ast.Subscript),
                 '%s: del at %s' % (self.owner, where(s)))
            t = s.targets[0]
            idx = t.slice
            if isinstance(idx, getattr(ast, 'Index', ())):
                idx = idx.value
            need(not isinstance(idx, (ast.Slice, ast.Tuple)), '%s: del of a slice' % self.owner)
            return ('atom', 'SDelItem (%s) (%s)' % (self.ex(t.value), self.ex(idx)))
        if isinstance(s, ast.Return):
            return ('atom', 'SReturn (%s)' % (self.ex(s.value) if s.value is not None else 'ENone'))
        if isinstance(s, ast.If):
            return ('if', self.ex(s.test), self.block(s.body), self.block(s.orelse))
        if isinstance(s, ast.For):
            need(not s.orelse, '%s: for-else' % self.owner)
            it = self.ex(s.iter)
            pat = self.target_pat(s.target)
            self.loop_depth += 1
            body = self.block(s.body)
            self.loop_depth -= 1
            return ('for', pat, it, body)
        if isinstance(s, ast.Continue):
            need(self.loop_depth > 0, '%s: continue outside a loop' % self.owner)
            return ('atom', 'SContinue')
        if isinstance(s, ast.Assert):
            need(s.msg is None or safe_message(s.msg), '%s: assert message at %s' % (self.owner, where(s)))
            return ('atom', 'SAssert (%s)' % self.ex(s.test))
        if isinstance(s, ast.Raise):
            need(s.cause is None and isinstance(s.exc, ast.Call) and isinstance(s.exc.func, ast.Name)
                 and s.exc.func.id in EXNS and self.free(s.exc.func.id) and not s.exc.keywords
                 and all(safe_message(a) for a in s.exc.args),
                 '%s: unsupported raise at %s' % (self.owner, where(s)))
            return ('atom', 'SRaise %s' % s.exc.func.id)
        if isinstance(s, ast.Pass):
            return ('atom', 'SPass')
        self.err(s, 'unsupported statement')

    def block(self, body):
        return [self.stmt(s) for s in body]


def default_value(owner, n):
    if isinstance(n, ast.Constant) and n.value is None:
        return 'VNone'
    if isinstance(n, ast.Constant) and type(n.value) is int:
        return 'VInt %s' % zlit(n.value)
    if isinstance(n, ast.Constant) and type(n.value) is str:
        return 'VStr %s' % strlit(n.value)
    raise TranslationError('%s: unsupported default %s' % (owner, shape(n)))


def translate_function(owner, fn):
    sc = Scope(owner, fn)
    a = fn.args
    names = [x.arg for x in a.args[1:]]
    nd = len(a.defaults)
    need(nd <= len(names), '%s: default for self' % owner)
    params = ['None'] * (len(names) - nd) + ['Some (%s)' % default_value(owner, d) for d in a.defaults]
    body = strip_doc(fn.body)
    need(body, '%s: empty body' % owner)
    return params, bool(a.vararg), sc.block(body)


def pp_block(items, ind):
    pad = ' ' * ind
    if not items:
        return [pad + '(blk [])']
    out = [pad + '(blk [']
    for i, it in enumerate(items):
        lines = pp_stmt(it, ind + 2)
        if i < len(items) - 1:
            lines[-1] += ';'
        out.extend(lines)
    out[-1] += '])'
    return out


def pp_stmt(it, ind):
    pad = ' ' * ind
    if it[0] == 'atom':
        return [pad + it[1]]
    if it[0] == 'if':
        return [pad + 'SIf (%s)' % it[1]] + pp_block(it[2], ind + 2) + pp_block(it[3], ind + 2)
    if it[0] == 'for':
        return [pad + 'SFor (%s) (%s)' % (it[1], it[2])] + pp_block(it[3], ind + 2)
    raise TranslationError('internal: %r' % (it,))


def collect_members(classes):
    """[(class, coq member, definition name, FunctionDef)] in a fixed order"""
    out = []
    seen_math = False
    for nm in CLASS_ORDER:
        cl = classes[nm]
        got = {}
        for st in cl.body:
            if not isinstance(st, ast.FunctionDef):
                continue
            kind, pname = prop_kind(st)
            if kind == 'method':
                if nm == 'TexArgs' and st.name != '__str__':
                    continue      # the list methods of TexArgs: gen_args.py
                if st.name in METHODS:
                    key = (METHODS[st.name], st.name.strip('_'))
                elif st.name in PROPS:
                    raise TranslationError('%s.%s is a plain method' % (nm, st.name))
                else:
                    continue
            elif kind in ('getter', 'getter_to_list'):
                if pname in METHODS:
                    raise TranslationError('%s.%s is a property' % (nm, pname))
                if pname not in PROPS:
                    continue
                if (nm, pname) in UNTRANSLATED_GETTERS:
                    continue
                need(kind == 'getter', '%s.%s: @to_list getter' % (nm, pname))
                key = ('M_get %s' % ATTRS[pname], 'get_' + pname)
            elif kind == 'setter':
                if pname not in PROPS:
                    continue
                key = ('M_set %s' % ATTRS[pname], 'set_' + pname)
            else:   # classmethod, other decorators
                need(st.name not in METHODS and st.name not in PROPS,
                     '%s.%s is a classmethod' % (nm, st.name))
                continue
            if nm == 'TexArgs' and key[0] != 'M_str':
                continue
            need(key not in got, '%s.%s is defined twice' % (nm, st.name))
            got[key] = st
            need(nm not in MATH, 'a math class defines %s' % st.name)
            out.append((nm, key[0], 'gen_e_%s_%s' % (nm, key[1]), st))
        # `contents` / `string`: only where the interpreter expects them
        for st in cl.body:
            if isinstance(st, ast.FunctionDef) and st.name in ('contents', 'string'):
                need(nm in ('TexNode', 'TexExpr'), '%s defines %s' % (nm, st.name))
        # every class member named like a TexArgs list method would shadow nothing here
    # the untranslated getters must exist
    for cn, pn in sorted(UNTRANSLATED_GETTERS):
        g = [st for st in classes[cn].body if isinstance(st, ast.FunctionDef) and st.name == pn
             and prop_kind(st)[0].startswith('getter')]
        need(len(g) == 1, '%s.%s getter' % (cn, pn))
    return out


def generate():
    def load(name):
        with open(os.path.join(REPO, 'TexSoup', name)) as f:
            return ast.parse(f.read())
    data = normalise_module(load('data.py'))
    classes = check_data_module(data)
    check_utils_module(normalise_module(load('utils.py'), (('Token', 'Empty'),)))
    check_tex_module(load('tex.py'))
    members = collect_members(classes)
    have = {(c, m) for c, m, _, _ in members}
    for req in [('TexExpr', 'M_append'), ('TexExpr', 'M_insert'), ('TexExpr', 'M_remove'),
                ('TexExpr', 'M_supports'), ('TexExpr', 'M_assert_supports'),
                ('TexCmd', 'M_supports'), ('TexCmd', 'M_assert_supports'), ('TexCmd', 'M_str'),
                ('TexEnv', 'M_str'), ('TexText', 'M_str'), ('TexArgs', 'M_str'), ('TexNode', 'M_str'),
                ('TexNode', 'M_append'), ('TexNode', 'M_insert'), ('TexNode', 'M_remove'),
                ('TexNode', 'M_delete'), ('TexNode', 'M_replace'), ('TexNode', 'M_replace_with'),
                ('TexNode', 'M_copy'), ('TexNode', 'M_set A_name'), ('TexNode', 'M_set A_args'),
                ('TexNode', 'M_set A_string'), ('TexNode', 'M_set A_contents'),
                ('TexExpr', 'M_set A_string'), ('TexExpr', 'M_set A_contents'),
                ('TexEnv', 'M_get A_begin'), ('TexEnv', 'M_get A_end'),
                ('TexNamedEnv', 'M_get A_begin'), ('TexNamedEnv', 'M_get A_end'),
                ('TexNode', 'M_get A_name'), ('TexNode', 'M_get A_args')]:
        need(req in have, '%s.%s is gone' % req)
    out = []
    w = out.append
    w('(* GENERATED by harness/gen_edit.py from the editing methods of TexSoup/data.py -- do not edit.')
    w('   See EditDSL.v for the meaning. *)')
    w('From Coq Require Import List NArith ZArith.')
    w('From TexModel Require Import Base Tree Edit EditDSL.')
    w('Import ListNotations.')
    w('')
    for cn, coqm, dname, fn in members:
        params, star, prog = translate_function('%s.%s' % (cn, fn.name), fn)
        w('(* %s.%s%s *)' % (cn, fn.name, ' (setter)' if coqm.startswith('M_set') else ''))
        w('Definition %s : mdef :=' % dname)
        w('  mkM [%s] %s' % ('; '.join(params), 'true' if star else 'false'))
        lines = pp_block(prog, 4)
        lines[-1] += '.'
        out.extend(lines)
        w('')
    w('Definition gen_e_tbl : table := fun c m =>\n  match c, m with')
    for cn, coqm, dname, fn in members:
        w('  | %s, %s => Some %s' % (CLS[cn], coqm, dname))
    w('  | _, _ => None')
    w('  end.')
    return '\n'.join(out) + '\n'


def main():
    outp = sys.argv[1]
    try:
        txt = generate()
    except TranslationError as e:
        sys.stderr.write('TRANSLATION-FAILED: %s\n' % e)
        return 2
    except Exception as e:   # noqa
        sys.stderr.write('TRANSLATION-FAILED: %s: %s\n' % (type(e).__name__, e))
        return 2
    old = None
    if os.path.exists(outp):
        with open(outp) as f:
            old = f.read()
    if old != txt:
        with open(outp, 'w') as f:
            f.write(txt)
        print('EditGen.v rewritten')
    else:
        print('EditGen.v unchanged')
    return 0


if __name__ == '__main__':
    sys.exit(main())
