#!/venv/bin/python
"""Translator: regenerate coq/theories/Model/RegexGen.v from
`TexNode.search_regex` of $TEXSOUP_REPO/TexSoup/data.py (default /repo).

The def is read with the Python `ast` module only (nothing is imported or
executed) and written as a term of the language of
coq/theories/Model/RegexDSL.v, one Coq constructor per Python construct.
Proofs/RegexGenProofs.v then proves that running the generated program is
Model/Regex.v's `search_regex` for every engine `finditer` and every node.

The language: `for x in e:`, `x = e`, `yield e` (as a statement), and the
expressions  local | self.text | int literal | re.finditer(pattern, e, **kwargs)
| e.position | e.group() / e.group(0) | e.start() | e.end() | e + e | e - e
| Token(e, e) | Token(e).

Fail-closed: any other statement or expression raises TranslationError, as
does a change of what the reading relies on: `import re` / `from TexSoup.utils
import ... Token ...` being the only module-level bindings of `re` / `Token`;
TexNode defining search_regex exactly once, undecorated, with the parameters
(self, pattern, **kwargs), as a generator; `text` being a property of TexNode;
a local named like a parameter, `re` or `Token`; global/nonlocal/del, nested
defs, lambdas, comprehensions, yield used as an expression.

The output depends on the abstract syntax only: comments, docstrings, layout
and the names of parameters and locals (numbered by first binding) do not
change it.  Nothing is reordered: `a + b` and `b + a` are different programs.

Usage: gen_regex.py <out.v>       exit 0 = written (only if content changed)
                                  exit 2 = translation failed (message on stderr)
"""
import ast
import os
import sys

REPO = os.environ.get('TEXSOUP_REPO', '/repo')


class TranslationError(Exception):
    pass


def need(cond, msg):
    if not cond:
        raise TranslationError(msg)


def where(n):
    return 'line %s' % getattr(n, 'lineno', '?')


def shape(n):
    return ast.dump(n)[:120]


def is_name(n, ident):
    return isinstance(n, ast.Name) and n.id == ident


def strip_doc(body):
    if body and isinstance(body[0], ast.Expr) and isinstance(body[0].value, ast.Constant) \
            and isinstance(body[0].value.value, str):
        return body[1:]
    return body


def zlit(v):
    return '%d%%Z' % v if v >= 0 else '(%d)%%Z' % v


def module_bindings(tree):
    bound = {}

    def bind(name, how):
        bound.setdefault(name, []).append(how)

    for n in ast.walk(tree):
        # module-level bindings made anywhere outside a def/class body are found by
        # walking the module statements (if/try at module level included)
        pass

    def visit(stmts):
        for st in stmts:
            if isinstance(st, ast.ImportFrom):
                for a in st.names:
                    need(a.name != '*', 'star import at %s' % where(st))
                    bind(a.asname or a.name, 'from %s import %s' % (st.module, a.name))
            elif isinstance(st, ast.Import):
                for a in st.names:
                    bind((a.asname or a.name).split('.')[0],
                         'import %s%s' % (a.name, ' as ' + a.asname if a.asname else ''))
            elif isinstance(st, (ast.FunctionDef, ast.ClassDef, ast.AsyncFunctionDef)):
                bind(st.name, 'def')
            elif isinstance(st, (ast.Assign, ast.AnnAssign, ast.AugAssign)):
                for t in (st.targets if isinstance(st, ast.Assign) else [st.target]):
                    for x in ast.walk(t):
                        if isinstance(x, ast.Name) and isinstance(x.ctx, ast.Store):
                            bind(x.id, 'assign')
            elif isinstance(st, ast.Expr) and isinstance(st.value, ast.Constant):
                pass
            else:
                raise TranslationError('unexpected module-level statement at %s: %s' % (where(st), shape(st)))
    visit(tree.body)
    return bound


def find_def(tree):
    need(isinstance(tree, ast.Module), 'not a module')
    bound = module_bindings(tree)
    need(bound.get('re') == ['import re'], 'binding of `re` changed: %s' % bound.get('re'))
    need(bound.get('Token') == ['from TexSoup.utils import Token'],
         'binding of `Token` changed: %s' % bound.get('Token'))
    need(bound.get('TexNode') == ['def'], 'binding of TexNode changed: %s' % bound.get('TexNode'))
    for n in ast.walk(tree):
        if isinstance(n, (ast.Global, ast.Nonlocal)):
            need(not any(x in ('re', 'Token') for x in n.names), 'global/nonlocal re/Token at %s' % where(n))
        if isinstance(n, ast.Attribute) and is_name(n.value, 're') and not isinstance(n.ctx, ast.Load):
            raise TranslationError('assignment to re.%s at %s' % (n.attr, where(n)))
        if isinstance(n, ast.Call) and isinstance(n.func, ast.Name) \
                and n.func.id in ('exec', 'eval', '__import__', 'globals'):
            raise TranslationError('%s(...) at %s' % (n.func.id, where(n)))
    cl = [st for st in tree.body if isinstance(st, ast.ClassDef) and st.name == 'TexNode']
    need(len(cl) == 1, 'TexNode is not a module-level class')
    cl = cl[0]
    need(not cl.decorator_list and not cl.keywords, 'decorators/keywords of TexNode changed')
    defs = [st for st in cl.body if isinstance(st, (ast.FunctionDef, ast.AsyncFunctionDef))
            and st.name == 'search_regex']
    need(len(defs) == 1 and isinstance(defs[0], ast.FunctionDef),
         'TexNode defines search_regex %d times' % len(defs))
    for st in cl.body:
        if isinstance(st, (ast.Assign, ast.AnnAssign, ast.AugAssign)):
            for t in (st.targets if isinstance(st, ast.Assign) else [st.target]):
                need(not any(isinstance(x, ast.Name) and x.id in ('search_regex', 'text') for x in ast.walk(t)),
                     'class-level assignment to search_regex/text at %s' % where(st))
    texts = [st for st in cl.body if isinstance(st, (ast.FunctionDef, ast.AsyncFunctionDef))
             and st.name == 'text']
    # `text` is read through a property (the view translated by gen_views.py); a setter may follow
    need(texts and isinstance(texts[0], ast.FunctionDef) and texts[0].decorator_list
         and is_name(texts[0].decorator_list[0], 'property')
         and all(isinstance(t, ast.FunctionDef) and len(t.decorator_list) == 1
                 and isinstance(t.decorator_list[0], ast.Attribute)
                 and is_name(t.decorator_list[0].value, 'text') for t in texts[1:]),
         '`text` is not a property of TexNode')
    need('property' not in bound, '`property` is rebound at module level')
    return defs[0]


class Scope(object):
    def __init__(self, fn):
        a = fn.args
        need(not fn.decorator_list, 'search_regex has a decorator')
        need(not a.vararg and not a.kwonlyargs and not a.kw_defaults and not a.defaults
             and not getattr(a, 'posonlyargs', []) and len(a.args) == 2 and a.kwarg is not None,
             'search_regex: parameters are not (self, pattern, **kwargs)')
        self.self_name = a.args[0].arg
        self.pattern = a.args[1].arg
        self.kwargs = a.kwarg.arg
        self.reserved = (self.self_name, self.pattern, self.kwargs, 're', 'Token')
        need(len(set((self.self_name, self.pattern, self.kwargs))) == 3, 'search_regex: repeated parameter')
        need(not any(x in ('re', 'Token') for x in (self.self_name, self.pattern, self.kwargs)),
             'search_regex: a parameter is named re/Token')
        self.vars = {}
        for n in ast.walk(fn):
            need(not isinstance(n, (ast.FunctionDef, ast.AsyncFunctionDef, ast.ClassDef, ast.Lambda,
                                    ast.YieldFrom, ast.Await, ast.With, ast.Import, ast.ImportFrom,
                                    ast.While, ast.Try, ast.NamedExpr, ast.GeneratorExp, ast.ListComp,
                                    ast.SetComp, ast.DictComp, ast.Raise, ast.Starred, ast.AugAssign,
                                    ast.Global, ast.Nonlocal, ast.Delete, ast.Return, ast.Break,
                                    ast.Continue, ast.If, ast.IfExp, ast.AsyncFor, ast.AsyncWith)) or n is fn,
                 'search_regex: unsupported construct at %s: %s' % (where(n), type(n).__name__))
        self.yields = 0

    def err(self, n, what):
        raise TranslationError('search_regex, %s: %s: %s' % (where(n), what, shape(n)))

    def bind(self, t, ctx):
        if not isinstance(t, ast.Name):
            self.err(ctx, 'target is not a plain name')
        need(t.id not in self.reserved, 'search_regex: assignment to %s at %s' % (t.id, where(ctx)))
        if t.id not in self.vars:
            self.vars[t.id] = len(self.vars)
        return self.vars[t.id]

    def ex(self, n):
        if isinstance(n, ast.Constant) and type(n.value) is int:
            return 'RInt %s' % zlit(n.value)
        if isinstance(n, ast.UnaryOp) and isinstance(n.op, ast.USub) and isinstance(n.operand, ast.Constant) \
                and type(n.operand.value) is int:
            return 'RInt %s' % zlit(-n.operand.value)
        if isinstance(n, ast.Name):
            need(isinstance(n.ctx, ast.Load), 'name context')
            if n.id in self.vars:
                return 'RVar %d%%nat' % self.vars[n.id]
            self.err(n, 'name that is not a local bound before this point')
        if isinstance(n, ast.Attribute):
            if not isinstance(n.ctx, ast.Load):
                self.err(n, 'attribute is not read')
            if is_name(n.value, self.self_name):
                if n.attr == 'text':
                    return 'RSelfText'
                self.err(n, 'unsupported attribute of self')
            if n.attr == 'position':
                return 'RPosition (%s)' % self.ex(n.value)
            self.err(n, 'unsupported attribute')
        if isinstance(n, ast.BinOp):
            if isinstance(n.op, ast.Add):
                return 'RAdd (%s) (%s)' % (self.ex(n.left), self.ex(n.right))
            if isinstance(n.op, ast.Sub):
                return 'RSub (%s) (%s)' % (self.ex(n.left), self.ex(n.right))
            self.err(n, 'unsupported binary operator')
        if isinstance(n, ast.Call):
            f, a, k = n.func, n.args, n.keywords
            if isinstance(f, ast.Attribute) and is_name(f.value, 're') and 're' not in self.vars:
                if (f.attr == 'finditer' and len(a) == 2 and is_name(a[0], self.pattern)
                        and len(k) == 1 and k[0].arg is None and is_name(k[0].value, self.kwargs)):
                    return 'RFinditer (%s)' % self.ex(a[1])
                self.err(n, 'unsupported call of module re')
            if isinstance(f, ast.Name) and f.id == 'Token' and 'Token' not in self.vars and not k:
                if len(a) == 2:
                    return 'RToken (%s) (%s)' % (self.ex(a[0]), self.ex(a[1]))
                if len(a) == 1:
                    return 'RToken1 (%s)' % self.ex(a[0])
                self.err(n, 'unsupported Token(...)')
            if isinstance(f, ast.Attribute) and not k and not is_name(f.value, self.self_name):
                if f.attr == 'group' and (len(a) == 0 or (len(a) == 1 and isinstance(a[0], ast.Constant)
                                                         and type(a[0].value) is int and a[0].value == 0)):
                    return 'RGroup (%s)' % self.ex(f.value)
                if f.attr == 'start' and not a:
                    return 'RStart (%s)' % self.ex(f.value)
                if f.attr == 'end' and not a:
                    return 'REnd (%s)' % self.ex(f.value)
            self.err(n, 'unsupported call')
        self.err(n, 'unsupported expression')

    def stmt(self, s):
        if isinstance(s, ast.Assign):
            need(len(s.targets) == 1, 'search_regex: chained assignment at %s' % where(s))
            val = self.ex(s.value)          # evaluated before the target is bound
            i = self.bind(s.targets[0], s)
            return ('atom', 'SAssign %d%%nat (%s)' % (i, val))
        if isinstance(s, ast.Expr) and isinstance(s.value, ast.Yield):
            need(s.value.value is not None, 'search_regex: bare yield at %s' % where(s))
            self.yields += 1
            return ('atom', 'SYield (%s)' % self.ex(s.value.value))
        if isinstance(s, ast.For):
            need(not s.orelse, 'search_regex: for/else at %s' % where(s))
            it = self.ex(s.iter)            # evaluated before the target is bound
            i = self.bind(s.target, s)
            need(s.body, 'empty loop body')
            return ('for', 'SFor %d%%nat (%s)' % (i, it), self.block(s.body))
        self.err(s, 'unsupported statement')

    def block(self, body):
        return [self.stmt(s) for s in body]


def pp_block(items, ind):
    pad = ' ' * ind
    if not items:
        return [pad + '[]']
    out = [pad + '[']
    for i, it in enumerate(items):
        lines = pp_stmt(it, ind + 2)
        if i < len(items) - 1:
            lines[-1] += ';'
        out.extend(lines)
    out[-1] += ']'
    return out


def pp_stmt(it, ind):
    pad = ' ' * ind
    if it[0] == 'atom':
        return [pad + it[1]]
    if it[0] == 'for':
        return [pad + it[1]] + pp_block(it[2], ind + 2)
    raise TranslationError('internal: %r' % (it,))


def generate():
    with open(os.path.join(REPO, 'TexSoup', 'data.py')) as f:
        tree = ast.parse(f.read())
    fn = find_def(tree)
    sc = Scope(fn)
    body = strip_doc(fn.body)
    need(body, 'search_regex: empty body')
    prog = sc.block(body)
    # generator-ness: a yield statement was translated, and no yield is left anywhere else
    total = sum(1 for n in ast.walk(fn) if isinstance(n, ast.Yield))
    need(sc.yields >= 1, 'search_regex is not a generator (no yield)')
    need(total == sc.yields, 'search_regex: yield used as an expression')
    out = []
    w = out.append
    w('(* GENERATED by harness/gen_regex.py from TexNode.search_regex of TexSoup/data.py -- do not edit.')
    w('   See RegexDSL.v for the meaning. *)')
    w('From Coq Require Import List NArith ZArith.')
    w('From TexModel Require Import RegexDSL.')
    w('Import ListNotations.')
    w('')
    w('(* def search_regex(self, pattern, **kwargs) *)')
    w('Definition gen_search_regex : program :=')
    lines = pp_block(prog, 2)
    lines[-1] += '.'
    out.extend(lines)
    return '\n'.join(out) + '\n'


def main():
    outp = sys.argv[1]
    try:
        txt = generate()
    except TranslationError as e:
        sys.stderr.write('TRANSLATION-FAILED: %s\n' % e)
        return 2
    except Exception as e:   # noqa
        sys.stderr.write('TRANSLATION-FAILED: %s: %s\n' % (type(e).__name__, e))
        return 2
    old = None
    if os.path.exists(outp):
        with open(outp) as f:
            old = f.read()
    if old != txt:
        with open(outp, 'w') as f:
            f.write(txt)
        print('RegexGen.v rewritten')
    else:
        print('RegexGen.v unchanged')
    return 0


if __name__ == '__main__':
    sys.exit(main())
