#!/venv/bin/python
"""Translator: regenerate coq/theories/Model/Tables.v from /repo's working tree.

Literal tables and the inline category lists of the token rules are read from
the Python `ast` of the sources (fail-closed: an unexpected shape raises).  A
list or dict that has been hoisted into a module-level literal constant is read
through the name (resolved in the module's AST, see
gen_tokrules.module_constants); when the rules are not in the shape this
reader knows, it reads them again in the normal form gen_tokrules.py
translates (helpers inlined, early returns turned into nesting, ...); only when
that fails too are the previous tables kept (TRANSLATION-PARTIAL).
Computed tables are obtained by importing the modules in this (fresh)
interpreter and dumping the objects; sets are dumped sorted.

Usage: gen_tables.py <out.v>      exit 0 = written (only if content changed)
                                  exit 2 = translation failed (message on stderr)
"""
import ast
import copy
import re
import os
import sys

import gen_tokrules

REPO = os.environ.get('TEXSOUP_REPO', '/repo')
sys.path.insert(0, REPO)


class TranslationError(Exception):
    pass


def need(cond, msg):
    if not cond:
        raise TranslationError(msg)


CC_NAMES = ['Escape', 'GroupBegin', 'GroupEnd', 'MathSwitch', 'Alignment', 'EndOfLine', 'Macro',
            'Superscript', 'Subscript', 'Ignored', 'Spacer', 'Letter', 'Other', 'Active',
            'Comment', 'Invalid', 'MathGroupBegin', 'MathGroupEnd', 'BracketBegin', 'BracketEnd',
            'ParenBegin', 'ParenEnd']
TC_NAMES = ['Escape', 'GroupBegin', 'GroupEnd', 'Comment', 'MergedSpacer', 'EscapedComment',
            'MathSwitch', 'DisplayMathSwitch', 'MathGroupBegin', 'MathGroupEnd',
            'DisplayMathGroupBegin', 'DisplayMathGroupEnd', 'LineBreak', 'CommandName', 'Text',
            'BracketBegin', 'BracketEnd', 'ParenBegin', 'ParenEnd', 'PunctuationCommandName',
            'SizeCommand', 'Spacer']
RULES = ['escaped_symbols', 'comment', 'math_sym_switch', 'math_asym_switch', 'line_break',
         'ignore', 'spacers', 'symbols', 'punctuation_command_name', 'command_name', 'string']


def cc(n):
    need(n in CC_NAMES, 'unknown category code %r' % n)
    return 'C' + n


def tc(n):
    need(n in TC_NAMES, 'unknown token code %r' % n)
    return 'T' + n


def cps(s):
    return '[' + '; '.join(str(ord(c)) for c in s) + ']%N'


def lst(items):
    return '[' + '; '.join(items) + ']'


def parse_file(name):
    with open(os.path.join(REPO, 'TexSoup', name)) as f:
        return gen_tokrules.strip_annotations(ast.parse(f.read()))


def func(tree, name):
    for n in ast.walk(tree):
        if isinstance(n, ast.FunctionDef) and n.name == name:
            return n
    raise TranslationError('function %s not found' % name)


def attr_name(n, base):
    """CC.Foo -> 'Foo' (base = 'CC' / 'TC')"""
    need(isinstance(n, ast.Attribute) and isinstance(n.value, ast.Name) and n.value.id == base,
         'expected %s.<name>, got %s' % (base, ast.dump(n)[:80]))
    return n.attr


def membership_lists(fn, base='CC'):
    """every tuple of CC.x used with in / not in inside fn, in source order"""
    out = []
    for n in ast.walk(fn):
        if isinstance(n, ast.Compare) and len(n.ops) == 1 and \
                isinstance(n.ops[0], (ast.In, ast.NotIn)) and isinstance(n.comparators[0], ast.Tuple):
            elts = n.comparators[0].elts
            if all(isinstance(e, ast.Attribute) for e in elts):
                out.append((type(n.ops[0]).__name__, [attr_name(e, base) for e in elts], n.lineno))
    out.sort(key=lambda t: t[2])
    return out


def eq_constants(fn, base='CC'):
    """every CC.x compared with == / != inside fn, in source order"""
    out = []
    for n in ast.walk(fn):
        if isinstance(n, ast.Compare) and len(n.ops) == 1 and \
                isinstance(n.ops[0], (ast.Eq, ast.NotEq)) and \
                isinstance(n.comparators[0], ast.Attribute) and \
                isinstance(n.comparators[0].value, ast.Name) and n.comparators[0].value.id == base:
            out.append((type(n.ops[0]).__name__, n.comparators[0].attr, n.lineno, n.col_offset))
    out.sort(key=lambda t: (t[2], t[3]))
    return [(a, b) for a, b, _, _ in out]


def dict_literal(fn):
    """the one dict literal assigned to a local of fn (whatever its name)"""
    found = [n.value for n in ast.walk(fn)
             if isinstance(n, ast.Assign) and len(n.targets) == 1 and
             isinstance(n.targets[0], ast.Name) and isinstance(n.value, ast.Dict)]
    need(len(found) == 1, '%s: expected one dict literal, found %d' % (fn.name, len(found)))
    return found[0]


def light_bindings(tree):
    """{name: [how]} for the module-level bindings of tree (never raises)"""
    bound = {}

    def bind(name, how):
        bound.setdefault(name, []).append(how)
    for st in tree.body:
        if isinstance(st, ast.ImportFrom):
            for a in st.names:
                bind(a.asname or a.name, 'from %s import %s' % (st.module, a.name))
        elif isinstance(st, ast.Import):
            for a in st.names:
                bind((a.asname or a.name).split('.')[0], 'import')
        elif isinstance(st, (ast.FunctionDef, ast.ClassDef)):
            bind(st.name, 'def')
        elif isinstance(st, ast.Assign):
            for t in st.targets:
                for x in ast.walk(t):
                    if isinstance(x, ast.Name):
                        bind(x.id, 'assign')
        else:
            for x in ast.walk(st):
                if isinstance(x, ast.Name) and isinstance(x.ctx, (ast.Store, ast.Del)):
                    bind(x.id, 'other')
    for n in ast.walk(tree):
        if isinstance(n, (ast.Global, ast.Nonlocal)):
            for nm in n.names:
                bind(nm, 'global')
    return bound


def rule_getter(tk, level):
    """name of a rule function -> its FunctionDef.
    level 0: the source as written, literal module-level constants inlined;
    level 1: the normal form that gen_tokrules.py translates."""
    try:
        if level == 0:
            bound = light_bindings(tk)
            for nm in ('frozenset', 'tuple', 'set', 'list'):
                need(nm not in bound, 'builtin %s is rebound' % nm)
            consts = gen_tokrules.module_constants(tk, bound)

            def get(name):
                fn = copy.deepcopy(func(tk, name))
                gen_tokrules.inline_constants(fn, consts)
                return gen_tokrules.renumber(fn)
            return get
        table = dict((fn.name, fn) for _, fn in gen_tokrules.normalised_rules(tk))

        def get1(name):
            need(name in table, 'function %s not found' % name)
            return table[name]
        return get1
    except gen_tokrules.TranslationError as e:
        raise TranslationError(str(e))


def assigned_category(fn):
    """result.category = TC.X  assignments, in source order"""
    out = []
    for n in ast.walk(fn):
        if isinstance(n, ast.Assign) and len(n.targets) == 1 and \
                isinstance(n.targets[0], ast.Attribute) and n.targets[0].attr == 'category' and \
                isinstance(n.value, ast.Attribute):
            out.append((attr_name(n.value, 'TC'), n.lineno))
    out.sort(key=lambda t: t[1])
    return [a for a, _ in out]


STALE = []
NOTES = []
OUTP = [None]


def previous_definitions(names):
    """the one-line definitions of `names` in the existing Tables.v, or None"""
    try:
        with open(OUTP[0]) as f:
            txt = f.read()
    except (OSError, TypeError):
        return None
    res = {}
    for nm in names:
        m = re.search(r'^Definition %s .*?\.$' % re.escape(nm), txt, re.M)
        if m is None:
            return None
        res[nm] = m.group(0)
    return res


def str_seq(val, what):
    """a tuple/list of names as is, a set/frozenset sorted"""
    need(isinstance(val, (tuple, list, set, frozenset)) and all(isinstance(x, str) for x in val), what)
    return list(val) if isinstance(val, (tuple, list)) else sorted(val)


def read_rule_tables(w, get):
    """the inline category lists of the token rules, with a fingerprint of each
    rule's tests; get: function name -> FunctionDef (see rule_getter)"""
    # escaped symbols
    f = get('tokenize_escaped_symbols')
    ml = membership_lists(f)
    need(len(ml) == 1 and ml[0][0] == 'In', 'tokenize_escaped_symbols: expected one `in` list')
    need(eq_constants(f) == [('Eq', 'Escape')], 'tokenize_escaped_symbols: head test changed')
    need(assigned_category(f) == ['EscapedComment'], 'tokenize_escaped_symbols: category changed')
    w('Definition escaped_second_cats : list cc := ' + lst([cc(n) for n in ml[0][1]]) + '.')
    # comment
    f = get('tokenize_line_comment')
    need(eq_constants(f) == [('Eq', 'Comment'), ('NotEq', 'Comment'), ('NotEq', 'EndOfLine')],
         'tokenize_line_comment: tests changed: %s' % eq_constants(f))
    need(assigned_category(f) == ['Comment'], 'tokenize_line_comment: category changed')
    # math sym
    f = get('tokenize_math_sym_switch')
    need(eq_constants(f) == [('Eq', 'MathSwitch'), ('Eq', 'MathSwitch')], 'tokenize_math_sym_switch changed')
    need(assigned_category(f) == ['DisplayMathSwitch', 'MathSwitch'], 'tokenize_math_sym_switch categories')
    # math asym
    f = get('tokenize_math_asym_switch')
    d = dict_literal(f)
    rows = []
    for k, v in zip(d.keys, d.values):
        need(isinstance(k, ast.Tuple) and len(k.elts) == 2, 'asym mapping key')
        rows.append('((%s, %s), %s)' % (cc(attr_name(k.elts[0], 'CC')), cc(attr_name(k.elts[1], 'CC')),
                                        tc(attr_name(v, 'TC'))))
    w('Definition asym_map : list ((cc * cc) * tc) := ' + lst(rows) + '.')
    # line break
    f = get('tokenize_line_break')
    need(eq_constants(f) == [('Eq', 'Escape'), ('Eq', 'Escape')], 'tokenize_line_break changed')
    need(assigned_category(f) == ['LineBreak'], 'tokenize_line_break category')
    # ignore
    f = get('tokenize_ignore')
    ml = membership_lists(f)
    need(len(ml) == 1 and ml[0][0] == 'In', 'tokenize_ignore: expected one `in` list')
    w('Definition ignore_cats : list cc := ' + lst([cc(n) for n in ml[0][1]]) + '.')
    # spacers
    f = get('tokenize_spacers')
    need(eq_constants(f) == [('Eq', 'Spacer'), ('Eq', 'EndOfLine'), ('Eq', 'Spacer')],
         'tokenize_spacers: tests changed: %s' % eq_constants(f))
    ml = membership_lists(f)
    need(len(ml) == 1 and ml[0][0] == 'In', 'tokenize_spacers: expected one `in` list')
    need(assigned_category(f) == ['MergedSpacer'], 'tokenize_spacers category')
    w('Definition spacer_rollback_cats : list cc := ' + lst([cc(n) for n in ml[0][1]]) + '.')
    # symbols
    f = get('tokenize_symbols')
    d = dict_literal(f)
    rows = ['(%s, %s)' % (cc(attr_name(k, 'CC')), tc(attr_name(v, 'TC'))) for k, v in zip(d.keys, d.values)]
    w('Definition symbols_map : list (cc * tc) := ' + lst(rows) + '.')
    # punctuation
    f = get('tokenize_punctuation_command_name')
    need(eq_constants(f) == [('Eq', 'Escape')], 'tokenize_punctuation_command_name changed')
    need(assigned_category(f) == ['PunctuationCommandName'], 'punctuation category')
    # command name
    f = get('tokenize_command_name')
    need(eq_constants(f) == [('Eq', 'Escape'), ('Eq', 'Letter'), ('Eq', 'Letter')],
         'tokenize_command_name changed: %s' % eq_constants(f))
    stars = [n.value for n in ast.walk(f) if isinstance(n, ast.Constant) and isinstance(n.value, str)
             and len(n.value) == 1]
    need(stars == ['*'], 'tokenize_command_name: star literal changed: %s' % stars)
    need(assigned_category(f) == ['CommandName'], 'command_name category')
    # string
    f = get('tokenize_string')
    ml = membership_lists(f)
    need(len(ml) == 1 and ml[0][0] == 'NotIn', 'tokenize_string: expected one `not in` list')
    w('Definition string_stop_cats : list cc := ' + lst([cc(n) for n in ml[0][1]]) + '.')


def generate():
    from TexSoup import category, tokens, reader, data, utils

    need([m.name for m in utils.CC] == CC_NAMES, 'category codes changed: %s' % [m.name for m in utils.CC])
    need([m.name for m in utils.TC] == TC_NAMES, 'token codes changed: %s' % [m.name for m in utils.TC])
    need(all(int(c) < int(min(utils.TC)) or True for c in utils.CC), '')
    # numeric values matter in one place: `prev.category != CC.Comment`
    # compares a token code with a category code by integer value
    tc_vals = {m.name: int(m) for m in utils.TC}
    cc_vals = {m.name: int(m) for m in utils.CC}

    out = []
    w = out.append
    w('(* GENERATED by harness/gen_tables.py from %s -- do not edit. *)' % REPO)
    w('From Coq Require Import List NArith ZArith String.')
    w('From TexModel Require Import Base.')
    w('Import ListNotations.')
    w('Local Open Scope N_scope.')
    w('')
    w('Module Tables.')
    w('')
    # ---------------- category table (dict order)
    need(isinstance(category.CATEGORY_CODES, dict), 'CATEGORY_CODES is not a dict')
    rows = []
    for k, v in category.CATEGORY_CODES.items():
        chars = v if isinstance(v, str) else ''.join(v)
        need(all(len(c) == 1 for c in (v if not isinstance(v, str) else v)), 'multi-char entry')
        if not isinstance(v, str):
            chars = ''.join(sorted(v))
        rows.append('(%s, %s)' % (cc(k.name), cps(chars)))
    w('Definition category_table : list (cc * list N) :=\n  ' + lst(rows).replace('); (', ');\n   (') + '.')
    w('')
    w('Definition cc_value (c : cc) : N := match c with ' +
      ' '.join('| %s => %d' % (cc(n), cc_vals[n]) for n in CC_NAMES) + ' end.')
    w('Definition tc_value (c : tc) : N := match c with ' +
      ' '.join('| %s => %d' % (tc(n), tc_vals[n]) for n in TC_NAMES) + ' end.')
    w('')
    # ---------------- tokenizer rule order
    names = [n for n, _ in tokens.tokenizers]
    need(sorted(names) == sorted(RULES) and len(names) == len(RULES),
         'token rules changed: %s' % names)
    w('Definition rule_order : list rule_id :=\n  ' + lst(['R_' + n for n in names]) + '.')
    w('')
    # The inline category lists of the token rules are read from the AST of
    # tokens.py, together with a fingerprint of each rule's tests.  When the
    # rules have been rewritten into a shape this reader does not know, it
    # gives up on THESE tables only: their previous values are kept (marked
    # stale), so that the model still builds and the correspondence check
    # (exhaustive over one character per category) decides whether the
    # rewritten rules still behave like the model.
    rule_tables = ['escaped_second_cats', 'asym_map', 'ignore_cats', 'spacer_rollback_cats',
                   'symbols_map', 'string_stop_cats']
    mark = len(out)
    try:
        tk = parse_file('tokens.py')
        errors = []
        for level in (0, 1):
            lines = []
            try:
                read_rule_tables(lines.append, rule_getter(tk, level))
            except TranslationError as e:
                errors.append(str(e))
                continue
            out.extend(lines)
            if level == 1:
                NOTES.append('token-rule tables read from the normal form of the rules '
                             '(as written: %s)' % errors[0])
            break
        else:
            raise TranslationError('; in normal form: '.join(errors))
    except TranslationError as e:
        del out[mark:]
        old = previous_definitions(rule_tables)
        need(old is not None, 'token rules not readable (%s) and no previous Tables.v' % e)
        STALE.append('token-rule tables %s kept from the previous Tables.v: %s' % (rule_tables, e))
        for nm in rule_tables:
            w(old[nm])
    w('')
    # ---------------- names tables
    for nm, val in (('skip_env_names', tokens.SKIP_ENV_NAMES), ('math_env_names', tokens.MATH_ENV_NAMES)):
        w('Definition %s : list (list N) :=\n  %s.' % (nm, lst([cps(x) for x in str_seq(val, nm)])))
    w('Definition special_commands : list (list N) :=\n  %s.' %
      lst([cps(x) for x in sorted(str_seq(tokens.SPECIAL_COMMANDS, 'SPECIAL_COMMANDS'))]))
    str_seq(tokens.PUNCTUATION_COMMANDS, 'PUNCTUATION_COMMANDS')
    w('(* a Python set: iterated in hash order by the code; dumped sorted here *)')
    w('Definition punctuation_commands : list (list N) :=\n  %s.' %
      lst([cps(x) for x in sorted(tokens.PUNCTUATION_COMMANDS)]).replace('; [', ';\n   ['))
    rows = []
    need(isinstance(reader.SIGNATURES, dict), 'SIGNATURES')
    for k, v in reader.SIGNATURES.items():
        need(isinstance(v, tuple) and len(v) == 2, 'signature of %s' % k)
        rows.append('(%s, (%d, %d)%%Z)' % (cps(k), v[0], v[1]))
    w('Definition signatures : list (list N * (Z * Z)) :=\n  ' + lst(rows) + '.')
    w('')
    # ---------------- math / group classes
    need([c.__name__ for c in reader.MATH_SIMPLE_ENVS] ==
         ['TexDisplayMathModeEnv', 'TexMathModeEnv', 'TexDisplayMathEnv', 'TexMathEnv'],
         'MATH_SIMPLE_ENVS changed')
    kindname = {'TexDisplayMathModeEnv': 'MDisplay', 'TexMathModeEnv': 'MInline',
                'TexDisplayMathEnv': 'MBracket', 'TexMathEnv': 'MParen'}
    rows = []
    for c in reader.MATH_SIMPLE_ENVS:
        rows.append('(%s, ((%s, %s), ((%s, %s), %s)))' % (
            kindname[c.__name__], tc(c.token_begin.name), tc(c.token_end.name),
            cps(c.begin), cps(c.end), cps(c.name)))
    w('Definition math_classes : list (mathkind * ((tc * tc) * ((list N * list N) * list N))) :=\n  '
      + lst(rows).replace('); (', ');\n   (') + '.')
    need([c.__name__ for c in data.arg_type] == ['BracketGroup', 'BraceGroup'], 'arg_type changed')
    gk = {'BracketGroup': 'GBracket', 'BraceGroup': 'GBrace'}
    rows = []
    for c in data.arg_type:
        rows.append('(%s, ((%s, %s), ((%s, %s), %s)))' % (
            gk[c.__name__], tc(c.token_begin.name), tc(c.token_end.name),
            cps(c.begin), cps(c.end), cps(c.name)))
    w('Definition group_classes : list (groupkind * ((tc * tc) * ((list N * list N) * list N))) :=\n  '
      + lst(rows) + '.')
    w('')
    # ---------------- python whitespace (str.isspace / str.strip) -- interpreter fact
    ws = [c for c in range(0x110000) if chr(c).isspace()]
    w('Definition py_whitespace : list N := ' + lst([str(c) for c in ws]) + '%N.')
    w('')
    # ---------------- attribute names that shadow __getattr__ on TexNode
    names = sorted(n for n in dir(data.TexNode))
    w('Definition dir_texnode : list (list N) :=\n  ' + lst([cps(n) for n in names]).replace('; [', ';\n   [') + '.')
    w('')
    w('End Tables.')
    return '\n'.join(out) + '\n'


def main():
    outp = sys.argv[1]
    OUTP[0] = outp
    try:
        txt = generate()
    except TranslationError as e:
        sys.stderr.write('TRANSLATION-FAILED: %s\n' % e)
        return 2
    except Exception as e:   # noqa
        sys.stderr.write('TRANSLATION-FAILED: %s: %s\n' % (type(e).__name__, e))
        return 2
    old = None
    if os.path.exists(outp):
        with open(outp) as f:
            old = f.read()
    if old != txt:
        with open(outp, 'w') as f:
            f.write(txt)
        print('Tables.v rewritten')
    else:
        print('Tables.v unchanged')
    for msg in NOTES:
        print('TRANSLATION-NOTE: %s' % msg)
    for msg in STALE:
        print('TRANSLATION-PARTIAL: %s' % msg)
    return 0


if __name__ == '__main__':
    sys.exit(main())
