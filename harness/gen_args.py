#!/venv/bin/python
"""Translator: regenerate coq/theories/Model/ArgGen.v from class `TexArgs` of
$TEXSOUP_REPO/TexSoup/data.py (default /repo).

__init__, __coerce, append, extend, insert, remove, pop, reverse, clear,
__getitem__, __contains__ and __str__ -- and the classmethod TexGroup.parse, which __coerce
calls -- are read with the
Python `ast` module only (nothing is imported
or executed) and written as terms of the language of
coq/theories/Model/ArgDSL.v, one Coq constructor per Python construct.
Proofs/ArgGenProofs.v then proves that interpreting each generated term is
the hand-written operation of Model/Args.v.  __repr__ is outside the language
(repr of a group: string-literal escaping): it must be present, and is not translated.

Fail-closed: any statement or expression shape that is not listed in ArgDSL.v
raises TranslationError, as does a change of what the reading relies on: the
set of methods of the class and its base (list), a rebinding of isinstance /
str / list / len / max / min / super / TexGroup / TexCmd / TexArgs, the
source of TexExpr.__eq__, of the getter of TexExpr.string (which the group classes must
not override), of TexText.__eq__ and of the delimiters of
BraceGroup / BracketGroup / arg_type (pinned to the reference text below), a decorator of
TexGroup.parse other than @classmethod,
an __eq__ defined between TexExpr and the two group classes.

The output depends on the abstract syntax only: comments, docstrings, layout
and the names of parameters and locals do not change it.  Normalised before the
translation (each rewrite is an identity of Python's semantics, see `normalise`):
annotations are dropped; `x += e` / `x -= e` on a local name is `x = x + e` (the
language has int arithmetic only, anything else is OUnsup); `if c: x = a else: x = b`
is `x = a if c else b`; an `else` after a branch that always returns is hoisted
(`if c: return a else: S` = `if c: return a` followed by S); the empty tuple as the
default of a parameter that is only iterated is the empty list; the order of the
method definitions in the class body is irrelevant (emitted in a fixed order);
`[p for x in S]`, the generator `(p for x in S)` and `map(str, S)` as the argument of
any(.) / s.join(.) are the same program (they are consumed at once there, and the element
expressions of the language have no effects and no exceptions inside the fragment);
additional methods whose names neither are list methods / special methods nor are
called by a translated method are ignored.

Usage: gen_args.py <out.v>        exit 0 = written (only if content changed)
                                  exit 2 = translation failed (message on stderr)
"""
import ast
import os
import sys

REPO = os.environ.get('TEXSOUP_REPO', '/repo')


class TranslationError(Exception):
    pass


def need(cond, msg):
    if not cond:
        raise TranslationError(msg)


def where(n):
    return 'line %s' % getattr(n, 'lineno', '?')


def shape(n):
    return ast.dump(n)[:120]


def is_name(n, ident):
    return isinstance(n, ast.Name) and n.id == ident


def strip_doc(body):
    if body and isinstance(body[0], ast.Expr) and isinstance(body[0].value, ast.Constant) \
            and isinstance(body[0].value.value, str):
        return body[1:]
    return body


def norm_fn(fn):
    return (ast.dump(fn.args), [ast.dump(x) for x in strip_doc(fn.body)],
            [ast.dump(d) for d in fn.decorator_list])


def zlit(v):
    return '%d%%Z' % v if v >= 0 else '(%d)%%Z' % v


def always_returns(body):
    if not body:
        return False
    last = body[-1]
    if isinstance(last, ast.Return):
        return True
    if isinstance(last, ast.If):
        return always_returns(last.body) and always_returns(last.orelse)
    return False


def same_target(a, b):
    return isinstance(a, ast.Name) and isinstance(b, ast.Name) and a.id == b.id


def normalise_block(body):
    """Semantics-preserving rewrites of a statement list (see the module docstring)."""
    out = []
    for st in body:
        if isinstance(st, ast.AnnAssign) and st.simple and isinstance(st.target, ast.Name):
            if st.value is None:
                continue
            st = ast.copy_location(ast.Assign(targets=[st.target], value=st.value), st)
        if isinstance(st, ast.AugAssign) and isinstance(st.target, ast.Name) \
                and isinstance(st.op, (ast.Add, ast.Sub)):
            load = ast.copy_location(ast.Name(id=st.target.id, ctx=ast.Load()), st)
            st = ast.copy_location(ast.Assign(
                targets=[st.target],
                value=ast.copy_location(ast.BinOp(left=load, op=st.op, right=st.value), st)), st)
        if isinstance(st, ast.If):
            st = ast.copy_location(ast.If(test=st.test, body=normalise_block(st.body),
                                          orelse=normalise_block(st.orelse)), st)
            b, e = st.body, st.orelse
            if len(b) == 1 and len(e) == 1 and isinstance(b[0], ast.Assign) and isinstance(e[0], ast.Assign) \
                    and len(b[0].targets) == 1 and len(e[0].targets) == 1 \
                    and same_target(b[0].targets[0], e[0].targets[0]):
                st = ast.copy_location(ast.Assign(
                    targets=[b[0].targets[0]],
                    value=ast.copy_location(ast.IfExp(test=st.test, body=b[0].value, orelse=e[0].value), st)),
                    st)
            elif e and always_returns(b):
                out.append(ast.copy_location(ast.If(test=st.test, body=b, orelse=[]), st))
                out.extend(e)
                continue
        elif isinstance(st, ast.For):
            st = ast.copy_location(ast.For(target=st.target, iter=st.iter, body=normalise_block(st.body),
                                           orelse=st.orelse, type_comment=None), st)
        out.append(st)
    return out


EXTRA = ['parse']      # TexGroup.parse
TRANSLATED = ['__init__', '__coerce', 'append', 'extend', 'insert', 'remove', 'pop', 'reverse',
              'clear', '__getitem__', '__contains__', '__str__']
UNTRANSLATED = ['__repr__']
COQ_METH = {'__init__': 'M_init', '__coerce': 'M_coerce', '__getitem__': 'M_getitem',
            '__contains__': 'M_contains', '__str__': 'M_str'}
GEN_NAME = {'__init__': 'gen_a_init', '__coerce': 'gen_a_coerce', '__getitem__': 'gen_a_getitem',
            '__contains__': 'gen_a_contains', '__str__': 'gen_a_str'}
for _m in TRANSLATED + EXTRA:
    COQ_METH.setdefault(_m, 'M_' + _m)
    GEN_NAME.setdefault(_m, 'gen_a_' + _m)
EXNS = ('TypeError', 'ValueError', 'IndexError')
BUILTINS = ('isinstance', 'str', 'list', 'len', 'max', 'min', 'super', 'getattr', 'any', 'map') + EXNS


def safe_message(n):
    """an expression that cannot fail to evaluate and has no effect (assert / raise text)"""
    if isinstance(n, ast.Constant) and isinstance(n.value, str):
        return True
    if isinstance(n, ast.Name):
        return True
    if isinstance(n, ast.Tuple):
        return all(safe_message(e) for e in n.elts)
    if isinstance(n, ast.BinOp) and isinstance(n.op, ast.Mod) and isinstance(n.left, ast.Constant) \
            and isinstance(n.left.value, str):
        return safe_message(n.right)
    if isinstance(n, ast.JoinedStr):
        return all(isinstance(v, ast.Constant) or (isinstance(v, ast.FormattedValue) and v.format_spec is None
                                                    and safe_message(v.value)) for v in n.values)
    return False

# what an additional method of TexArgs must not be called: the attributes of the base class
LIST_ATTRS = frozenset(dir(list))
LOPS = {'__init__': 'LInit', 'insert': 'LInsert', 'remove': 'LRemove', 'pop': 'LPop',
        'reverse': 'LReverse', 'clear': 'LClear', '__getitem__': 'LGetitem', 'index': 'LIndex',
        'append': 'LAppend', '__contains__': 'LContains'}
CMP = {ast.Lt: 'CLt', ast.LtE: 'CLe', ast.Eq: 'CEq'}

PINNED = '''
class TexExpr(object):
    def __eq__(self, other):
        return str(other) == str(self)

    @property
    def string(self):
        return TexText(''.join(map(str, self._contents)))

class TexText(TexExpr, str):
    def __eq__(self, other):
        if isinstance(other, TexText):
            return self._text == other._text
        if isinstance(other, str):
            return self._text == other
        return False

class TexGroup(TexUnNamedEnv):
    pass

class BracketGroup(TexGroup):
    begin = '['
    end = ']'

class BraceGroup(TexGroup):
    begin = '{'
    end = '}'

arg_type = (BracketGroup, BraceGroup)
'''
# classes between the groups and TexExpr: none may define __eq__
EQ_CHAIN = ['BraceGroup', 'BracketGroup', 'TexGroup', 'TexUnNamedEnv', 'TexEnv']


def check_module(tree):
    need(isinstance(tree, ast.Module), 'not a module')
    bound = {}

    def bind(name, how):
        bound.setdefault(name, []).append(how)

    for st in tree.body:
        if isinstance(st, ast.ImportFrom):
            for a in st.names:
                need(a.name != '*', 'star import at %s' % where(st))
                bind(a.asname or a.name, 'import')
        elif isinstance(st, ast.Import):
            for a in st.names:
                bind((a.asname or a.name).split('.')[0], 'import')
        elif isinstance(st, ast.FunctionDef):
            bind(st.name, 'def')
        elif isinstance(st, ast.ClassDef):
            bind(st.name, 'class')
        elif isinstance(st, ast.Assign):
            for t in st.targets:
                for x in ast.walk(t):
                    if isinstance(x, ast.Name) and isinstance(x.ctx, ast.Store):
                        bind(x.id, 'assign')
                    elif isinstance(x, ast.Attribute) and not isinstance(x.ctx, ast.Load):
                        raise TranslationError('module-level attribute assignment at %s' % where(st))
        elif isinstance(st, ast.Expr) and isinstance(st.value, ast.Constant):
            pass
        else:
            raise TranslationError('unexpected module-level statement at %s: %s' % (where(st), shape(st)))
    for nm in ['TexArgs', 'TexGroup', 'TexCmd', 'TexExpr', 'TexText'] + EQ_CHAIN:
        need(bound.get(nm) == ['class'], 'module-level binding of %s changed: %s' % (nm, bound.get(nm)))
    need(bound.get('arg_type') == ['assign'], 'binding of arg_type changed')
    for nm in BUILTINS:
        need(nm not in bound, 'builtin %s is rebound at module level' % nm)
    for n in ast.walk(tree):
        need(not isinstance(n, (ast.Global, ast.Nonlocal)), 'global/nonlocal at %s' % where(n))
        if isinstance(n, ast.Delete):
            # `del x[i]` removes an element; only unbinding a name or an attribute matters here
            need(all(isinstance(t, ast.Subscript) for t in n.targets), 'del of a name/attribute at %s' % where(n))
        if isinstance(n, ast.Attribute) and n.attr.startswith('_TexArgs__'):
            raise TranslationError('use of %s at %s' % (n.attr, where(n)))
        if isinstance(n, ast.Constant) and isinstance(n.value, str):
            need('_TexArgs__' not in n.value, 'string mentioning _TexArgs__ at %s' % where(n))
        if isinstance(n, ast.Call) and isinstance(n.func, ast.Name) \
                and n.func.id in ('setattr', 'delattr', 'exec', 'eval', '__import__'):
            raise TranslationError('%s(...) at %s' % (n.func.id, where(n)))
        if isinstance(n, ast.Attribute) and not isinstance(n.ctx, ast.Load) \
                and isinstance(n.value, ast.Name) \
                and n.value.id in ['TexArgs', 'TexGroup', 'TexExpr', 'TexText'] + EQ_CHAIN:
            raise TranslationError('assignment to an attribute of class %s at %s' % (n.value.id, where(n)))
    classes = {st.name: st for st in tree.body if isinstance(st, ast.ClassDef)}
    # ---- pinned sources
    ref = ast.parse(PINNED)
    for r in ref.body:
        if isinstance(r, ast.Assign):
            got = [st for st in tree.body if isinstance(st, ast.Assign)
                   and any(is_name(t, 'arg_type') for t in st.targets)]
            need(len(got) == 1 and ast.dump(got[0]) == ast.dump(r), '`arg_type = ...` changed')
            continue
        cl = classes[r.name]
        need([ast.dump(b) for b in cl.bases] == [ast.dump(b) for b in r.bases]
             and not cl.keywords and not cl.decorator_list, 'bases of %s changed' % r.name)
        for item in r.body:
            if isinstance(item, ast.Pass):
                continue
            if isinstance(item, ast.FunctionDef):
                got = [x for x in cl.body if isinstance(x, ast.FunctionDef) and x.name == item.name
                       and [ast.dump(d) for d in x.decorator_list] == [ast.dump(d) for d in item.decorator_list]]
                need(len(got) == 1 and norm_fn(got[0]) == norm_fn(item),
                     '%s.%s differs from the source the interpreter\'s reading is pinned to'
                     % (r.name, item.name))
            else:
                nm = item.targets[0].id
                got = [x for x in cl.body if isinstance(x, ast.Assign)
                       and any(is_name(t, nm) for t in x.targets)]
                need(len(got) == 1 and ast.dump(got[0]) == ast.dump(item),
                     '%s.%s changed' % (r.name, nm))
    chain = {'BraceGroup': 'TexGroup', 'BracketGroup': 'TexGroup', 'TexGroup': 'TexUnNamedEnv',
             'TexUnNamedEnv': 'TexEnv', 'TexEnv': 'TexExpr'}
    for nm in EQ_CHAIN:
        cl = classes[nm]
        need(len(cl.bases) == 1 and is_name(cl.bases[0], chain[nm]), 'base of %s changed' % nm)
        for x in ast.walk(cl):
            if isinstance(x, ast.FunctionDef) and x.name in ('__eq__', '__ne__', 'string'):
                raise TranslationError('%s defines %s' % (nm, x.name))
            if isinstance(x, ast.Name) and x.id in ('__eq__', '__ne__', 'string') and isinstance(x.ctx, ast.Store):
                raise TranslationError('%s binds %s' % (nm, x.id))
    # ---- the class itself
    cl = classes['TexArgs']
    need(len(cl.bases) == 1 and is_name(cl.bases[0], 'list') and not cl.keywords
         and not cl.decorator_list, 'bases/decorators of TexArgs changed')
    meths = {}
    for st in strip_doc(cl.body):
        need(isinstance(st, ast.FunctionDef) and not st.decorator_list,
             'unexpected statement in class TexArgs at %s: %s' % (where(st), shape(st)))
        need(st.name not in meths, 'TexArgs.%s is defined twice' % st.name)
        meths[st.name] = st
    known = TRANSLATED + UNTRANSLATED
    need(all(m in meths for m in known), 'the methods of TexArgs changed: %s' % sorted(meths))
    for nm in sorted(meths):
        if nm in known:
            continue
        # an additional method: harmless unless it overrides something of `list` (or a special
        # method, or a name-mangled private one); a translated method cannot call it (Scope.ex)
        need(not nm.startswith('_') and nm not in LIST_ATTRS and nm != 'all',
             'the methods of TexArgs changed: %s' % sorted(meths))
    # ---- TexGroup.parse: translated too
    gp = [st for st in classes['TexGroup'].body if isinstance(st, ast.FunctionDef) and st.name == 'parse']
    need(len(gp) == 1 and len(gp[0].decorator_list) == 1 and is_name(gp[0].decorator_list[0], 'classmethod')
         and 'classmethod' not in bound, 'TexGroup.parse is no longer a plain classmethod')
    for nm in ('BraceGroup', 'BracketGroup'):
        need(not any(isinstance(x, ast.FunctionDef) and x.name in ('parse', '__init__', '__new__')
                     for x in classes[nm].body), '%s defines parse / __init__' % nm)
    return [(nm, meths[nm]) for nm in TRANSLATED] + [('parse', gp[0])]


class Scope(object):
    def __init__(self, fn, classmethod_=False):
        a = fn.args
        self.classmethod = classmethod_
        need(not a.vararg and not a.kwonlyargs and not a.kwarg and not a.kw_defaults
             and not getattr(a, 'posonlyargs', []) and len(a.args) >= 1,
             '%s: unsupported parameter list' % fn.name)
        self.owner = fn.name
        self.self_name = a.args[0].arg
        self.vars = {}
        for x in a.args[1:]:
            need(x.arg not in self.vars and x.arg != self.self_name, '%s: repeated parameter' % fn.name)
            self.vars[x.arg] = len(self.vars)
        self.readonly = set()
        self.in_for = 0
        for n in ast.walk(fn):
            need(not isinstance(n, (ast.FunctionDef, ast.AsyncFunctionDef, ast.ClassDef, ast.Lambda,
                                    ast.Yield, ast.YieldFrom, ast.Await, ast.With, ast.Import,
                                    ast.ImportFrom, ast.While, ast.Try, ast.NamedExpr,
                                    ast.SetComp, ast.DictComp,
                                    ast.Starred, ast.Break, ast.Continue)) or n is fn,
                 '%s: unsupported construct at %s: %s' % (fn.name, where(n), type(n).__name__))

    def err(self, n, what):
        raise TranslationError('%s, %s: %s: %s' % (self.owner, where(n), what, shape(n)))

    def is_self(self, n):
        # in a classmethod the first parameter is the class: it may not be used at all
        if self.classmethod and is_name(n, self.self_name):
            self.err(n, 'use of the class parameter of a classmethod')
        return is_name(n, self.self_name)

    def free(self, name):
        return name not in self.vars and name != self.self_name

    def is_super(self, n):
        return (isinstance(n, ast.Call) and is_name(n.func, 'super') and self.free('super')
                and not n.args and not n.keywords)

    def is_all(self, n):
        return isinstance(n, ast.Attribute) and n.attr == 'all' and self.is_self(n.value) \
            and isinstance(n.ctx, ast.Load)

    def args(self, lst):
        return '(args_of [%s])' % '; '.join(self.ex(a) for a in lst)

    def ex(self, n):
        if isinstance(n, ast.Constant):
            if n.value is None:
                return 'ENone'
            if type(n.value) is int:
                return 'EInt %s' % zlit(n.value)
            if type(n.value) is str:
                return 'EStr [%s]' % '; '.join(zlit(ord(c)) for c in n.value)
            self.err(n, 'unsupported constant')
        if isinstance(n, ast.UnaryOp):
            if isinstance(n.op, ast.USub) and isinstance(n.operand, ast.Constant) \
                    and type(n.operand.value) is int:
                return 'EInt %s' % zlit(-n.operand.value)
            if isinstance(n.op, ast.USub):
                return 'ENeg (%s)' % self.ex(n.operand)
            if isinstance(n.op, ast.Not):
                return 'ENot (%s)' % self.ex(n.operand)
            self.err(n, 'unsupported unary operator')
        if isinstance(n, ast.Attribute) and isinstance(n.ctx, ast.Load) and n.attr in ('begin', 'end') \
                and isinstance(n.value, ast.Name) and n.value.id in self.vars:
            # a class attribute of a class object (defined on a class object only)
            return 'EClsAttr %s (%s)' % ('true' if n.attr == 'end' else 'false', self.ex(n.value))
        if isinstance(n, ast.ListComp):
            return self.comp(n)
        if isinstance(n, ast.List):
            if n.elts == [] and isinstance(n.ctx, ast.Load):
                return 'EEmptyList'
            self.err(n, 'unsupported list display')
        if isinstance(n, ast.Name):
            need(isinstance(n.ctx, ast.Load), 'name context')
            if self.is_self(n):
                return 'ESelf'
            if n.id in self.vars:
                return 'EVar %d%%nat' % self.vars[n.id]
            if n.id == 'arg_type':
                return 'EArgTypes'
            self.err(n, 'name that is neither a parameter nor a local')
        if isinstance(n, ast.BinOp):
            if isinstance(n.op, ast.Add):
                return 'EAdd (%s) (%s)' % (self.ex(n.left), self.ex(n.right))
            if isinstance(n.op, ast.Sub):
                return 'ESub (%s) (%s)' % (self.ex(n.left), self.ex(n.right))
            self.err(n, 'unsupported binary operator')
        if isinstance(n, ast.BoolOp):
            need(isinstance(n.op, ast.And) and len(n.values) >= 2, '%s: boolean operator' % self.owner)
            parts = [self.ex(v) for v in n.values]
            out = parts[-1]
            for p in reversed(parts[:-1]):
                out = 'EAnd (%s) (%s)' % (p, out)
            return out
        if isinstance(n, ast.IfExp):
            return 'EIfExp (%s) (%s) (%s)' % (self.ex(n.test), self.ex(n.body), self.ex(n.orelse))
        if isinstance(n, ast.Compare):
            if len(n.ops) != 1 or type(n.ops[0]) not in CMP:
                self.err(n, 'unsupported comparison')
            return 'ECmp %s (%s) (%s)' % (CMP[type(n.ops[0])], self.ex(n.left), self.ex(n.comparators[0]))
        if isinstance(n, ast.Subscript):
            need(isinstance(n.ctx, ast.Load), 'subscript context')
            if isinstance(n.value, ast.Name) and n.value.id in self.vars:
                idx = n.slice
                if isinstance(idx, getattr(ast, 'Index', ())):
                    idx = idx.value
                if isinstance(idx, ast.Slice) and idx.step is None:
                    return 'ESliceStr (%s) (%s) (%s)' % (
                        self.ex(n.value), self.ex(idx.lower) if idx.lower is not None else 'ENone',
                        self.ex(idx.upper) if idx.upper is not None else 'ENone')
                self.err(n, 'subscript of a local other than a slice')
            if not self.is_self(n.value):
                self.err(n, 'subscript of something other than self')
            return 'ECallMeth M_getitem (args_of [%s])' % self.index(n.slice)
        if isinstance(n, ast.Call):
            need(not n.keywords and not any(isinstance(a, ast.Starred) for a in n.args),
                 '%s: keyword/starred arguments at %s' % (self.owner, where(n)))
            f, a = n.func, n.args
            if isinstance(f, ast.Name) and self.free(f.id):
                if f.id == 'isinstance' and len(a) == 2:
                    t = a[1]
                    if is_name(t, 'str') and self.free('str'):
                        return 'EIsStr (%s)' % self.ex(a[0])
                    if is_name(t, 'list') and self.free('list'):
                        return 'EIsList (%s)' % self.ex(a[0])
                    if isinstance(t, ast.Tuple) and len(t.elts) == 2 and is_name(t.elts[0], 'TexGroup') \
                            and is_name(t.elts[1], 'TexCmd') and self.free('TexGroup') and self.free('TexCmd'):
                        return 'EIsGroupOrCmd (%s)' % self.ex(a[0])
                if f.id == 'any' and len(a) == 1:
                    return 'EAny (%s)' % self.iterable(a[0])
                if f.id == 'len' and len(a) == 1:
                    return 'ELen (%s)' % self.ex(a[0])
                if f.id in ('max', 'min') and len(a) == 2:
                    return '%s (%s) (%s)' % ('EMax' if f.id == 'max' else 'EMin', self.ex(a[0]), self.ex(a[1]))
                if f.id == 'TexArgs' and len(a) == 1:
                    return 'ENew (%s)' % self.ex(a[0])
                if f.id == 'getattr' and len(a) == 3 and isinstance(a[1], ast.Constant) \
                        and a[1].value == 'all':
                    return 'EGetAllOr (%s) (%s)' % (self.ex(a[0]), self.ex(a[2]))
                self.err(n, 'unsupported call')
            if isinstance(f, ast.Name) and f.id in self.vars and len(a) == 1:
                return 'ENewGroup (%s) (%s)' % (self.ex(f), self.ex(a[0]))
            if isinstance(f, ast.Attribute):
                if self.is_super(f.value) and f.attr in LOPS:
                    return 'ELop RSuper %s %s' % (LOPS[f.attr], self.lop_args(f.attr, a))
                if self.is_all(f.value) and f.attr in LOPS:
                    return 'ELop RAll %s %s' % (LOPS[f.attr], self.lop_args(f.attr, a))
                if self.is_self(f.value):
                    nm = f.attr
                    if nm in TRANSLATED and nm not in ('__init__', '__getitem__'):
                        return 'ECallMeth %s %s' % (COQ_METH[nm], self.args(a))
                    self.err(n, 'call of an untranslated method of self')
                if is_name(f.value, 'TexGroup') and self.free('TexGroup') and f.attr == 'parse' and len(a) == 1:
                    return 'EParse (%s)' % self.ex(a[0])
                if f.attr == 'isspace' and len(a) == 0 and isinstance(f.value, ast.Name) \
                        and f.value.id in self.vars:
                    return 'EIsSpace (%s)' % self.ex(f.value)
                if f.attr == 'join' and len(a) == 1:
                    return 'EJoin (%s) (%s)' % (self.ex(f.value), self.iterable(a[0]))
                # methods of str (defined on a str only: EUnsup otherwise)
                if f.attr in ('startswith', 'endswith') and len(a) == 1:
                    return '%s (%s) (%s)' % ('EStartsWith' if f.attr == 'startswith' else 'EEndsWith',
                                             self.ex(f.value), self.ex(a[0]))
                if f.attr in ('lstrip', 'rstrip') and len(a) == 1:
                    return 'EStrip %s (%s) (%s)' % ('true' if f.attr == 'rstrip' else 'false',
                                                    self.ex(f.value), self.ex(a[0]))
            self.err(n, 'unsupported call')
        self.err(n, 'unsupported expression')

    # ---- comprehensions
    def iterable(self, n):
        """the argument of any(.) / s.join(.): consumed at once, so a generator expression
        and map(str, S) are the list comprehension with the same elements"""
        if isinstance(n, (ast.ListComp, ast.GeneratorExp)):
            return self.comp(n)
        if isinstance(n, ast.Call) and is_name(n.func, 'map') and self.free('map') and not n.keywords \
                and len(n.args) == 2 and is_name(n.args[0], 'str') and self.free('str'):
            return 'EComp (PStr (PElem)) %s' % self.source(n.args[1])
        return self.ex(n)

    def source(self, n):
        if self.is_self(n):
            return 'CSelf'
        if self.is_all(n):
            return 'CAll'
        self.err(n, 'iteration over something other than self / self.all')

    def comp(self, n):
        if len(n.generators) != 1:
            self.err(n, 'nested comprehension')
        g = n.generators[0]
        if g.ifs or g.is_async or not isinstance(g.target, ast.Name):
            self.err(n, 'unsupported comprehension')
        v = g.target.id
        need(v != self.self_name and v not in BUILTINS and v not in ('TexArgs', 'TexGroup', 'TexCmd'),
             '%s: comprehension variable %s' % (self.owner, v))
        return 'EComp (%s) %s' % (self.pex(n.elt, v), self.source(g.iter))

    def pex(self, n, v):
        """the element expression of a comprehension whose variable is v"""
        if isinstance(n, ast.Name) and isinstance(n.ctx, ast.Load):
            if n.id == v:
                return 'PElem'
            if n.id in self.vars:
                return 'PVar %d%%nat' % self.vars[n.id]
            self.err(n, 'name in a comprehension that is neither its variable nor a local')
        if isinstance(n, ast.Attribute) and isinstance(n.ctx, ast.Load) and n.attr == 'string':
            return 'PString (%s)' % self.pex(n.value, v)
        if isinstance(n, ast.Call) and is_name(n.func, 'str') and self.free('str') and not n.keywords \
                and len(n.args) == 1 and not isinstance(n.args[0], ast.Starred):
            return 'PStr (%s)' % self.pex(n.args[0], v)
        if isinstance(n, ast.Compare) and len(n.ops) == 1 and isinstance(n.ops[0], ast.Eq):
            return 'PEq (%s) (%s)' % (self.pex(n.left, v), self.pex(n.comparators[0], v))
        self.err(n, 'unsupported element expression of a comprehension')

    def index(self, idx):
        if isinstance(idx, getattr(ast, 'Index', ())):
            idx = idx.value
        if isinstance(idx, ast.Slice):
            need(idx.step is None, '%s: slice with a step' % self.owner)
            return 'ESliceObj (%s) (%s)' % (self.ex(idx.lower) if idx.lower is not None else 'ENone',
                                            self.ex(idx.upper) if idx.upper is not None else 'ENone')
        if isinstance(idx, ast.Tuple):
            self.err(idx, 'tuple subscript')
        return self.ex(idx)

    def lop_args(self, name, a):
        return self.args(a)

    def stmt(self, s):
        if isinstance(s, ast.Expr):
            if isinstance(s.value, ast.Constant):
                self.err(s, 'constant expression statement')
            return ('atom', 'SExpr (%s)' % self.ex(s.value))
        if isinstance(s, ast.Assign):
            need(len(s.targets) == 1, '%s: chained assignment at %s' % (self.owner, where(s)))
            t = s.targets[0]
            val = self.ex(s.value)
            if isinstance(t, ast.Attribute) and t.attr == 'all' and self.is_self(t.value):
                return ('atom', 'SSetAll (%s)' % val)
            if isinstance(t, ast.Name):
                return ('atom', 'SAssign %d%%nat (%s)' % (self.declare(t.id), val))
            self.err(s, 'unsupported assignment target')
        if isinstance(s, ast.Return):
            return ('atom', 'SReturn (%s)' % (self.ex(s.value) if s.value is not None else 'ENone'))
        if isinstance(s, ast.Assert):
            need(s.msg is None or safe_message(s.msg), '%s: assert message at %s' % (self.owner, where(s)))
            return ('atom', 'SAssert (%s)' % self.ex(s.test))
        if isinstance(s, ast.Raise):
            need(s.cause is None and isinstance(s.exc, ast.Call) and isinstance(s.exc.func, ast.Name)
                 and s.exc.func.id in EXNS and self.free(s.exc.func.id) and not s.exc.keywords
                 and all(safe_message(x) for x in s.exc.args),
                 '%s: unsupported raise at %s' % (self.owner, where(s)))
            return ('atom', 'SRaise %s' % s.exc.func.id)
        if isinstance(s, ast.If):
            return ('if', self.ex(s.test), self.block(s.body), self.block(s.orelse))
        if isinstance(s, ast.For):
            need(not s.orelse and isinstance(s.target, ast.Name), '%s: for-else / target' % self.owner)
            it = self.ex(s.iter)
            x = self.declare(s.target.id)
            return ('for', x, it, self.block(s.body))
        self.err(s, 'unsupported statement')

    def declare(self, nm):
        need(nm != self.self_name and nm not in BUILTINS
             and nm not in ('TexArgs', 'TexGroup', 'TexCmd'), '%s: assignment to %s' % (self.owner, nm))
        need(nm not in self.readonly, '%s: assignment to the parameter %s whose default is mutable'
             % (self.owner, nm))
        if nm not in self.vars:
            self.vars[nm] = len(self.vars)
        return self.vars[nm]

    def block(self, body):
        return [self.stmt(s) for s in body]


def default_value(fn, n):
    if isinstance(n, ast.Constant) and n.value is None:
        return 'VNone'
    if isinstance(n, ast.Constant) and type(n.value) is int:
        return 'VInt %s' % zlit(n.value)
    if isinstance(n, ast.UnaryOp) and isinstance(n.op, ast.USub) and isinstance(n.operand, ast.Constant) \
            and type(n.operand.value) is int:
        return 'VInt %s' % zlit(-n.operand.value)
    if isinstance(n, (ast.List, ast.Tuple)) and n.elts == []:
        return 'VArgs []'      # an empty iterable (the parameter is only iterated: translate_method)
    raise TranslationError('%s: unsupported default %s' % (fn.name, shape(n)))


def translate_method(fn, classmethod_=False):
    fn = ast.copy_location(ast.FunctionDef(name=fn.name, args=fn.args, body=normalise_block(strip_doc(fn.body)),
                                           decorator_list=[], returns=None, type_comment=None), fn)
    sc = Scope(fn, classmethod_)
    a = fn.args
    names = [x.arg for x in a.args[1:]]
    nd = len(a.defaults)
    need(nd <= len(names), '%s: default for self' % fn.name)
    params = ['None'] * (len(names) - nd) + ['Some (%s)' % default_value(fn, d) for d in a.defaults]
    # a parameter with a mutable default may only be iterated over
    for nm, d in zip(names[len(names) - nd:], a.defaults):
        if isinstance(d, (ast.List, ast.Tuple)):
            sc.readonly.add(nm)
            uses = [n for n in ast.walk(fn) if isinstance(n, ast.Name) and n.id == nm]
            ok_ctx = set()
            for n in ast.walk(fn):
                if isinstance(n, ast.For) and is_name(n.iter, nm):
                    ok_ctx.add(id(n.iter))
                if isinstance(n, ast.Call) and isinstance(n.func, ast.Attribute) \
                        and n.func.attr == 'extend' and is_name(n.func.value, sc.self_name) \
                        and len(n.args) == 1:
                    arg = n.args[0]
                    if is_name(arg, nm):
                        ok_ctx.add(id(arg))
                    # self.extend(getattr(p, 'all', p)): still only read
                    if isinstance(arg, ast.Call) and is_name(arg.func, 'getattr') and not arg.keywords \
                            and len(arg.args) == 3 and isinstance(arg.args[1], ast.Constant):
                        for x in (arg.args[0], arg.args[2]):
                            if is_name(x, nm):
                                ok_ctx.add(id(x))
            need(all(id(u) in ok_ctx for u in uses),
                 '%s: the parameter %s (mutable default) is used other than as the argument of '
                 'self.extend / a for loop' % (fn.name, nm))
    body = strip_doc(fn.body)
    need(body, '%s: empty body' % fn.name)
    return params, sc.block(body)


def pp_block(items, ind):
    pad = ' ' * ind
    if not items:
        return [pad + '(blk [])']
    out = [pad + '(blk [']
    for i, it in enumerate(items):
        lines = pp_stmt(it, ind + 2)
        if i < len(items) - 1:
            lines[-1] += ';'
        out.extend(lines)
    out[-1] += '])'
    return out


def pp_stmt(it, ind):
    pad = ' ' * ind
    if it[0] == 'atom':
        return [pad + it[1]]
    if it[0] == 'if':
        return [pad + 'SIf (%s)' % it[1]] + pp_block(it[2], ind + 2) + pp_block(it[3], ind + 2)
    if it[0] == 'for':
        return [pad + 'SFor %d%%nat (%s)' % (it[1], it[2])] + pp_block(it[3], ind + 2)
    raise TranslationError('internal: %r' % (it,))


def generate():
    with open(os.path.join(REPO, 'TexSoup', 'data.py')) as f:
        tree = ast.parse(f.read())
    meths = check_module(tree)
    out = []
    w = out.append
    w('(* GENERATED by harness/gen_args.py from class TexArgs of TexSoup/data.py -- do not edit.')
    w('   See ArgDSL.v for the meaning. *)')
    w('From Coq Require Import List ZArith.')
    w('From TexModel Require Import Args ArgDSL.')
    w('Import ListNotations.')
    w('')
    for name, fn in meths:
        params, prog = translate_method(fn, name in EXTRA)
        w('(* def %s *)' % name)
        w('Definition %s : mdef :=' % GEN_NAME[name])
        w('  mkM [%s]' % '; '.join(params))
        lines = pp_block(prog, 4)
        lines[-1] += '.'
        out.extend(lines)
        w('')
    w('Definition gen_a_cls : cls := fun m =>\n  match m with')
    for n in TRANSLATED + EXTRA:
        w('  | %s => %s' % (COQ_METH[n], GEN_NAME[n]))
    w('  end.')
    return '\n'.join(out) + '\n'


def main():
    outp = sys.argv[1]
    try:
        txt = generate()
    except TranslationError as e:
        sys.stderr.write('TRANSLATION-FAILED: %s\n' % e)
        return 2
    except Exception as e:   # noqa
        sys.stderr.write('TRANSLATION-FAILED: %s: %s\n' % (type(e).__name__, e))
        return 2
    old = None
    if os.path.exists(outp):
        with open(outp) as f:
            old = f.read()
    if old != txt:
        with open(outp, 'w') as f:
            f.write(txt)
        print('ArgGen.v rewritten')
    else:
        print('ArgGen.v unchanged')
    return 0


if __name__ == '__main__':
    sys.exit(main())
