"""Direct oracles on the implementation for views, search and edits:
C03 C04 C05 C14 C15."""
import copy
import os
import re

import gen
import impl
import inputs
from common import Failure, Result, chunked, pmap, rng_for, NPROC
from impl import D, Token
from oracles_parse import try_parse, all_positioned, nf_of_contents

TexNode = D.TexNode


# ------------------------------------------------- independent enumerations

def is_text(x):
    return isinstance(x, (D.TexText, str)) or not isinstance(x, D.TexExpr)


def raw_items(e):
    """Complete content list of an expression, read off .args/._contents
    only: contents of every argument group (whitespace-only text dropped, as
    the group's own content view does), then the expression's own contents."""
    out = []
    for a in e.args:
        for c in raw_items(a):
            if is_text(c) and str(c).isspace():
                continue
            out.append(c)
    out.extend(e._contents)
    return out


def reachable_exprs(e):
    """Every non-text expression below e, each once, document order."""
    out = []
    for c in raw_items(e):
        if not is_text(c):
            out.append(c)
            out.extend(reachable_exprs(c))
    return out


def reachable_text(e):
    out = []
    for c in raw_items(e):
        if is_text(c):
            if not str(c).isspace():
                out.append(c)
        else:
            out.extend(reachable_text(c))
    return out


def all_nodes(soup):
    """soup and every TexNode below it (via the library's descendants)."""
    return [soup] + [d for d in soup.descendants if isinstance(d, TexNode)]


def names_in(soup):
    names = []
    for e in reachable_exprs(soup.expr):
        if isinstance(e, (D.TexCmd, D.TexNamedEnv)) and re.fullmatch(r'[A-Za-z]+\*?', str(e.name)):
            if str(e.name) not in names:
                names.append(str(e.name))
    return names


# Names for which attribute access does NOT go through the search: the
# attributes of the node API as recorded for the pinned source (an observation
# of the unchanged library, DESIGN 8: `soup.text`, `soup.count`, ... are the
# API, not the commands \text, \count).  A name the API gains later is not in
# this list, so a command of that name is expected to be reachable by attribute
# access like any other - a new method that shadows a command name is reported.
try:
    import json as _json
    with open(os.path.join(os.path.dirname(os.path.abspath(__file__)), 'baseline_api.json')) as _f:
        DIR_TEXNODE = set(_json.load(_f))
except Exception:      # noqa
    DIR_TEXNODE = set(dir(TexNode))
NEW_API_NAMES = sorted(n for n in set(dir(TexNode)) - DIR_TEXNODE
                       if re.fullmatch(r'[A-Za-z]+', n))


# ------------------------------------------------------------------- C03

def _ids(nodes):
    return sorted(id(n.expr) for n in nodes)


def check_search(r, src, soup, rng, max_roots):
    names = names_in(soup)
    absent = ['zzabsent', 'nosuchname']
    nodes = all_nodes(soup)
    if len(nodes) > max_roots:
        nodes = [nodes[0]] + rng.sample(nodes[1:], max_roots - 1)
    for node in nodes:
        below = reachable_exprs(node.expr)
        for name in names + absent:
            r.evaluations += 1
            want = sorted(id(e) for e in below if str(e.name) == name)
            try:
                got_nodes = node.find_all(name)
            except BaseException as ex:  # noqa
                r.fail(Failure('C03', 'find_all-raises', src, type(ex).__name__, 'a list',
                               opts={'name': name, 'root': str(node)[:60]}))
                continue
            got = _ids(got_nodes)
            if got != want:
                r.fail(Failure('C03', 'find_all', src,
                               {'found': [str(n)[:40] for n in got_nodes]},
                               {'expected_count': len(want)},
                               opts={'name': name, 'root': str(node)[:60]}))
                continue
            first = node.find(name)
            if (first is None) != (not got_nodes) or \
                    (first is not None and first.expr is not got_nodes[0].expr):
                r.fail(Failure('C03', 'find', src, str(first), 'first of find_all',
                               opts={'name': name}))
            if node.count(name) != len(want):
                r.fail(Failure('C03', 'count', src, node.count(name), len(want),
                               opts={'name': name}))
            if name not in DIR_TEXNODE and not name.startswith('_'):
                ga = getattr(node, name)
                if ga is not None and not isinstance(ga, TexNode):
                    r.fail(Failure('C03', 'getattr', src, repr(ga)[:80], str(first),
                                   opts={'name': name, 'note': 'attribute access does not reach the search'}))
                elif (ga is None) != (first is None) or (ga is not None and ga.expr is not first.expr):
                    r.fail(Failure('C03', 'getattr', src, str(ga), str(first),
                                   opts={'name': name}))
        # list queries: union
        if len(names) >= 2:
            q = [names[0], names[-1], 'zzabsent']
            r.evaluations += 1
            want = sorted(id(e) for e in below if str(e.name) in q)
            got = _ids(node.find_all(q))
            if got != want:
                r.fail(Failure('C03', 'list-query', src, len(got), len(want),
                               opts={'names': q, 'root': str(node)[:60]}))
        # full-expression queries
        cands = [e for e in below if isinstance(e, (D.TexCmd, D.TexNamedEnv))]
        for e in cands[:6]:
            qs = [str(e)] if isinstance(e, D.TexCmd) else [e.begin, e.begin + str(e.args)]
            for q in qs:
                if '{' not in q and '[' not in q:
                    continue
                r.evaluations += 1
                want = sorted(
                    id(x) for x in below
                    if str(x) == q or (isinstance(x, D.TexEnv) and q in (x.begin, x.begin + str(x.args))))
                try:
                    got = _ids(node.find_all(q))
                except BaseException as ex:  # noqa
                    r.fail(Failure('C03', 'full-expression-query-raises', src,
                                   type(ex).__name__, 'a list', opts={'query': q}))
                    continue
                if got != want:
                    r.fail(Failure('C03', 'full-expression-query', src, len(got), len(want),
                                   opts={'query': q, 'root': str(node)[:60]}))


def _c03_chunk(arg):
    cases, max_roots, seed_salt = arg
    r = Result('oracle-C03')
    rng = rng_for('C03', 'roots' + seed_salt)
    for src in cases:
        soup, err = try_parse(src)
        if soup is None:
            r.fail(Failure('C03', 'parse-fails', src, err, 'parse succeeds'))
            continue
        r.saw(src, nontrivial=len(names_in(soup)) > 0)
        check_search(r, src, soup, rng, max_roots)
    return r


def oracle_C03(tier):
    n, depth, mr = (250, 3, 12) if tier == 'quick' else (2500, 5, 40)
    docs = [s for s, _ in inputs.grammar_docs('C03', n, depth)] + inputs.repo_samples()
    # commands named like attributes the node API has gained since the baseline
    for nm in NEW_API_NAMES:
        docs += ['The watermelon\\%s{w} and \\textbf{x \\%s{y}}' % (nm, nm),
                 '\\begin{itemize}\\item a \\%s{w}\\item b\\end{itemize}' % nm]
    res = Result('oracle-C03')
    for i, r in enumerate(pmap(_c03_chunk, [(c, mr, str(i)) for i, c in
                                            enumerate(chunked(docs, NPROC * 2))])):
        res.merge(r)
    res.notes.append('find_all compared with an independent walk over .args/._contents; '
                     'every name of the document + absent names, list and full-expression '
                     'queries, at up to %d search roots per document' % mr)
    return res


# ------------------------------------------------------------------- C04

def same_item(a, b):
    if isinstance(a, TexNode) and isinstance(b, D.TexExpr):
        return a.expr is b
    if isinstance(a, TexNode) or isinstance(b, TexNode):
        return False
    if isinstance(b, D.TexText):
        b = b._text
    return a is b or (str(a) == str(b) and not isinstance(b, D.TexExpr))


def check_views(r, src, soup, is_fresh_parse=True):
    root = soup
    nodes = all_nodes(soup)
    seen = set()
    for node in nodes:
        r.evaluations += 1
        e = node.expr
        exp_all = list(e.all)
        exp_contents = [x for x in exp_all if not (is_text(x) and str(x).isspace())]
        cont = node.contents
        if len(cont) != len(exp_contents) or not all(same_item(a, b) for a, b in zip(cont, exp_contents)):
            r.fail(Failure('C04', 'contents', src, [str(c) for c in cont],
                           [str(c) for c in exp_contents], opts={'node': str(node)[:60]}))
            continue
        raw = raw_items(e)
        if len(raw) != len(exp_all) or not all(
                (a is b) or (is_text(a) and is_text(b) and str(a) == str(b))
                for a, b in zip(exp_all, raw)):
            r.fail(Failure('C04', 'all', src, [str(c) for c in exp_all],
                           [str(c) for c in raw], opts={'node': str(node)[:60]}))
        ch = node.children
        exp_children = [c for c in cont if isinstance(c, TexNode)]
        if [id(c.expr) for c in ch] != [id(c.expr) for c in exp_children]:
            r.fail(Failure('C04', 'children', src, [str(c) for c in ch],
                           [str(c) for c in exp_children], opts={'node': str(node)[:60]}))
        it = list(iter(node))
        if len(it) != len(cont) or not all(
                (isinstance(a, TexNode) and isinstance(b, TexNode) and a.expr is b.expr) or
                (not isinstance(a, TexNode) and a is b) or str(a) == str(b)
                for a, b in zip(it, cont)):
            r.fail(Failure('C04', 'iteration', src, [str(c) for c in it], [str(c) for c in cont]))
        for i in range(len(cont)):
            x = node[i]
            if str(x) != str(cont[i]) or isinstance(x, TexNode) != isinstance(cont[i], TexNode):
                r.fail(Failure('C04', 'indexing', src, str(x), str(cont[i]), opts={'index': i}))
                break
        # indexing follows `contents` for every kind of index a list takes:
        # negative indices, slices, and IndexError out of range
        nc = len(cont)
        got_by_index = []
        for idx in ([-k for k in range(1, nc + 1)] +
                    [slice(None), slice(1, None), slice(None, -1), slice(None, None, -1), slice(0, nc, 2)]):
            try:
                x = node[idx]
            except Exception as ex:     # noqa
                r.fail(Failure('C04', 'indexing', src, type(ex).__name__, 'list(contents)[%r]' % (idx,),
                               opts={'index': repr(idx)}))
                break
            want_x = cont[idx]
            xs, ws = (x, want_x) if isinstance(idx, slice) else ([x], [want_x])
            if (isinstance(idx, slice) and not isinstance(x, list)) or len(xs) != len(ws) or not all(
                    str(a) == str(b) and isinstance(a, TexNode) == isinstance(b, TexNode)
                    and (not isinstance(a, TexNode) or a.expr is b.expr) for a, b in zip(xs, ws)):
                r.fail(Failure('C04', 'indexing', src, repr(x)[:80], repr(want_x)[:80], opts={'index': repr(idx)}))
                break
            got_by_index += [a for a in xs if isinstance(a, TexNode)]
        for bad in (nc, -nc - 1):
            try:
                node[bad]
                r.fail(Failure('C04', 'indexing', src, 'no IndexError', 'IndexError', opts={'index': bad}))
            except IndexError:
                pass
            except Exception as ex:     # noqa
                r.fail(Failure('C04', 'indexing', src, type(ex).__name__, 'IndexError', opts={'index': bad}))
        for c in list(cont) + list(ch) + [x for x in it if isinstance(x, TexNode)] + got_by_index:
            if isinstance(c, TexNode) and c.parent is not node:
                r.fail(Failure('C04', 'parent', src, str(c.parent)[:60], str(node)[:60],
                               opts={'child': str(c)[:60]}))
                break
        desc = list(node.descendants)
        dn = sorted(id(d.expr) for d in desc if isinstance(d, TexNode))
        want = sorted(id(x) for x in reachable_exprs(e))
        if dn != want or len(set(dn)) != len(dn):
            r.fail(Failure('C04', 'descendants', src, len(dn), len(want),
                           opts={'node': str(node)[:60]}))
        dt = sorted(str(d) for d in desc if not isinstance(d, TexNode))
        wt = sorted(str(x) for x in reachable_text(e))
        if dt != wt:
            r.fail(Failure('C04', 'descendants-text', src, dt, wt, opts={'node': str(node)[:60]}))
        tx = [str(t) for t in node.text]
        wtx = [str(t) for t in reachable_text(e)]
        if tx != wtx:
            r.fail(Failure('C04', 'text', src, tx, wtx, opts={'node': str(node)[:60]}))
        else:
            # ... in DOCUMENT order: the leaves occur one after the other in
            # the node's own serialisation
            whole_n, at = str(node), 0
            for leaf in tx:
                k = whole_n.find(leaf, at)
                if k < 0:
                    r.fail(Failure('C04', 'text-order', src, tx, whole_n[:200],
                                   opts={'node': str(node)[:60], 'leaf': leaf[:40]}))
                    break
                at = k + len(leaf)
        for d in desc:
            if isinstance(d, TexNode):
                hops, p = 0, d
                while p is not None and p is not node and hops < 10000:
                    p = p.parent
                    hops += 1
                if p is not node:
                    r.fail(Failure('C04', 'parents-do-not-reach-origin', src,
                                   str(d)[:60], str(node)[:60]))
                    break
    if is_fresh_parse and root.parent is not None:
        r.fail(Failure('C04', 'parent', src, str(root.parent)[:60], 'None (the root has no parent)'))
    whole = ''.join(str(x) for x in root.expr.all)
    if whole != str(root) or (is_fresh_parse and src is not None and whole != src):
        r.fail(Failure('C04', 'root-all-concat', src, whole, src))
    try:
        ra = root.all
        if ''.join(str(x) for x in ra) != str(root) or any(x.parent is not root for x in ra):
            r.fail(Failure('C04', 'root-node-all', src, [str(x) for x in ra], str(root)))
    except AssertionError:
        if not any(not isinstance(c, D.TexExpr) for c in root.expr.all):
            r.fail(Failure('C04', 'root-node-all-raises', src, 'AssertionError', 'a list'))


def _c04_chunk(cases):
    r = Result('oracle-C04')
    for src in cases:
        soup, err = try_parse(src)
        if soup is None:
            r.fail(Failure('C04', 'parse-fails', src, err, 'parse succeeds'))
            continue
        r.saw(src, nontrivial=len(src) > 3)
        check_views(r, src, soup)
    return r


def oracle_C04(tier):
    n, depth = (250, 3) if tier == 'quick' else (2500, 5)
    docs = [s for s, _ in inputs.grammar_docs('C04', n, depth)] + inputs.repo_samples()
    # documents that END in a command without arguments followed by blanks
    # (the root's content list must still concatenate to the whole document)
    for d in docs[:n // 5]:
        docs += [d + '\\endinput\n', d + ' \\x \n ', d + '\\x{a}\n']
    docs += ['\\chapter{One}\nSome \\emph{text}.\n\\endinput\n', '\\title{T}\n\\maketitle\n', '\\x ', '\\x\n']
    # argument lists with textually equal groups (the views walk the list
    # itself, in its own order)
    docs += ['\\cmd{a}{a}{b} t', '\\begin{e}{c}{c}{d}x \\y{z}\\end{e}', '\\cmd[a]{b}[a]{c}', '\\foo{\\x}{\\x}{\\y} \\k{}{}{v}',
             '\\begin{itemize}\\item[q]{q}{r} s\\end{itemize}']
    # commands named like attributes of the node API: navigation must not be
    # confused with a search for such a command (the root has no parent)
    for nm in ('parent', 'expr', 'name', 'args', 'contents', 'children', 'text', 'position', 'string',
               'all', 'descendants', 'count', 'find'):
        docs += ['\\begin{center}\n\\person{Ada}\n\\begin{itemize}\n\\item \\%s{B} and \\%s{A}\n\\item \\child{n}\n'
                 '\\end{itemize}\n\\end{center}\n' % (nm, nm),
                 '\\begin{%s}\\node{x} \\child{\\node{y}}\\end{%s} after' % (nm, nm)]
    res = Result('oracle-C04')
    for r in pmap(_c04_chunk, chunked(docs, NPROC * 2)):
        res.merge(r)
    res.notes.append('evaluations = nodes at which all view relations were checked')
    return res


# ------------------------------------------------------------------- C05

def span_of(node, src):
    pos = node.position
    return pos, pos + len(str(node))


def nth_node(soup, k):
    return all_nodes(soup)[k]


def fresh_material(rng, kinds=None):
    """new nodes (copies of nodes parsed elsewhere) and plain strings"""
    def donor():
        return impl.parse(r'\new{n1}\begin{q}body\end{q}{grp}$m$\textit{it} \item[z] itm')
    pool = [lambda: donor().find('new').copy(), lambda: donor().find('q').copy(),
            lambda: donor().find('textit').copy(), lambda: 'plain text ',
            lambda: 'X', lambda: donor().find('$').copy()]
    k = rng.randint(1, 3)
    return [rng.choice(pool)() for _ in range(k)]


def container_slots(node, src):
    """[(index, source offset)] for every insertion index of node's own
    content list, computed from recorded positions of a round-tripping
    document"""
    e = node.expr
    if not (isinstance(e, D.TexEnv) or (isinstance(e, D.TexCmd) and e.name == 'item')):
        return []
    if e.name == '[tex]':
        start, endpos = 0, len(src)
    else:
        s0, s1 = span_of(node, src)
        if isinstance(e, D.TexCmd):
            start, endpos = None, s1
        else:
            start, endpos = None, s1 - len(e.end)
    offs = []
    off = endpos
    for c in reversed(e._contents):
        off -= len(str(c))
        offs.append(off)
    offs.reverse()
    offs.append(endpos)
    return list(enumerate(offs))


def _c05_chunk(arg):
    cases, salt, per_doc = arg
    r = Result('oracle-C05')
    rng = rng_for('C05', 'edits' + salt)
    for src in cases:
        soup, err = try_parse(src)
        if soup is None or str(soup) != src:
            r.count('skipped:not-roundtripping')
            continue
        nn = len(all_nodes(soup))
        targets = list(range(1, nn))
        if len(targets) > per_doc:
            targets = rng.sample(targets, per_doc)
        for k in targets:
            for op in ('delete', 'replace_with', 'remove', 'replace'):
                soup = impl.parse(src)
                node = nth_node(soup, k)
                a, b = span_of(node, src)
                if src[a:b] != str(node):
                    r.count('skipped:no-true-span')
                    continue
                twins = src.count(str(node)) > 1
                r.saw((src, k, op), nontrivial=True)
                r.count('op:' + op + (':twin' if twins else ''))
                try:
                    if op == 'delete':
                        node.delete()
                        want = src[:a] + src[b:]
                    elif op == 'remove':
                        if not any(c is node.expr for c in node.parent.expr._contents):
                            r.count('skipped:remove-of-argument-child')
                            continue
                        node.parent.remove(node)
                        want = src[:a] + src[b:]
                    else:
                        new = fresh_material(rng)
                        if op == 'replace_with':
                            node.replace_with(*new)
                        else:
                            node.parent.replace(node, *new)
                        want = src[:a] + ''.join(str(x) for x in new) + src[b:]
                except BaseException as ex:  # noqa
                    r.fail(Failure('C05', op + '-raises', src, type(ex).__name__, 'edit applies',
                                   opts={'target_index': k, 'target': src[a:b][:60], 'twins': twins}))
                    continue
                got = str(soup)
                if got != want:
                    r.fail(Failure('C05', op + '-not-local', src, got, want,
                                   opts={'target_index': k, 'target': src[a:b][:60],
                                         'span': [a, b], 'twins': twins}))
        # insert / append at every index of (a sample of) containers
        soup = impl.parse(src)
        conts = [i for i, n in enumerate(all_nodes(soup)) if container_slots(n, src)]
        if len(conts) > max(2, per_doc // 2):
            conts = [0] + rng.sample(conts[1:], max(1, per_doc // 2 - 1))
        for k in conts:
            soup = impl.parse(src)
            slots = container_slots(nth_node(soup, k), src)
            for idx, off in slots + [('append', slots[-1][1])]:
                soup = impl.parse(src)
                node = nth_node(soup, k)
                new = fresh_material(rng)
                r.saw((src, k, 'insert', idx), nontrivial=True)
                r.count('op:insert' if idx != 'append' else 'op:append')
                try:
                    if idx == 'append':
                        node.append(*new)
                    else:
                        node.insert(idx, *new)
                except BaseException as ex:  # noqa
                    r.fail(Failure('C05', 'insert-raises', src, type(ex).__name__, 'edit applies',
                                   opts={'container_index': k, 'index': idx}))
                    continue
                want = src[:off] + ''.join(str(x) for x in new) + src[off:]
                got = str(soup)
                if got != want:
                    r.fail(Failure('C05', 'insert-not-local', src, got, want,
                                   opts={'container_index': k, 'index': idx, 'offset': off}))
    return r


def twin_docs(prop, n):
    """documents in which some node has an identical twin earlier in the same
    container, in an argument of its parent, or elsewhere"""
    rng = rng_for(prop, 'twins')
    out = []
    base = [s for s, _ in inputs.grammar_docs(prop, n, 2, salt='tw', maxchars=200)]
    units = ['\\a{x}', '\\b', '{g}', '$m$', '\\begin{e}y\\end{e}', '\\a{x}', '\\c[o]{p}']
    for s in base:
        u = rng.choice(units)
        out.append(u + ' mid ' + s + u + ' end ' + u)
        out.append('\\begin{e}{' + u + '}' + u + ' t ' + u + '\\end{e}' + s)
        out.append('\\begin{itemize}\\item ' + u + ' a ' + u + '\\item ' + u + '\\end{itemize}')
        out.append('\\w{' + u + ' ' + u + '}{' + u + '}')
    return out


def oracle_C05(tier):
    n, depth, per = (60, 3, 6) if tier == 'quick' else (600, 4, 14)
    docs = [s for s, _ in inputs.grammar_docs('C05', n, depth, maxchars=500)]
    docs += twin_docs('C05', n // 3)
    res = Result('oracle-C05')
    for r in pmap(_c05_chunk, [(c, str(i), per) for i, c in enumerate(chunked(docs, NPROC * 2))]):
        res.merge(r)
    res.notes.append('expected text = string splice at the recorded node position of a '
                     'round-tripping document; fresh parse per edit')
    return res


# ------------------------------------------------------------------- C14

NEW_NAMES = ['renamed', 'zeta', 'Q']
NEW_STRINGS = ['new text', 'z', 'two words']


def name_occurrences(node, src):
    """source spans of the name of a command / named environment node"""
    e = node.expr
    a, b = span_of(node, src)
    if isinstance(e, D.TexCmd):
        return [(a + 1, a + 1 + len(e.name))]
    # \begin{name} ... \end{name}
    nlen = len(e.name)
    return [(a + len('\\begin{'), a + len('\\begin{') + nlen),
            (b - 1 - nlen, b - 1)]


def splice(src, spans, new):
    out, last = [], 0
    for a, b in spans:
        out.append(src[last:a])
        out.append(new)
        last = b
    out.append(src[last:])
    return ''.join(out)


def _c14_chunk(arg):
    cases, salt, per_doc = arg
    r = Result('oracle-C14')
    rng = rng_for('C14', 'edits' + salt)
    for src in cases:
        soup, err = try_parse(src)
        if soup is None or str(soup) != src:
            r.count('skipped:not-roundtripping')
            continue
        nodes = all_nodes(soup)
        idxs = [i for i, n in enumerate(nodes)
                if i > 0 and isinstance(n.expr, (D.TexCmd, D.TexNamedEnv))
                and src[n.position:n.position + len(str(n))] == str(n)]
        if len(idxs) > per_doc:
            idxs = rng.sample(idxs, per_doc)
        for k in idxs:
            # ---- rename
            soup = impl.parse(src)
            node = nth_node(soup, k)
            old = str(node.name)
            new = rng.choice(NEW_NAMES)
            special_old = old in ('item', 'begin', 'end') or isinstance(node.expr, D.TexNamedEnv) and (
                old in impl._pkg.tokens.SKIP_ENV_NAMES or old in impl._pkg.tokens.MATH_ENV_NAMES)
            spans = name_occurrences(node, src)
            r.saw((src, k, 'rename'))
            r.count('op:rename-' + ('env' if isinstance(node.expr, D.TexNamedEnv) else 'cmd'))
            n_old, n_new = soup.count(old), soup.count(new)
            node.name = new
            want = splice(src, spans, new)
            if str(soup) != want:
                r.fail(Failure('C14', 'rename-not-local', src, str(soup), want,
                               opts={'target': str(node)[:60], 'new': new}))
                continue
            if soup.count(new) != n_new + 1 or soup.count(old) != n_old - 1 or \
                    not any(x.expr is node.expr for x in soup.find_all(new)):
                r.fail(Failure('C14', 'rename-not-visible-to-search', src,
                               {'count_new': soup.count(new), 'count_old': soup.count(old)},
                               {'count_new': n_new + 1, 'count_old': n_old - 1},
                               opts={'old': old, 'new': new}))
            # every form of query that selects this node must follow the rename:
            # the full expression text, and for an environment its begin
            # marker with and without the arguments
            # (a query is read as a full expression only when it has a group)
            qs_new = [str(node)] if ('{' in str(node) or '[' in str(node)) else []
            qs_old = []
            if isinstance(node.expr, D.TexNamedEnv):
                a = str(node.expr.args)
                qs_new += ['\\begin{%s}' % new, '\\begin{%s}%s' % (new, a)]
                qs_old += ['\\begin{%s}' % old, '\\begin{%s}%s' % (old, a)]
            for q in qs_new:
                if not any(x.expr is node.expr for x in soup.find_all(q)):
                    r.fail(Failure('C14', 'rename-not-visible-to-search', src, 'not found', 'found',
                                   opts={'old': old, 'new': new, 'query': q}))
                    break
            for q in qs_old:
                if old != new and any(x.expr is node.expr for x in soup.find_all(q)):
                    r.fail(Failure('C14', 'rename-not-visible-to-search', src, 'still found under the old name',
                                   'not found', opts={'old': old, 'new': new, 'query': q}))
                    break
            if not special_old and old not in impl._pkg.reader.SIGNATURES \
                    and old not in impl._pkg.tokens.SPECIAL_COMMANDS \
                    and not (node.expr.args == [] and re.match(r'[A-Za-z*]', src[spans[0][1]:spans[0][1] + 1] or ' ')):
                re_soup, e2 = try_parse(want)
                if re_soup is None:
                    r.fail(Failure('C14', 'rename-reparse-fails', src, e2, 're-parse succeeds',
                                   opts={'edited': want}))
                elif nf_of_contents(re_soup.expr._contents) != nf_of_contents(soup.expr._contents):
                    r.fail(Failure('C14', 'rename-reparse-differs', src,
                                   repr(nf_of_contents(re_soup.expr._contents))[:300],
                                   repr(nf_of_contents(soup.expr._contents))[:300],
                                   opts={'edited': want}))
            # ---- string of a single-argument command / text-only environment
            soup = impl.parse(src)
            node = nth_node(soup, k)
            e = node.expr
            newstr = rng.choice(NEW_STRINGS)
            if isinstance(e, D.TexCmd) and len(e.args) == 1 and isinstance(e.args[0], D.TexGroup) \
                    and e.args[0].position >= 0:
                g = e.args[0]
                ga, gb = g.position, g.position + len(str(g))
                r.saw((src, k, 'string'))
                r.count('op:set-string-cmd')
                node.string = newstr
                want = src[:ga + 1] + newstr + src[gb - 1:]
                if str(soup) != want:
                    r.fail(Failure('C14', 'set-string-not-local', src, str(soup), want,
                                   opts={'target': src[ga:gb][:60]}))
                elif node.string != newstr:
                    r.fail(Failure('C14', 'set-string-not-readable', src, str(node.string), newstr))
            elif isinstance(e, D.TexNamedEnv) and len(node.contents) == 1 and \
                    not isinstance(node.contents[0], TexNode) and not e.args and \
                    sum(1 for c in e._contents if not str(c).isspace()) == 1:
                # (body tokens that are blank are hidden by `contents`; the
                # assignment replaces the WHOLE body)
                a, b = span_of(node, src)
                r.saw((src, k, 'string'))
                r.count('op:set-string-env')
                node.string = newstr
                want = src[:a + len(e.begin)] + newstr + src[b - len(e.end):]
                if str(soup) != want:
                    r.fail(Failure('C14', 'set-string-not-local', src, str(soup), want,
                                   opts={'target': src[a:b][:60]}))
            # ---- argument list: prefix, reversal, slice, permutation
            soup = impl.parse(src)
            node = nth_node(soup, k)
            e = node.expr
            if len(e.args) >= 1 and all(isinstance(g, D.TexGroup) and g.position >= 0 for g in e.args):
                a0 = e.args[0].position
                a1 = e.args[-1].position + len(str(e.args[-1]))
                if src[a0:a1] != str(e.args):
                    continue
                variants = [('prefix', lambda A: A[:len(A) - 1]),
                            ('slice', lambda A: A[1:]),
                            ('reverse', lambda A: A[::-1]),
                            ('rotate', lambda A: A[1:] + A[:1]),
                            ('self-assign', lambda A: A),
                            ('reverse-in-place', lambda A: A[::-1]),
                            ('pop-in-place', lambda A: A[:len(A) - 1]),
                            ('pop-first-in-place', lambda A: A[1:]),
                            ('pop-index-in-place', lambda A: A[:len(A) // 2] + A[len(A) // 2 + 1:])]
                name, fn = rng.choice(variants)
                r.saw((src, k, 'args', name))
                r.count('op:args-' + name)
                groups = list(e.args)
                newgroups = fn(groups)
                if name in ('prefix', 'slice'):
                    node.args = fn(node.args)
                elif name == 'self-assign':
                    node.args = node.args
                elif name == 'reverse-in-place':
                    own = node.args
                    own.reverse()
                    node.args = own
                elif name == 'pop-in-place':
                    own = node.args
                    own.pop()
                    node.args = own
                elif name == 'pop-first-in-place':
                    own = node.args
                    own.pop(0)
                    node.args = own
                elif name == 'pop-index-in-place':
                    own = node.args
                    own.pop(len(own) // 2)
                    node.args = own
                else:
                    na = D.TexArgs(newgroups)
                    node.args = na
                want = src[:a0] + ''.join(str(g) for g in newgroups) + src[a1:]
                if str(soup) != want:
                    r.fail(Failure('C14', 'set-args-not-local', src, str(soup), want,
                                   opts={'target': str(node)[:60], 'variant': name}))
    return r


def oracle_C14(tier):
    n, depth, per = (120, 3, 6) if tier == 'quick' else (1200, 4, 14)
    docs = [s for s, _ in inputs.grammar_docs('C14', n, depth, maxchars=500)]
    # text-only environments whose body is more than one token (a blank line
    # or padding first): assigning .string replaces the WHOLE body
    docs += ['\\begin{abstract}\n  indented text\n\\end{abstract}\n\\begin{quote}\n\nAfter a blank line.\n\\end{quote}\n',
             '\\begin{center}  \n \n  padded  \\end{center}', 'x \\begin{a}\n\n\ny\\end{a} z',
             '\\foo{x}{y}{x} tail \\seq{a}{b}{b}', '\\cmd{a}{a}{c} \\genfrac{}{}{0pt}{}{n}{k}']
    res = Result('oracle-C14')
    for r in pmap(_c14_chunk, [(c, str(i), per) for i, c in enumerate(chunked(docs, NPROC * 2))]):
        res.merge(r)
    return res
