"""K-regex: correspondence between the extracted model of TexNode.search_regex
(coq/theories/Model/Regex.v, run_regex with the literal engine find_literal)
and the real `soup.search_regex(re.escape(pat))`.

Driver line `X regex <strict> <len_pat> <pat cps...> <source cps...>`; answer
`n (len body... has_pos pos)*n status` or `-1 code` (parse error)."""
import os
import re

from common import Failure, Result, chunked, pmap, rng_for, NPROC
import corr
import impl
import inputs

corr.DRIVER = os.environ.get('VERIF_DRIVER', corr.DRIVER)
KIND = 'K-regex'
ERR_CODE = {'EOFError': 1, 'TypeError': 2, 'AssertionError': 3, 'RuntimeError': 4,
            'KeyError': 5, 'AttributeError': 6}
HAND = ['ab \\begin{verbatim} ab $x$ab\\end{verbatim} abab aba', 'a \\textbf b and b', '\\def\\x{b} \\textbf\\x b',
        '\\a{b}[b]{\\c{b} $b$}', '% b\nb \\% b', '\\begin{itemize}\\item b \\item[b] c\\end{itemize}',
        '$$b$$ \\(b\\) \\[b\\]', 'b', '', '\\begin{lstlisting}b\nb\\end{lstlisting}b']


def cases_for(prop, tier):
    rng = rng_for(prop, KIND)
    n = 60 if tier == 'quick' else 600
    docs = [s for s, _ in inputs.grammar_docs(prop, n, 3, salt='kregex', maxchars=400)] + HAND
    cases = []
    for s in docs:
        pats = ['', ' ', 'a', 'b', '\n']
        for _ in range(3):
            if s:
                i = rng.randrange(len(s))
                pats.append(s[i:i + rng.randint(1, 3)])
        for p in pats:
            for strict in (1, 0):
                if strict == 0 and rng.random() < 0.7:
                    continue
                cases.append((s, p, strict))
    return cases


def line_of(case):
    s, p, strict = case
    ints = [strict, len(p)] + [ord(c) for c in p] + [ord(c) for c in s]
    return 'X regex ' + ' '.join(map(str, ints))


def run_impl(case):
    s, p, strict = case
    try:
        soup = impl.with_watchdog(10, impl.parse, s, 0 if strict else 1)
    except impl.Watchdog:
        return None
    except BaseException as e:      # noqa
        return [-1, ERR_CODE.get(type(e).__name__, 99)]
    out, status = [], 0
    gen = soup.search_regex(re.escape(p))
    while True:
        try:
            m = next(gen)
        except StopIteration:
            break
        except AttributeError:
            status = 1
            break
        except TypeError:
            status = 2
            break
        body = str(m)
        out.append([len(body)] + [ord(c) for c in body] + ([1, m.position] if m.position is not None else [0, 0]))
    flat = [len(out)]
    for o in out:
        flat += o
    return flat + [status]


def _impl_chunk(cases):
    return [run_impl(c) for c in cases]


def run(prop, tier):
    r = Result(KIND)
    cases = cases_for(prop, tier)
    model = corr.run_driver([line_of(c) for c in cases])
    implo = []
    for o in pmap(_impl_chunk, chunked(cases, NPROC * 2)):
        implo.extend(o)
    for c, a, b in zip(cases, model, implo):
        if b is None:
            r.count('skipped:watchdog')
            continue
        r.saw((c[0][:80], c[1], c[2]), nontrivial=len(c[0]) > 1)
        r.count('status:%s' % (b[-1] if b[0] != -1 else 'parse-error'))
        bm = ' '.join(map(str, b))
        if a != bm and corr.parse_differs(c[0], 0 if c[2] else 1):
            r.count('skipped:parse-differs')
            continue
        if a != bm:
            r.fail(Failure(prop, KIND, {'source': c[0], 'pattern': c[1], 'strict': c[2]},
                           {'implementation': bm[:400]}, {'model': a[:400]},
                           note='search_regex result differs between model and code'))
    r.notes.append('%d (document, literal pattern, mode) cases' % len(cases))
    return r
