#!/venv/bin/python
"""Translator: regenerate coq/theories/Model/CloGen.v from class
`CharToLineOffset` of $TEXSOUP_REPO/TexSoup/utils.py (default /repo).

__init__ and __call__ are read with the Python `ast` module only (nothing is
imported or executed) and written as terms of the language of
coq/theories/Model/CloDSL.v, one Coq constructor per Python construct.
Proofs/CloGenProofs.v then proves that the generated class computes
Model/CLO.v's `clo` for every source and every offset.

Fail-closed: any statement or expression shape that is not listed in CloDSL.v
raises TranslationError, as does a change of what the reading relies on: the
bases of the class, `import bisect`, a rebinding of len / min / enumerate /
bisect, another assignment to the two attributes inside utils.py, a def of the
class other than __init__/__call__ that could take part in construction, the
call or attribute access (only __repr__, __str__, __eq__, __ne__, __hash__,
__len__, __format__ and public names other than the two attributes may be
added; they are not translated and the two translated bodies call no method),
a class-level statement other than a literal `__slots__` naming both
attributes.

The output depends on the abstract syntax only: comments, docstrings, layout,
annotations and the names of parameters, locals and comprehension variables do
not change it.  Before translation the two defs are normalised
(norm_utils.py; every rewrite preserves behaviour): helper functions inlined,
`b = self.attr` / `b = param` aliases replaced, early returns written as else
branches, `x = ..` in every branch + `return .., x` written as a return in
every branch; `a == b` is written with its operands in a fixed order.

Usage: gen_clo.py <out.v>         exit 0 = written (only if content changed)
                                  exit 2 = translation failed (message on stderr)
"""
import ast
import os
import sys

sys.path.insert(0, os.path.dirname(os.path.abspath(__file__)))
import norm_utils  # noqa: E402

REPO = os.environ.get('TEXSOUP_REPO', '/repo')
FIELDS = {'line_break_positions': 'F_line_break_positions', 'src_len': 'F_src_len'}
BUILTINS = ('len', 'min', 'enumerate', 'object', 'property', 'staticmethod', 'classmethod')
# defs besides __init__/__call__ that may be present without being translated
EXTRA_OK = ('__repr__', '__str__', '__eq__', '__ne__', '__hash__', '__len__', '__format__')


class TranslationError(Exception):
    pass


def need(cond, msg):
    if not cond:
        raise TranslationError(msg)


def where(n):
    return 'line %s' % getattr(n, 'lineno', '?')


def shape(n):
    return ast.dump(n)[:120]


def is_name(n, ident):
    return isinstance(n, ast.Name) and n.id == ident


def strip_doc(body):
    if body and isinstance(body[0], ast.Expr) and isinstance(body[0].value, ast.Constant) \
            and isinstance(body[0].value.value, str):
        return body[1:]
    return body


def zlit(v):
    return '%d%%Z' % v if v >= 0 else '(%d)%%Z' % v


def check_module(tree):
    need(isinstance(tree, ast.Module), 'not a module')
    bound = {}

    def bind(name, how):
        bound.setdefault(name, []).append(how)

    for st in tree.body:
        if isinstance(st, ast.ImportFrom):
            for a in st.names:
                need(a.name != '*', 'star import at %s' % where(st))
                bind(a.asname or a.name, 'from-import')
        elif isinstance(st, ast.Import):
            for a in st.names:
                bind((a.asname or a.name).split('.')[0], 'import ' + a.name)
        elif isinstance(st, (ast.FunctionDef, ast.ClassDef)):
            bind(st.name, 'def')
        elif isinstance(st, (ast.Assign, ast.AnnAssign)):
            for t in (st.targets if isinstance(st, ast.Assign) else [st.target]):
                for x in ast.walk(t):
                    if isinstance(x, ast.Name) and isinstance(x.ctx, ast.Store):
                        bind(x.id, 'assign')
        elif isinstance(st, ast.Expr) and isinstance(st.value, ast.Constant):
            pass
        else:
            raise TranslationError('unexpected module-level statement at %s: %s' % (where(st), shape(st)))
    need(bound.get('bisect') == ['import bisect'], 'binding of `bisect` changed: %s' % bound.get('bisect'))
    need(bound.get('CharToLineOffset') == ['def'], 'binding of CharToLineOffset changed')
    for nm in BUILTINS:
        need(nm not in bound, 'builtin %s is rebound at module level' % nm)
    cl = [st for st in tree.body if isinstance(st, ast.ClassDef) and st.name == 'CharToLineOffset'][0]
    need(len(cl.bases) == 1 and is_name(cl.bases[0], 'object') and not cl.keywords
         and not cl.decorator_list, 'bases/decorators of CharToLineOffset changed')
    for n in ast.walk(tree):
        need(not isinstance(n, (ast.Global, ast.Nonlocal, ast.Delete)),
             'global/nonlocal/del at %s' % where(n))
        if isinstance(n, ast.Call) and isinstance(n.func, ast.Name) \
                and n.func.id in ('setattr', 'delattr', 'exec', 'eval', '__import__'):
            raise TranslationError('%s(...) at %s' % (n.func.id, where(n)))
        if isinstance(n, ast.Attribute) and is_name(n.value, 'bisect') and isinstance(n.ctx, ast.Store):
            raise TranslationError('assignment to bisect.%s at %s' % (n.attr, where(n)))
    # the two attributes are public: inside this module only __init__ may write them
    init_nodes = set()
    for st in cl.body:
        if isinstance(st, ast.FunctionDef) and st.name == '__init__':
            init_nodes |= set(id(x) for x in ast.walk(st))
    for n in ast.walk(tree):
        if isinstance(n, ast.Attribute) and n.attr in FIELDS and not isinstance(n.ctx, ast.Load):
            need(id(n) in init_nodes, 'assignment to .%s outside __init__ at %s' % (n.attr, where(n)))
        if isinstance(n, ast.Attribute) and is_name(n.value, 'CharToLineOffset') \
                and not isinstance(n.ctx, ast.Load):
            raise TranslationError('assignment to an attribute of the class at %s' % where(n))
    meths = {}
    for st in strip_doc(cl.body):
        if isinstance(st, ast.Assign) and len(st.targets) == 1 and is_name(st.targets[0], '__slots__'):
            # __slots__ only changes where the attributes are stored; both must have a slot
            v = st.value
            need(isinstance(v, (ast.Tuple, ast.List)) and all(isinstance(e, ast.Constant)
                 and isinstance(e.value, str) for e in v.elts)
                 and all(f in [e.value for e in v.elts] for f in FIELDS)
                 and '__slots__' not in meths,
                 '__slots__ is not a literal tuple of names with the two attributes at %s' % where(st))
            meths['__slots__'] = st
            continue
        need(isinstance(st, ast.FunctionDef),
             'unexpected statement in the class at %s: %s' % (where(st), shape(st)))
        need(st.name not in meths, '%s is defined twice' % st.name)
        if st.name in ('__init__', '__call__'):
            need(not st.decorator_list, '%s has a decorator' % st.name)
        else:
            # a def that neither construction nor the call can reach (the two translated bodies
            # call no method of self) and that cannot change how attributes are looked up
            need((st.name in EXTRA_OK or not st.name.startswith('_')) and st.name not in FIELDS,
                 'the class defines %s, which may take part in construction / attribute access' % st.name)
            need(all(isinstance(d, ast.Name) and d.id in ('property', 'staticmethod', 'classmethod')
                     for d in st.decorator_list), '%s has an unknown decorator' % st.name)
        meths[st.name] = st
    meths.pop('__slots__', None)
    need('__call__' in meths and '__init__' in meths,
         'the methods of the class changed: %s' % sorted(meths))
    return meths


class Scope(object):
    def __init__(self, fn):
        a = fn.args
        need(not a.vararg and not a.kwonlyargs and not a.kwarg and not a.kw_defaults and not a.defaults
             and not getattr(a, 'posonlyargs', []) and len(a.args) == 2,
             '%s: parameters are not (self, x)' % fn.name)
        self.owner = fn.name
        self.self_name = a.args[0].arg
        need(a.args[1].arg != self.self_name, '%s: repeated parameter' % fn.name)
        self.vars = {a.args[1].arg: 0}
        self.in_init = fn.name == '__init__'
        for n in ast.walk(fn):
            need(not isinstance(n, (ast.FunctionDef, ast.AsyncFunctionDef, ast.ClassDef, ast.Lambda,
                                    ast.Yield, ast.YieldFrom, ast.Await, ast.With, ast.Import,
                                    ast.ImportFrom, ast.For, ast.While, ast.Try, ast.NamedExpr,
                                    ast.GeneratorExp, ast.SetComp, ast.DictComp, ast.Raise,
                                    ast.Starred, ast.AugAssign)) or n is fn,
                 '%s: unsupported construct at %s: %s' % (fn.name, where(n), type(n).__name__))

    def err(self, n, what):
        raise TranslationError('%s, %s: %s: %s' % (self.owner, where(n), what, shape(n)))

    def field(self, n):
        if isinstance(n, ast.Attribute) and is_name(n.value, self.self_name) and n.attr in FIELDS:
            return FIELDS[n.attr]
        return None

    def free(self, name):
        """a global/builtin name not shadowed by a local"""
        return name not in self.vars and name != self.self_name

    def ex(self, n):
        if isinstance(n, ast.Constant) and type(n.value) is int:
            return 'EInt %s' % zlit(n.value)
        if isinstance(n, ast.UnaryOp) and isinstance(n.op, ast.USub) and isinstance(n.operand, ast.Constant) \
                and type(n.operand.value) is int:
            return 'EInt %s' % zlit(-n.operand.value)
        if isinstance(n, ast.Name):
            need(isinstance(n.ctx, ast.Load), 'name context')
            if n.id in self.vars:
                return 'EVar %d%%nat' % self.vars[n.id]
            self.err(n, 'name that is neither the parameter nor a local')
        if isinstance(n, ast.Attribute):
            f = self.field(n)
            if f is not None and isinstance(n.ctx, ast.Load):
                return 'EField %s' % f
            self.err(n, 'unsupported attribute')
        if isinstance(n, ast.BinOp):
            if isinstance(n.op, ast.Add):
                return 'EAdd (%s) (%s)' % (self.ex(n.left), self.ex(n.right))
            if isinstance(n.op, ast.Sub):
                return 'ESub (%s) (%s)' % (self.ex(n.left), self.ex(n.right))
            self.err(n, 'unsupported binary operator')
        if isinstance(n, ast.Subscript):
            idx = n.slice
            if isinstance(idx, getattr(ast, 'Index', ())):
                idx = idx.value
            if isinstance(idx, (ast.Slice, ast.Tuple)) or not isinstance(n.ctx, ast.Load):
                self.err(n, 'unsupported subscript')
            return 'EIndex (%s) (%s)' % (self.ex(n.value), self.ex(idx))
        if isinstance(n, ast.Call):
            need(not n.keywords and not any(isinstance(a, ast.Starred) for a in n.args),
                 '%s: keyword/starred arguments at %s' % (self.owner, where(n)))
            f, a = n.func, n.args
            if isinstance(f, ast.Name) and self.free(f.id):
                if f.id == 'len' and len(a) == 1:
                    return 'ELen (%s)' % self.ex(a[0])
                if f.id == 'min' and len(a) == 2:
                    return 'EMin (%s) (%s)' % (self.ex(a[0]), self.ex(a[1]))
            if isinstance(f, ast.Attribute) and is_name(f.value, 'bisect') and self.free('bisect') \
                    and f.attr == 'bisect_left' and len(a) == 2:
                return 'EBisectLeft (%s) (%s)' % (self.ex(a[0]), self.ex(a[1]))
            self.err(n, 'unsupported call')
        if isinstance(n, ast.ListComp):
            # [i for i, c in enumerate(X) if c == 'ch']
            g = n.generators
            ok = (len(g) == 1 and not g[0].is_async and isinstance(g[0].target, ast.Tuple)
                  and len(g[0].target.elts) == 2 and all(isinstance(e, ast.Name) for e in g[0].target.elts)
                  and isinstance(n.elt, ast.Name) and len(g[0].ifs) == 1)
            if ok:
                iv, cv = g[0].target.elts[0].id, g[0].target.elts[1].id
                it, test = g[0].iter, g[0].ifs[0]
                ok = (iv != cv and n.elt.id == iv
                      and isinstance(it, ast.Call) and is_name(it.func, 'enumerate') and self.free('enumerate')
                      and len(it.args) == 1 and not it.keywords
                      and isinstance(test, ast.Compare) and len(test.ops) == 1
                      and isinstance(test.ops[0], ast.Eq) and is_name(test.left, cv)
                      and isinstance(test.comparators[0], ast.Constant)
                      and isinstance(test.comparators[0].value, str)
                      and len(test.comparators[0].value) == 1)
            if ok:
                return 'EEnumEq (%s) %d%%N' % (self.ex(it.args[0]), ord(test.comparators[0].value))
            self.err(n, 'unsupported list comprehension')
        self.err(n, 'unsupported expression')

    def cond(self, n):
        if isinstance(n, ast.Compare) and len(n.ops) == 1 and isinstance(n.ops[0], ast.Eq):
            # == is only defined on ints here (anything else is OUnsup) and both sides
            # are expressions without effect: the operands are written in a fixed order
            # (variable, attribute, compound expression, literal), `0 == x` as `x == 0`
            a, b = self.ex(n.left), self.ex(n.comparators[0])

            def rank(t):
                return {'EVar': 0, 'EField': 1, 'EInt': 3}.get(t.split()[0], 2)
            if rank(b) < rank(a):
                a, b = b, a
            return 'CEq (%s) (%s)' % (a, b)
        self.err(n, 'unsupported condition')

    def stmt(self, s):
        if isinstance(s, ast.Assign):
            need(len(s.targets) == 1, '%s: chained assignment at %s' % (self.owner, where(s)))
            t = s.targets[0]
            val = self.ex(s.value)
            if isinstance(t, ast.Attribute):
                f = self.field(t)
                if f is None:
                    self.err(s, 'unsupported attribute assignment')
                need(self.in_init, '%s assigns self.%s' % (self.owner, t.attr))
                return ('atom', 'SSetField %s (%s)' % (f, val))
            if isinstance(t, ast.Name):
                need(t.id != self.self_name and t.id not in BUILTINS and t.id != 'bisect',
                     '%s: assignment to %s' % (self.owner, t.id))
                if t.id not in self.vars:
                    self.vars[t.id] = len(self.vars)
                return ('atom', 'SAssign %d%%nat (%s)' % (self.vars[t.id], val))
            self.err(s, 'unsupported assignment target')
        if isinstance(s, ast.Return):
            v = s.value
            need(v is not None, '%s: bare return' % self.owner)
            if isinstance(v, ast.Tuple):
                need(len(v.elts) == 2, '%s: returned tuple is not a pair' % self.owner)
                return ('atom', 'SReturnPair (%s) (%s)' % (self.ex(v.elts[0]), self.ex(v.elts[1])))
            return ('atom', 'SReturn (%s)' % self.ex(v))
        if isinstance(s, ast.If):
            return ('if', self.cond(s.test), self.block(s.body), self.block(s.orelse))
        self.err(s, 'unsupported statement')

    def block(self, body):
        return [self.stmt(s) for s in body]


def normalise(fn, helpers):
    """The def with the behaviour-preserving rewrites of norm_utils applied, so
    that equivalent ways of writing it give the same program: annotations
    dropped; small module-level helper functions inlined; a local that merely
    names a parameter / an attribute of self / a literal replaced by it; early
    `return`s written as else branches; a result variable assigned in every
    branch and returned at the end written as a return in every branch."""
    try:
        fn = norm_utils.strip_annotations(fn)
    except norm_utils.NormError as e:
        raise TranslationError(str(e))
    fn.body = strip_doc(fn.body)
    fn.body = norm_utils.inline_helpers(fn, helpers)
    self_name = fn.args.args[0].arg if fn.args.args else None
    writes_attr = any(isinstance(n, ast.Attribute) and not isinstance(n.ctx, ast.Load) for n in ast.walk(fn))
    stored = set(n.id for n in ast.walk(fn) if isinstance(n, ast.Name) and not isinstance(n.ctx, ast.Load))
    params = set(x.arg for x in fn.args.args)

    def is_atom(e):
        if isinstance(e, ast.Constant) and type(e.value) is int:
            return True
        if isinstance(e, ast.Name):
            return e.id in params and e.id not in stored and e.id != self_name
        return (isinstance(e, ast.Attribute) and is_name(e.value, self_name) and e.attr in FIELDS
                and self_name not in stored and not writes_attr)
    fn.body = norm_utils.inline_aliases(fn, is_atom)
    fn.body = norm_utils.else_nest(fn.body)
    fn.body = norm_utils.sink_tail_return(fn.body)
    return fn


def pp_block(items, ind):
    pad = ' ' * ind
    if not items:
        return [pad + '(blk [])']
    out = [pad + '(blk [']
    for i, it in enumerate(items):
        lines = pp_stmt(it, ind + 2)
        if i < len(items) - 1:
            lines[-1] += ';'
        out.extend(lines)
    out[-1] += '])'
    return out


def pp_stmt(it, ind):
    pad = ' ' * ind
    if it[0] == 'atom':
        return [pad + it[1]]
    if it[0] == 'if':
        return [pad + 'SIf (%s)' % it[1]] + pp_block(it[2], ind + 2) + pp_block(it[3], ind + 2)
    raise TranslationError('internal: %r' % (it,))


def generate():
    with open(os.path.join(REPO, 'TexSoup', 'utils.py')) as f:
        tree = ast.parse(f.read())
    meths = check_module(tree)
    out = []
    w = out.append
    w('(* GENERATED by harness/gen_clo.py from class CharToLineOffset of TexSoup/utils.py -- do not edit.')
    w('   See CloDSL.v for the meaning. *)')
    w('From Coq Require Import List NArith ZArith.')
    w('From TexModel Require Import CLO CloDSL.')
    w('Import ListNotations.')
    w('')
    helpers = norm_utils.helper_table(tree)
    for name, coq in (('__init__', 'gen_clo_init'), ('__call__', 'gen_clo_call')):
        fn = normalise(meths[name], helpers)
        sc = Scope(fn)
        body = fn.body
        need(body, '%s: empty body' % name)
        prog = sc.block(body)
        w('(* def %s *)' % name)
        w('Definition %s : mdef :=' % coq)
        w('  mkM 1%nat')
        lines = pp_block(prog, 4)
        lines[-1] += '.'
        out.extend(lines)
        w('')
    w('Definition gen_clo_cls : cls := mkC gen_clo_init gen_clo_call.')
    return '\n'.join(out) + '\n'


def main():
    outp = sys.argv[1]
    try:
        txt = generate()
    except TranslationError as e:
        sys.stderr.write('TRANSLATION-FAILED: %s\n' % e)
        return 2
    except Exception as e:   # noqa
        sys.stderr.write('TRANSLATION-FAILED: %s: %s\n' % (type(e).__name__, e))
        return 2
    old = None
    if os.path.exists(outp):
        with open(outp) as f:
            old = f.read()
    if old != txt:
        with open(outp, 'w') as f:
            f.write(txt)
        print('CloGen.v rewritten')
    else:
        print('CloGen.v unchanged')
    return 0


if __name__ == '__main__':
    sys.exit(main())
