#!/venv/bin/python
"""Translator: regenerate coq/theories/Model/ViewGen.v from the navigation and
search methods of $TEXSOUP_REPO/TexSoup/data.py (default /repo).

  TexExpr.all / children / contents / __match__        TexEnv.__match__
  TexNode.all / children / contents / descendants / __descendants / text /
          __iter__ / __getitem__ / __match__ / find_all / find / count /
          __getattr__
  TexNode.__init__ (what `TexNode(x)` builds)
  the __str__ methods of TexNode / TexEnv / TexCmd / TexText / TexArgs (what
          `str(x)` returns)

are read with the Python `ast` module only (nothing is imported or executed)
and written as terms of the language of coq/theories/Model/ViewDSL.v, one Coq
constructor per Python construct.  Proofs/ViewGenProofs.v then proves that
interpreting each generated term is the hand-written function of
Model/Views.v (for __init__ / __str__: that it is the interpreter's primitive
reading of `TexNode(x)` / `str(x)`).

Fail-closed: any statement or expression shape that is not listed in
ViewDSL.v raises TranslationError, as does a change of what the reading
relies on:
  * the set of classes of data.py and their bases (the dispatch of the
    interpreter: TexNode / TexEnv and subclasses / other TexExpr);
  * which class defines which translated name (no further override, no further
    __str__), and that no class of the hierarchy defines __getattribute__,
    __bool__, __len__, __setattr__, __format__ ..., nor __getattr__ outside
    TexNode;
  * a rebinding of isinstance / hasattr / getattr / str / list / len / iter /
    filter / super / property / to_list / itertools / the class names;
  * the source of the code the interpreter's primitives stand for, pinned to
    the reference text below (compared after the normalisation described
    next, up to the names of locals): utils.to_list, Token.__new__ (up to its
    `position` / `category` assignments, which no view reads) / __getattr__ /
    __str__, TexExpr.__init__, TexEnv.__init__ / begin / end,
    TexNamedEnv.__init__ / begin / end, TexUnNamedEnv, TexText.__init__,
    TexGroup.__init__.

The output depends on the abstract syntax only: comments, docstrings, layout
and the names of locals do not change it (the names of the parameters are
recorded: a key of a `**` dict that names a parameter is refused);
`filter(lambda x: c, l)`, `(x for x in l if c)` and `[x for x in l if c]` are
the same term.

Before a function is translated (or compared with its pinned reference) it is
NORMALISED, so that the usual behaviour-preserving rewrites give the same
program (section "normalisation" below; every rule is a syntactic identity of
Python, its side condition is checked, and anything else is left alone):
  * annotations are dropped (parameters, return, `x: T = e`);
  * `getattr(x, 'name')` with a constant identifier is `x.name`;
    `k in d.keys()` is `k in d`; `x += e` on a local is `x = x + e` (the
    interpreter adds only str and int, which are immutable; a list is OUnsup);
    `''.join(map(f, l))` is `''.join([f(v) for v in l])`; an f-string with
    plain fields is the %s formatting (both are the term TFormat);
  * `list(e)` around a call / property that is decorated with to_list in every
    class of the hierarchy defining it is `e` (the result is already a fresh
    list, and the language has no operation that tells a list from its copy);
  * a module-level helper function (plain `def`, positional parameters that
    are never assigned, one `return` at the end, no yield) called with names /
    constants is inlined: an expression helper anywhere, a helper with
    statements where the call is the whole right-hand side / yielded /
    returned value;
  * `t = a if c else b`, `return a if c else b` are the if statements;
  * `yield from e` is `for v in e: yield v` (v fresh);
  * `return [not] any/all(c for x in l)` (generator argument: short-circuit)
    is the loop with an early return;
  * `if c: ..return else: rest` is `if c: ..return` followed by rest;
  * a local assigned once, read once, the read being the first thing the next
    statement evaluates, is replaced by its definition.
A private or otherwise unknown method of TexNode / TexExpr / TexEnv that a
translated body calls is translated as well (method name `M_extra i`).

Usage: gen_views.py <out.v>       exit 0 = written (only if content changed)
                                  exit 2 = translation failed (message on stderr)
"""
import ast
import os
import sys

REPO = os.environ.get('TEXSOUP_REPO', '/repo')


class TranslationError(Exception):
    pass


def need(cond, msg):
    if not cond:
        raise TranslationError(msg)


def where(n):
    return 'line %s' % getattr(n, 'lineno', '?')


def shape(n):
    return ast.dump(n)[:120]


def is_name(n, ident):
    return isinstance(n, ast.Name) and n.id == ident


def strip_doc(body):
    if body and isinstance(body[0], ast.Expr) and isinstance(body[0].value, ast.Constant) \
            and isinstance(body[0].value.value, str):
        return body[1:]
    return body


# ---------------------------------------------------------------- normalisation
#
# Every rule below rewrites a function into one that Python evaluates in the
# same way (same calls in the same order, same values, same exceptions); the
# side condition of each rule is checked syntactically and a rule that does not
# apply leaves the code as it is (so it is then translated, or refused, as
# written).  Fresh names contain `%` and cannot clash with Python identifiers.

class Norm(object):
    """context of the normalisation of one module"""

    def __init__(self, helpers=None, tolist=()):
        self.helpers = helpers or {}      # name -> helper description
        self.tolist = set(tolist)         # attribute names that always denote a fresh list
        self.n = 0

    def fresh(self, base='t'):
        self.n += 1
        return '%%%s%d' % (base, self.n)


def is_ident(s):
    return isinstance(s, str) and s.isidentifier() and not (s.startswith('__') and not s.endswith('__'))


def bound_names(fn):
    """every name bound anywhere inside the function (parameters included)"""
    out = set()
    a = fn.args
    for x in a.args + a.kwonlyargs + getattr(a, 'posonlyargs', []) + \
            ([a.vararg] if a.vararg else []) + ([a.kwarg] if a.kwarg else []):
        out.add(x.arg)
    for n in ast.walk(fn):
        if isinstance(n, ast.Name) and not isinstance(n.ctx, ast.Load):
            out.add(n.id)
        elif isinstance(n, ast.arg):
            out.add(n.arg)
        elif isinstance(n, ast.ExceptHandler) and n.name:
            out.add(n.name)
        elif isinstance(n, (ast.FunctionDef, ast.ClassDef)) and n is not fn:
            out.add(n.name)
        elif isinstance(n, (ast.Import, ast.ImportFrom)):
            for al in n.names:
                out.add((al.asname or al.name).split('.')[0])
    return out


def param_names(fn):
    a = fn.args
    return [x.arg for x in getattr(a, 'posonlyargs', []) + a.args + a.kwonlyargs
            + ([a.vararg] if a.vararg else []) + ([a.kwarg] if a.kwarg else [])]


class _Subst(ast.NodeTransformer):
    def __init__(self, mapping):
        self.mapping = mapping

    def visit_Name(self, n):
        if n.id in self.mapping:
            new = self.mapping[n.id]
            if isinstance(new, str):
                return ast.copy_location(ast.Name(id=new, ctx=n.ctx), n)
            if isinstance(n.ctx, ast.Load):
                return ast.copy_location(_copy(new), n)
        return n


def _copy(n):
    import copy
    return copy.deepcopy(n)


def helper_info(fn):
    """a module-level def that may be inlined, or None"""
    a = fn.args
    if fn.decorator_list or a.vararg or a.kwarg or a.kwonlyargs or a.defaults or a.kw_defaults \
            or getattr(a, 'posonlyargs', []):
        return None
    params = [x.arg for x in a.args]
    if len(set(params)) != len(params):
        return None
    body = strip_doc(fn.body)
    if not body or not isinstance(body[-1], ast.Return) or body[-1].value is None:
        return None
    for n in ast.walk(fn):
        if n is fn:
            continue
        if isinstance(n, (ast.FunctionDef, ast.AsyncFunctionDef, ast.ClassDef, ast.Lambda, ast.Yield,
                          ast.YieldFrom, ast.Await, ast.Global, ast.Nonlocal, ast.Import,
                          ast.ImportFrom, ast.NamedExpr, ast.Delete, ast.Try, ast.With)):
            return None
        if isinstance(n, ast.Return) and n is not body[-1]:
            return None
        if isinstance(n, ast.Name) and n.id in params and not isinstance(n.ctx, ast.Load):
            return None
        if isinstance(n, ast.Name) and n.id == fn.name:
            return None                       # recursive
        if isinstance(n, ast.comprehension):
            for x in ast.walk(n.target):
                if isinstance(x, ast.Name) and x.id in params:
                    return None
    locs = bound_names(fn) - set(params)
    free = set(n.id for n in ast.walk(fn) if isinstance(n, ast.Name)) - locs - set(params)
    return dict(name=fn.name, params=params, body=body, locals=sorted(locs), free=free,
                is_expr=(len(body) == 1))


def atomic(n):
    return isinstance(n, ast.Name) and isinstance(n.ctx, ast.Load) or \
        (isinstance(n, ast.Constant) and (n.value is None or type(n.value) in (bool, int, str)))


class _ExprRules(ast.NodeTransformer):
    """the expression-level identities"""

    def __init__(self, nm, scope_names):
        self.nm = nm
        self.scope = scope_names    # names bound in the function being normalised

    def free(self, name):
        return name not in self.scope

    def visit_Call(self, n):
        self.generic_visit(n)
        f = n.func
        if isinstance(f, ast.Name) and self.free(f.id) and not n.keywords \
                and not any(isinstance(x, ast.Starred) for x in n.args):
            # getattr(x, 'name') = x.name
            if f.id == 'getattr' and len(n.args) == 2 and isinstance(n.args[1], ast.Constant) \
                    and is_ident(n.args[1].value):
                return ast.copy_location(ast.Attribute(value=n.args[0], attr=n.args[1].value,
                                                       ctx=ast.Load()), n)
            # list(x.m(..)) / list(x.m) = the fresh list m returns
            if f.id == 'list' and len(n.args) == 1:
                e = n.args[0]
                at = e.func if isinstance(e, ast.Call) else e
                if isinstance(at, ast.Attribute) and at.attr in self.nm.tolist:
                    return e
            # an expression helper
            h = self.nm.helpers.get(f.id)
            if h and h['is_expr'] and len(n.args) == len(h['params']) and all(atomic(x) for x in n.args) \
                    and not (h['free'] & self.scope) and not h['locals']:
                e = _Subst(dict(zip(h['params'], n.args))).visit(_copy(h['body'][0].value))
                e = _ExprRules(self.nm, self.scope).visit(e)
                return ast.copy_location(e, n)
        # ''.join(map(f, l)) = ''.join([f(v) for v in l])
        if isinstance(f, ast.Attribute) and f.attr == 'join' and len(n.args) == 1 and not n.keywords \
                and isinstance(n.args[0], ast.Call) and isinstance(n.args[0].func, ast.Name) \
                and n.args[0].func.id == 'map' and self.free('map') and len(n.args[0].args) == 2 \
                and not n.args[0].keywords and isinstance(n.args[0].args[0], ast.Name):
            m = n.args[0]
            v = self.nm.fresh('m')
            comp = ast.ListComp(
                elt=ast.Call(func=m.args[0], args=[ast.Name(id=v, ctx=ast.Load())], keywords=[]),
                generators=[ast.comprehension(target=ast.Name(id=v, ctx=ast.Store()), iter=m.args[1],
                                              ifs=[], is_async=0)])
            n.args = [ast.copy_location(comp, m)]
            ast.fix_missing_locations(n)
        return n

    def visit_Compare(self, n):
        self.generic_visit(n)
        # k in d.keys() = k in d
        if len(n.ops) == 1 and isinstance(n.ops[0], (ast.In, ast.NotIn)):
            c = n.comparators[0]
            if isinstance(c, ast.Call) and isinstance(c.func, ast.Attribute) and c.func.attr == 'keys' \
                    and not c.args and not c.keywords:
                n.comparators = [c.func.value]
        return n


def terminates(body):
    if not body:
        return False
    s = body[-1]
    if isinstance(s, (ast.Return, ast.Raise, ast.Continue, ast.Break)):
        return True
    if isinstance(s, ast.If):
        return terminates(s.body) and terminates(s.orelse)
    return False


def sub_blocks(s):
    """the statement lists directly inside a statement, as (object, field) pairs"""
    out = []
    for fld in ('body', 'orelse', 'finalbody'):
        v = getattr(s, fld, None)
        if isinstance(v, list) and (not v or isinstance(v[0], ast.stmt)):
            out.append((s, fld))
    for h in getattr(s, 'handlers', []) or []:
        out.append((h, 'body'))
    return out


def map_blocks(body, f):
    """apply f (list of statements -> list of statements) bottom-up to every block"""
    for s in body:
        if isinstance(s, (ast.FunctionDef, ast.AsyncFunctionDef, ast.ClassDef)):
            continue
        for obj, fld in sub_blocks(s):
            setattr(obj, fld, map_blocks(getattr(obj, fld), f))
    return f(body)


def any_all_loop(nm, s):
    """return [not] any/all(c for x in l)  ->  the loop (generator argument only)"""
    if not isinstance(s, ast.Return) or s.value is None:
        return None
    v, neg = s.value, False
    if isinstance(v, ast.UnaryOp) and isinstance(v.op, ast.Not):
        v, neg = v.operand, True
    if not (isinstance(v, ast.Call) and isinstance(v.func, ast.Name) and v.func.id in ('any', 'all')
            and len(v.args) == 1 and not v.keywords and isinstance(v.args[0], ast.GeneratorExp)):
        return None
    g = v.args[0]
    if len(g.generators) != 1 or g.generators[0].is_async:
        return None
    gen = g.generators[0]
    is_any = v.func.id == 'any'
    # any: `if c: return not neg`, at the end `return neg`;  all: `if not c: return neg`, at the end `return not neg`
    if is_any:
        test = g.elt
    elif isinstance(g.elt, ast.UnaryOp) and isinstance(g.elt.op, ast.Not):
        test = g.elt.operand      # `if not not c` tests what `if c` tests
    else:
        test = ast.UnaryOp(op=ast.Not(), operand=g.elt)
    hit = (not neg) if is_any else neg
    inner = ast.If(test=test, body=[ast.Return(value=ast.Constant(value=hit))], orelse=[])
    for c in reversed(gen.ifs):
        inner = ast.If(test=c, body=[inner], orelse=[])
    loop = ast.For(target=_store(gen.target), iter=gen.iter, body=[inner], orelse=[])
    last = ast.Return(value=ast.Constant(value=not hit))
    for x in (loop, last):
        ast.copy_location(x, s)
        ast.fix_missing_locations(x)
    return [loop, last]


def _store(t):
    t = _copy(t)
    for x in ast.walk(t):
        if isinstance(x, (ast.Name, ast.Tuple, ast.List, ast.Starred)):
            x.ctx = ast.Store()
    return t


def first_leaf(n, t):
    """the Name node `t` if it is the first thing evaluated by statement / expression n, else None"""
    if n is None:
        return None
    if isinstance(n, ast.Name):
        return n if (n.id == t and isinstance(n.ctx, ast.Load)) else None
    if isinstance(n, ast.Expr):
        v = n.value
        if isinstance(v, (ast.Yield, ast.YieldFrom)):
            return first_leaf(v.value, t)
        return first_leaf(v, t)
    if isinstance(n, ast.Assign):
        return first_leaf(n.value, t)
    if isinstance(n, (ast.Return,)):
        return first_leaf(n.value, t)
    if isinstance(n, (ast.If, ast.Assert, ast.IfExp)):
        return first_leaf(n.test, t)
    if isinstance(n, ast.For):
        return first_leaf(n.iter, t)
    if isinstance(n, (ast.Attribute, ast.Subscript, ast.Starred)):
        return first_leaf(n.value, t) if isinstance(getattr(n, 'ctx', ast.Load()), ast.Load) else None
    if isinstance(n, ast.Call):
        if isinstance(n.func, ast.Name):
            if n.func.id == t:
                return None
            return first_leaf(n.args[0], t) if n.args else None
        return first_leaf(n.func, t)
    if isinstance(n, ast.BinOp):
        return first_leaf(n.left, t)
    if isinstance(n, ast.BoolOp):
        return first_leaf(n.values[0], t)
    if isinstance(n, ast.Compare):
        return first_leaf(n.left, t)
    if isinstance(n, ast.UnaryOp):
        return first_leaf(n.operand, t)
    if isinstance(n, (ast.Tuple, ast.List, ast.Set)):
        if not n.elts or not isinstance(getattr(n, 'ctx', ast.Load()), ast.Load):
            return None
        return first_leaf(n.elts[0], t)
    if isinstance(n, (ast.ListComp, ast.GeneratorExp, ast.SetComp)):
        return first_leaf(n.generators[0].iter, t)
    return None


class _ReplaceNode(ast.NodeTransformer):
    def __init__(self, old, new):
        self.old, self.new = old, new

    def visit(self, n):
        if n is self.old:
            return self.new
        return self.generic_visit(n)


def normalise_fn(fn, nm):
    """a normalised deep copy of the FunctionDef fn"""
    fn = _copy(fn)
    fn.body = strip_doc(fn.body)
    # ---- annotations
    fn.returns = None
    for x in ast.walk(fn.args):
        if isinstance(x, ast.arg):
            x.annotation = None
    scope = bound_names(fn)

    def ann(body):
        out = []
        for s in body:
            if isinstance(s, ast.AnnAssign):
                # `x: T` alone makes x a local without binding it: not a statement of the fragment
                need(s.value is not None, 'annotation without a value at %s' % where(s))
                s = ast.copy_location(ast.Assign(targets=[s.target], value=s.value), s)
            elif isinstance(s, ast.AugAssign) and isinstance(s.target, ast.Name) \
                    and isinstance(s.op, ast.Add):
                s = ast.copy_location(ast.Assign(
                    targets=[s.target],
                    value=ast.BinOp(left=ast.Name(id=s.target.id, ctx=ast.Load()), op=ast.Add(),
                                    right=s.value)), s)
                ast.fix_missing_locations(s)
            elif isinstance(s, ast.Pass) or (isinstance(s, ast.Expr) and isinstance(s.value, ast.Constant)
                                             and isinstance(s.value.value, str)):
                continue
            out.append(s)
        return out
    fn.body = map_blocks(fn.body, ann)
    # ---- expression identities (and expression helpers)
    rules = _ExprRules(nm, scope)
    fn.body = [rules.visit(s) for s in fn.body]

    # ---- helpers with statements: x = h(..) / return h(..) / yield h(..) / h(..)
    def call_site(s):
        """(call, rebuild) if the statement is a whole-value call of a statement helper"""
        if isinstance(s, ast.Assign):
            v, mk = s.value, lambda e: ast.Assign(targets=s.targets, value=e)
        elif isinstance(s, ast.Return):
            v, mk = s.value, lambda e: ast.Return(value=e)
        elif isinstance(s, ast.Expr) and isinstance(s.value, ast.Yield):
            v, mk = s.value.value, lambda e: ast.Expr(value=ast.Yield(value=e))
        elif isinstance(s, ast.Expr):
            v, mk = s.value, lambda e: ast.Expr(value=e)
        else:
            return None
        if not (isinstance(v, ast.Call) and isinstance(v.func, ast.Name) and v.func.id not in scope
                and not v.keywords):
            return None
        h = nm.helpers.get(v.func.id)
        if not h or h['is_expr'] or len(v.args) != len(h['params']) or not all(atomic(x) for x in v.args) \
                or (h['free'] & scope):
            return None
        return v, h, mk

    def inline(body):
        out = []
        for s in body:
            site = call_site(s)
            if site is None:
                out.append(s)
                continue
            v, h, mk = site
            mapping = dict(zip(h['params'], v.args))
            for l in h['locals']:
                mapping[l] = nm.fresh('h')
                scope.add(mapping[l])
            stmts = [_Subst(mapping).visit(_copy(x)) for x in h['body']]
            stmts = [rules.visit(x) for x in map_blocks(stmts, ann)]
            last = stmts.pop()
            for x in stmts:
                for y in ast.walk(x):
                    if hasattr(y, 'lineno'):
                        y.lineno = s.lineno
            new = ast.copy_location(mk(last.value), s)
            ast.fix_missing_locations(new)
            out.extend(stmts)
            out.append(new)
        return out
    fn.body = map_blocks(fn.body, inline)

    # ---- conditional expressions as statements, yield from, any / all
    def stmts(body):
        out = []
        for s in body:
            if isinstance(s, ast.Assign) and isinstance(s.value, ast.IfExp):
                v = s.value
                new = ast.If(test=v.test, body=[ast.Assign(targets=s.targets, value=v.body)],
                             orelse=[ast.Assign(targets=_copy(s.targets), value=v.orelse)])
                ast.copy_location(new, s)
                ast.fix_missing_locations(new)
                new.body = stmts(new.body)
                new.orelse = stmts(new.orelse)
                out.append(new)
                continue
            if isinstance(s, ast.Return) and isinstance(s.value, ast.IfExp):
                v = s.value
                new = ast.If(test=v.test, body=[ast.Return(value=v.body)], orelse=[ast.Return(value=v.orelse)])
                ast.copy_location(new, s)
                ast.fix_missing_locations(new)
                new.body = stmts(new.body)
                new.orelse = stmts(new.orelse)
                out.append(new)
                continue
            if isinstance(s, ast.Expr) and isinstance(s.value, ast.YieldFrom):
                v = nm.fresh('y')
                scope.add(v)
                new = ast.For(target=ast.Name(id=v, ctx=ast.Store()), iter=s.value.value,
                              body=[ast.Expr(value=ast.Yield(value=ast.Name(id=v, ctx=ast.Load())))],
                              orelse=[])
                ast.copy_location(new, s)
                ast.fix_missing_locations(new)
                out.append(new)
                continue
            r = any_all_loop(nm, s)
            if r is not None:
                for x in ast.walk(r[0].target):
                    if isinstance(x, ast.Name):
                        scope.add(x.id)
                out.extend(r)
                continue
            out.append(s)
        return out
    fn.body = map_blocks(fn.body, stmts)

    # ---- else after a branch that always leaves
    def flat(body):
        out = []
        for s in body:
            out.append(s)
            if isinstance(s, ast.If) and s.orelse and terminates(s.body):
                rest, s.orelse = s.orelse, []
                out.extend(rest)
        return out
    fn.body = map_blocks(fn.body, flat)

    # ---- single-use temporaries
    params = set(param_names(fn))
    changed = True
    while changed:
        changed = False
        loads, stores = {}, {}
        for x in ast.walk(fn):
            if isinstance(x, ast.Name):
                d = loads if isinstance(x.ctx, ast.Load) else stores
                d[x.id] = d.get(x.id, 0) + 1

        def temps(body):
            nonlocal changed
            out = list(body)
            i = 0
            while i + 1 < len(out):
                s = out[i]
                if isinstance(s, ast.Assign) and len(s.targets) == 1 and isinstance(s.targets[0], ast.Name) \
                        and not changed:
                    t = s.targets[0].id
                    if t not in params and stores.get(t) == 1 and loads.get(t) == 1 \
                            and not any(isinstance(x, (ast.Yield, ast.YieldFrom, ast.NamedExpr, ast.Lambda))
                                        for x in ast.walk(s.value)):
                        leaf = first_leaf(out[i + 1], t)
                        if leaf is not None:
                            out[i + 1] = _ReplaceNode(leaf, s.value).visit(out[i + 1])
                            del out[i]
                            changed = True
                            continue
                i += 1
            return out
        fn.body = map_blocks(fn.body, temps)
    ast.fix_missing_locations(fn)
    return fn


def alpha(fn):
    """rename the locals (not the parameters) of a normalised function by first occurrence"""
    params = set(param_names(fn))
    mapping = {}
    for x in ast.walk(fn):           # ast.walk is breadth-first and deterministic
        if isinstance(x, ast.Name) and not isinstance(x.ctx, ast.Load) and x.id not in params \
                and x.id not in mapping:
            mapping[x.id] = '%%l%d' % len(mapping)
    return _Subst(mapping).visit(fn)


def norm_fn(fn, nm=None, drop_attrs=()):
    fn = normalise_fn(fn, nm or Norm())
    if drop_attrs:
        def pure(e):
            return all(isinstance(x, (ast.Name, ast.Constant, ast.BoolOp, ast.And, ast.Or, ast.Load,
                                      ast.Attribute)) and
                       (not isinstance(x, ast.Attribute) or (x.attr in drop_attrs and isinstance(x.value, ast.Name)))
                       for x in ast.walk(e))

        def drop(body):
            return [s for s in body
                    if not (isinstance(s, ast.Assign) and len(s.targets) == 1
                            and isinstance(s.targets[0], ast.Attribute) and s.targets[0].attr in drop_attrs
                            and isinstance(s.targets[0].value, ast.Name) and pure(s.value))]
        fn.body = map_blocks(fn.body, drop)
    fn = alpha(fn)
    return (ast.dump(fn.args), [ast.dump(x) for x in fn.body],
            [ast.dump(d) for d in fn.decorator_list])


def zlit(v):
    return '%d%%Z' % v if v >= 0 else '(%d)%%Z' % v


def strlit(s):
    if s == '':
        return '[]'
    return '[%s]%%N' % '; '.join(str(ord(ch)) for ch in s)


# ---------------------------------------------------------------- the fragment

MNAME = {'all': 'M_all', 'children': 'M_children', 'contents': 'M_contents',
         'descendants': 'M_descendants', '__descendants': 'M_priv_descendants', 'text': 'M_text',
         '__iter__': 'M_iter', '__getitem__': 'M_getitem', '__match__': 'M_match',
         'find_all': 'M_find_all', 'find': 'M_find', 'count': 'M_count', '__getattr__': 'M_getattr'}
MORDER = ['all', 'children', 'contents', 'descendants', '__descendants', 'text', '__iter__',
          '__getitem__', '__match__', 'find_all', 'find', 'count', '__getattr__']
ATTR = {'expr': 'A_expr', 'args': 'A_args', '_contents': 'A_contents_', '_text': 'A_text_',
        'name': 'A_name', 'begin': 'A_begin', 'end': 'A_end',
        'preserve_whitespace': 'A_preserve_whitespace', '_begin': 'A_begin_', '_end': 'A_end_'}
CNAME = {'TexNode': 'CTexNode', 'TexExpr': 'CTexExpr', 'TexText': 'CTexText', 'TexCmd': 'CTexCmd',
         'TexEnv': 'CTexEnv', 'str': 'CStr', 'list': 'CList', 'TexGroup': 'CTexGroup',
         'BraceGroup': 'CBraceGroup', 'BracketGroup': 'CBracketGroup', 'TexNamedEnv': 'CTexNamedEnv'}
EXN = {'IndexError': 'XIndex', 'AssertionError': 'XAssertion'}
BUILTINS = ('isinstance', 'hasattr', 'getattr', 'str', 'list', 'len', 'iter', 'filter', 'super',
            'property', 'IndexError', 'AssertionError', 'object', 'any', 'all', 'map')
# the instance attributes TexNode.__init__ sets, in the order of their slots
NODE_FIELDS = ['expr', 'parent', 'char_to_line']

# class -> (kind, translated methods in output order)
TABLE = [
    ('TexExpr', 'KExpr', ['all', 'children', 'contents', '__match__']),
    ('TexEnv', 'KEnv', ['__match__']),
    ('TexNode', 'KNode', ['all', 'children', 'contents', 'descendants', '__descendants', 'text',
                          '__iter__', '__getitem__', '__match__', 'find_all', 'find', 'count',
                          '__getattr__']),
]

BASES = {
    'TexNode': ['object'], 'TexExpr': ['object'], 'TexEnv': ['TexExpr'], 'TexNamedEnv': ['TexEnv'],
    'TexUnNamedEnv': ['TexEnv'], 'TexDisplayMathModeEnv': ['TexUnNamedEnv'],
    'TexMathModeEnv': ['TexUnNamedEnv'], 'TexDisplayMathEnv': ['TexUnNamedEnv'],
    'TexMathEnv': ['TexUnNamedEnv'], 'TexCmd': ['TexExpr'], 'TexText': ['TexExpr', 'str'],
    'TexGroup': ['TexUnNamedEnv'], 'BracketGroup': ['TexGroup'], 'BraceGroup': ['TexGroup'],
    'TexArgs': ['list'],
}
HIER = [c for c in BASES if c != 'TexArgs']
LEAVES = ['TexDisplayMathModeEnv', 'TexMathModeEnv', 'TexDisplayMathEnv', 'TexMathEnv',
          'BracketGroup', 'BraceGroup']

# which classes of HIER may define (def or class-level assignment) these names
DEFINERS = {
    'all': ['TexExpr', 'TexNode'], 'children': ['TexExpr', 'TexNode'],
    'contents': ['TexExpr', 'TexNode'], 'descendants': ['TexNode'], '__descendants': ['TexNode'],
    'text': ['TexNode'], '__iter__': ['TexNode'], '__getitem__': ['TexNode'],
    '__match__': ['TexEnv', 'TexExpr', 'TexNode'], 'find_all': ['TexNode'], 'find': ['TexNode'],
    'count': ['TexNode'], '__getattr__': ['TexNode'],
    'begin': sorted(['TexEnv', 'TexNamedEnv', 'TexUnNamedEnv'] + LEAVES),
    'end': sorted(['TexEnv', 'TexNamedEnv', 'TexUnNamedEnv'] + LEAVES),
    'name': sorted(['TexNode', 'TexUnNamedEnv'] + LEAVES),
    'args': ['TexNode'], 'expr': [], 'parent': [], '_contents': [], '_text': [],
    'preserve_whitespace': [],
    '__getattribute__': [], '__bool__': [], '__len__': [], '__setattr__': [], '__delattr__': [],
    '__new__': [], '__class__': [], '__init_subclass__': [], '__set_name__': [],
    '__instancecheck__': [], '__subclasscheck__': [], '__slots__': [], '__dict__': [],
    '_begin': ['TexEnv'], '_end': ['TexEnv'],
    '__str__': ['TexCmd', 'TexEnv', 'TexNode', 'TexText'], '__format__': [],
}

# the __str__ methods: translated and proved to be the interpreter's reading of str()
STR_TABLE = ['TexNode', 'TexEnv', 'TexCmd', 'TexText', 'TexArgs']

PINNED_DATA = r'''
class TexExpr(object):
    def __init__(self, name, contents=(), args=(), preserve_whitespace=False,
                 position=-1):
        self.name = name.strip()
        self.args = TexArgs(args)
        self.parent = None
        self._contents = list(contents) or []
        self.preserve_whitespace = preserve_whitespace
        self.position = position

        for content in contents:
            if isinstance(content, (TexEnv, TexCmd)):
                content.parent = self

class TexEnv(TexExpr):
    _begin = None
    _end = None

    def __init__(self, name, begin, end, contents=(), args=(),
                 preserve_whitespace=False, position=-1):
        super().__init__(name, contents, args, preserve_whitespace, position)
        self._begin = begin
        self._end = end

    @property
    def begin(self):
        return self._begin

    @property
    def end(self):
        return self._end

class TexNamedEnv(TexEnv):
    def __init__(self, name, contents=(), args=(), preserve_whitespace=False,
                 position=-1):
        super().__init__(name, r"\begin{%s}" % name, r"\end{%s}" % name,
                         contents, args, preserve_whitespace, position=position)

    @property
    def begin(self):
        return r"\begin{%s}" % self.name

    @property
    def end(self):
        return r"\end{%s}" % self.name

class TexUnNamedEnv(TexEnv):
    name = None
    begin = None
    end = None

    def __init__(self, contents=(), args=(), preserve_whitespace=False,
                 position=-1):
        assert self.name, 'Name must be non-falsey'
        assert self.begin and self.end, 'Delimiters must be non-falsey'
        super().__init__(self.name, self.begin, self.end,
                         contents, args, preserve_whitespace, position=position)

class TexText(TexExpr, str):
    def __init__(self, text, position=-1):
        super().__init__('text', [text], position=position)
        self._text = text

class TexGroup(TexUnNamedEnv):
    def __init__(self, *contents, preserve_whitespace=False, position=-1):
        super().__init__(contents, preserve_whitespace=preserve_whitespace,
                         position=position)

'''

# assignments of a pinned function that no view depends on (dropped on both
# sides before the comparison, only when their right-hand side is built from
# names, these attributes of names, and / or)
PINNED_DROP = {'Token.__new__': ('position', 'category')}

PINNED_UTILS = r'''
class Token(str):
    def __new__(cls, text='', position=None, category=None):
        self = str.__new__(cls, text)
        if isinstance(text, Token):
            self.text = text.text
            self.position = text.position
            self.category = category or text.category
        else:
            self.text = text
            self.position = position
            self.category = category
        return self

    def __str__(self):
        return str(self.text)

    def __getattr__(self, name):
        return getattr(self.text, name)

def to_list(f):
    @functools.wraps(f)
    def wrapper(*args, **kwargs):
        return list(f(*args, **kwargs))
    return wrapper
'''


def class_members(cl):
    """name -> list of defining statements directly in the class body"""
    out = {}
    for st in cl.body:
        if isinstance(st, (ast.FunctionDef, ast.AsyncFunctionDef, ast.ClassDef)):
            out.setdefault(st.name, []).append(st)
        elif isinstance(st, ast.Assign):
            for t in st.targets:
                for x in ast.walk(t):
                    if isinstance(x, ast.Name):
                        out.setdefault(x.id, []).append(st)
        elif isinstance(st, (ast.AnnAssign, ast.AugAssign)):
            for x in ast.walk(st.target):
                if isinstance(x, ast.Name):
                    out.setdefault(x.id, []).append(st)
        elif isinstance(st, ast.Expr) and isinstance(st.value, ast.Constant):
            pass
        elif isinstance(st, ast.Pass):
            pass
        else:
            raise TranslationError('unexpected statement in class %s at %s: %s'
                                   % (cl.name, where(st), shape(st)))
    return out


def is_setter(fn, name):
    return (len(fn.decorator_list) == 1 and isinstance(fn.decorator_list[0], ast.Attribute)
            and fn.decorator_list[0].attr == 'setter' and is_name(fn.decorator_list[0].value, name))


def check_pinned(tree, ref_src, what, nm):
    classes = {st.name: st for st in tree.body if isinstance(st, ast.ClassDef)}
    funcs = {st.name: st for st in tree.body if isinstance(st, ast.FunctionDef)}
    ref_nm = Norm()
    for r in ast.parse(ref_src).body:
        if isinstance(r, ast.FunctionDef):
            need(r.name in funcs and norm_fn(funcs[r.name], nm) == norm_fn(r, ref_nm)
                 and sum(1 for st in tree.body
                         if isinstance(st, (ast.FunctionDef, ast.ClassDef)) and st.name == r.name) == 1,
                 '%s.%s differs from the source the interpreter\'s reading is pinned to' % (what, r.name))
            continue
        need(r.name in classes, 'class %s is missing' % r.name)
        cl = classes[r.name]
        need([ast.dump(b) for b in cl.bases] == [ast.dump(b) for b in r.bases]
             and not cl.keywords and not cl.decorator_list, 'bases of %s changed' % r.name)
        mem = class_members(cl)
        for item in r.body:
            if isinstance(item, ast.FunctionDef):
                got = [x for x in mem.get(item.name, []) if not is_setter(x, item.name)] \
                    if all(isinstance(x, ast.FunctionDef) for x in mem.get(item.name, [])) else []
                drop = PINNED_DROP.get('%s.%s' % (r.name, item.name), ())
                need(len(got) == 1 and norm_fn(got[0], nm, drop) == norm_fn(item, ref_nm, drop),
                     '%s.%s differs from the source the interpreter\'s reading is pinned to'
                     % (r.name, item.name))
            else:
                anm = item.targets[0].id
                got = mem.get(anm, [])
                need(len(got) == 1 and ast.dump(got[0]) == ast.dump(item), '%s.%s changed' % (r.name, anm))


def check_module(tree, utree):
    need(isinstance(tree, ast.Module) and isinstance(utree, ast.Module), 'not a module')
    bound = {}

    def bind(name, how):
        bound.setdefault(name, []).append(how)

    imports = []
    for st in tree.body:
        if isinstance(st, ast.ImportFrom):
            imports.append(st)
            for a in st.names:
                need(a.name != '*', 'star import at %s' % where(st))
                bind(a.asname or a.name, 'import')
        elif isinstance(st, ast.Import):
            imports.append(st)
            for a in st.names:
                bind((a.asname or a.name).split('.')[0], 'import')
        elif isinstance(st, ast.FunctionDef):
            bind(st.name, 'def')
        elif isinstance(st, ast.ClassDef):
            bind(st.name, 'class')
        elif isinstance(st, ast.Assign):
            for t in st.targets:
                for x in ast.walk(t):
                    if isinstance(x, ast.Name) and isinstance(x.ctx, ast.Store):
                        bind(x.id, 'assign')
                    elif isinstance(x, ast.Attribute) and not isinstance(x.ctx, ast.Load):
                        raise TranslationError('module-level attribute assignment at %s' % where(st))
        elif isinstance(st, ast.AnnAssign) and isinstance(st.target, ast.Name):
            bind(st.target.id, 'assign')
        elif isinstance(st, ast.Expr) and isinstance(st.value, ast.Constant):
            pass
        else:
            raise TranslationError('unexpected module-level statement at %s: %s' % (where(st), shape(st)))
    classes = [st for st in tree.body if isinstance(st, ast.ClassDef)]
    need(sorted(c.name for c in classes) == sorted(BASES),
         'the classes of data.py changed: %s' % sorted(c.name for c in classes))
    for nm in BASES:
        need(bound.get(nm) == ['class'], 'module-level binding of %s changed: %s' % (nm, bound.get(nm)))
    for nm in BUILTINS:
        need(nm not in bound, 'builtin %s is rebound at module level' % nm)
    # imports the reading relies on
    need(bound.get('itertools') == ['import'] and any(
        isinstance(st, ast.Import) and any(a.name == 'itertools' and a.asname is None for a in st.names)
        for st in imports), '`import itertools` changed')
    for nm in ('to_list', 'Token'):
        need(bound.get(nm) == ['import'] and any(
            isinstance(st, ast.ImportFrom) and st.module == 'TexSoup.utils' and st.level == 0
            and any(a.name == nm and a.asname is None for a in st.names) for st in imports),
            '`from TexSoup.utils import %s` changed' % nm)
    for n in ast.walk(tree):
        need(not isinstance(n, (ast.Global, ast.Nonlocal)), 'global/nonlocal at %s' % where(n))
        if isinstance(n, ast.Delete):
            need(all(isinstance(t, ast.Subscript) for t in n.targets), 'del of a name/attribute at %s' % where(n))
        if isinstance(n, ast.Attribute) and n.attr.startswith('_TexNode__'):
            raise TranslationError('use of %s at %s' % (n.attr, where(n)))
        if isinstance(n, ast.Constant) and isinstance(n.value, str) and not \
                (len(n.value) > 200):
            need('_TexNode__' not in n.value, 'string mentioning _TexNode__ at %s' % where(n))
        if isinstance(n, ast.Call) and isinstance(n.func, ast.Name) \
                and n.func.id in ('setattr', 'delattr', 'exec', 'eval', '__import__', 'globals',
                                  'locals', 'vars'):
            raise TranslationError('%s(...) at %s' % (n.func.id, where(n)))
        if isinstance(n, ast.Attribute) and not isinstance(n.ctx, ast.Load) \
                and isinstance(n.value, ast.Name) and n.value.id in BASES:
            raise TranslationError('assignment to an attribute of class %s at %s' % (n.value.id, where(n)))
        if isinstance(n, ast.Attribute) and n.attr in ('__class__', '__dict__', '__bases__', '__mro__') \
                and not isinstance(n.ctx, ast.Load):
            raise TranslationError('assignment to %s at %s' % (n.attr, where(n)))
    cmap = {c.name: c for c in classes}
    for nm, bases in BASES.items():
        cl = cmap[nm]
        need([b.id if isinstance(b, ast.Name) else None for b in cl.bases] == bases
             and not cl.keywords and not cl.decorator_list, 'bases of %s changed' % nm)
    members = {nm: class_members(cmap[nm]) for nm in HIER}
    args_members = class_members(cmap['TexArgs'])
    for attr, allowed in DEFINERS.items():
        got = sorted(nm for nm in HIER if attr in members[nm])
        need(got == sorted(allowed), 'the classes defining `%s` changed: %s' % (attr, got))
    # module-level helper functions that may be inlined; names that always denote a fresh list
    helpers = {}
    for st in tree.body:
        if isinstance(st, ast.FunctionDef) and bound.get(st.name) == ['def'] and st.name not in BUILTINS \
                and st.name not in ('to_list', 'Token', 'itertools'):
            h = helper_info(st)
            if h is not None:
                helpers[st.name] = h
    tolist = set()
    for attr in MNAME:
        defs = [d for nm in HIER for d in members[nm].get(attr, []) if not is_setter(d, attr)]
        if defs and all(isinstance(d, ast.FunctionDef)
                        and any(is_name(x, 'to_list') for x in d.decorator_list) for d in defs):
            tolist.add(attr)
    nm_ctx = Norm(helpers, tolist)
    check_pinned(tree, PINNED_DATA, 'data', nm_ctx)
    # utils: to_list, Token
    ubound = {}
    for st in utree.body:
        if isinstance(st, (ast.FunctionDef, ast.ClassDef)):
            ubound.setdefault(st.name, []).append(st)
        elif isinstance(st, ast.Assign):
            for t in st.targets:
                for x in ast.walk(t):
                    if isinstance(x, ast.Name) and isinstance(x.ctx, ast.Store):
                        ubound.setdefault(x.id, []).append(st)
    for nm in ('to_list', 'Token'):
        need(len(ubound.get(nm, [])) == 1, 'binding of utils.%s changed' % nm)
    for nm in ('list', 'functools', 'str', 'getattr', 'isinstance'):
        need(nm not in ubound, 'utils rebinds %s' % nm)
    check_pinned(utree, PINNED_UTILS, 'utils', Norm())
    tmem = class_members(ubound['Token'][0])
    for nm in ('__match__', '__getattribute__', 'isspace', '__instancecheck__', '__class__'):
        need(nm not in tmem, 'class Token defines %s' % nm)
    for n in ast.walk(utree):
        if isinstance(n, ast.Attribute) and not isinstance(n.ctx, ast.Load) \
                and isinstance(n.value, ast.Name) and n.value.id == 'Token' \
                and n.attr in ('__match__', '__getattr__', '__getattribute__', 'isspace', '__str__'):
            raise TranslationError('utils assigns Token.%s at %s' % (n.attr, where(n)))
    # the methods to translate
    out = []
    for cname, kind, names in TABLE:
        mem = members[cname]
        for nm in names:
            defs = mem.get(nm, [])
            need(all(isinstance(d, ast.FunctionDef) for d in defs), '%s.%s is not a plain def' % (cname, nm))
            getters = [d for d in defs if not is_setter(d, nm)]
            need(len(getters) == 1, '%s.%s: expected exactly one definition' % (cname, nm))
            fn = getters[0]
            if any(is_setter(d, nm) for d in defs):
                # a setter rebinding the name must come after the getter it extends
                need(defs[0] is fn, '%s.%s: setter before getter' % (cname, nm))
            out.append((cname, kind, nm, fn))
    members_all = dict(members)
    members_all['TexArgs'] = args_members
    return out, members_all, nm_ctx


def single_def(members, cname, nm):
    """the one plain def of `nm` in class cname (setters aside), or None"""
    defs = members[cname].get(nm, [])
    if not defs or not all(isinstance(d, ast.FunctionDef) for d in defs):
        return None
    getters = [d for d in defs if not is_setter(d, nm)]
    if len(getters) != 1 or defs[0] is not getters[0]:
        return None
    return getters[0]


# ---------------------------------------------------------------- one method

KIND = {'TexNode': 'KNode', 'TexExpr': 'KExpr', 'TexEnv': 'KEnv'}
# classes whose construction inside a view is outside the model (TNewOther)
OTHER_CLASSES = [c for c in BASES if c != 'TexNode'] + ['CharToLineOffset', 'Token']


class Translator(object):
    """the methods found on the way: a private / otherwise unknown method of TexNode / TexExpr /
    TexEnv that a translated body uses is translated too, under the name M_extra i"""

    def __init__(self, members, nm):
        self.members = members
        self.nm = nm
        self.index = {}       # key -> i
        self.work = []        # (cname, kind, attr, fn, i)

    def extra(self, cls, attr):
        if attr in MNAME or attr in ATTR or attr in DEFINERS or attr in NODE_FIELDS:
            return None
        private = attr.startswith('__') and not attr.endswith('__')
        if private:
            classes = [cls] if attr in self.members.get(cls, {}) else []
            key = (cls, attr)
        else:
            if attr.startswith('__'):
                return None            # special methods are looked up by the interpreter's primitives
            classes = [c for c in HIER if attr in self.members[c]]
            key = attr
        if not classes or not all(c in KIND for c in classes):
            return None
        fns = [single_def(self.members, c, attr) for c in classes]
        if not all(f is not None for f in fns):
            return None
        if key not in self.index:
            self.index[key] = len(self.index)
            for c, f in zip(classes, fns):
                self.work.append((c, KIND[c], attr, f, self.index[key]))
        return '(M_extra %d%%nat)' % self.index[key]


class Scope(object):
    def __init__(self, owner, fn, tr=None, cls=None, init=False):
        a = fn.args
        need(not a.vararg and not a.kwonlyargs and not a.kw_defaults
             and not getattr(a, 'posonlyargs', []) and len(a.args) >= 1,
             '%s: unsupported parameter list' % owner)
        self.owner = owner
        self.tr = tr
        self.cls = cls
        self.init = init
        self.loops = 0
        self.self_name = a.args[0].arg
        self.vars = {}
        self.nslots = 0
        for x in a.args[1:] + ([a.kwarg] if a.kwarg else []):
            need(x.arg not in self.vars and x.arg != self.self_name, '%s: repeated parameter' % owner)
            self.vars[x.arg] = self.nslots
            self.nslots += 1
        self.nparams = self.nslots
        if init:
            self.nslots += len(NODE_FIELDS)      # the instance attributes live in the next slots
        self.stack = []      # bound variables of lambdas / comprehensions
        for n in ast.walk(fn):
            need(not isinstance(n, (ast.FunctionDef, ast.AsyncFunctionDef, ast.ClassDef, ast.Await,
                                    ast.With, ast.Import, ast.ImportFrom, ast.While, ast.NamedExpr,
                                    ast.SetComp, ast.DictComp, ast.Raise, ast.AugAssign,
                                    ast.Continue, ast.Global, ast.Nonlocal, ast.Delete, ast.AsyncFor,
                                    ast.AsyncWith, ast.AnnAssign)) or n is fn,
                 '%s: unsupported construct at %s: %s' % (owner, where(n), type(n).__name__))

    def method(self, attr):
        """the interpreter's name of the method / property `attr`, or None"""
        if attr.startswith('__') and not attr.endswith('__') and self.cls != 'TexNode' and attr in MNAME:
            return None                # x.__descendants outside TexNode is another (mangled) name
        if attr in MNAME:
            return MNAME[attr]
        if self.tr is not None:
            return self.tr.extra(self.cls, attr)
        return None

    def err(self, n, what):
        raise TranslationError('%s, %s: %s: %s' % (self.owner, where(n), what, shape(n)))

    def lookup(self, name):
        for nm, slot in reversed(self.stack):
            if nm == name:
                return slot
        return self.vars.get(name)

    def free(self, name):
        return self.lookup(name) is None and name != self.self_name

    def fresh(self):
        s = self.nslots
        self.nslots += 1
        return s

    def declare(self, nm):
        need(nm != self.self_name and nm not in BUILTINS and nm not in BASES
             and nm not in ('to_list', 'Token', 'itertools'), '%s: assignment to %s' % (self.owner, nm))
        need(not any(x == nm for x, _ in self.stack), '%s: assignment to the bound variable %s' % (self.owner, nm))
        if nm not in self.vars:
            self.vars[nm] = self.fresh()
        return self.vars[nm]

    def tms(self, lst):
        return '(tms_of [%s])' % '; '.join(self.ex(a) for a in lst)

    def classes(self, t):
        def one(x):
            if isinstance(x, ast.Name) and x.id in CNAME and self.free(x.id):
                return CNAME[x.id]
            self.err(t, 'isinstance against an unsupported class')
        if isinstance(t, ast.Tuple):
            need(t.elts, '%s: empty class tuple' % self.owner)
            return [one(x) for x in t.elts]
        return [one(t)]

    def binder(self, var, body_fn):
        """translate something under a bound variable living in its own slot"""
        need(var != self.self_name, '%s: bound variable shadows self' % self.owner)
        slot = self.fresh()
        self.stack.append((var, slot))
        try:
            return slot, body_fn()
        finally:
            self.stack.pop()

    def comprehension(self, n, lazy):
        need(len(n.generators) == 1, '%s: nested comprehension at %s' % (self.owner, where(n)))
        g = n.generators[0]
        need(not g.is_async and isinstance(g.target, ast.Name), '%s: comprehension target' % self.owner)
        it = self.ex(g.iter)          # evaluated in the enclosing scope
        var = g.target.id
        trivial = is_name(n.elt, var)
        if g.ifs:
            def cond():
                parts = [self.ex(c) for c in g.ifs]
                out = parts[-1]
                for p in reversed(parts[:-1]):
                    out = 'TAnd (%s) (%s)' % (p, out)
                return out
            if trivial:
                slot, c = self.binder(var, cond)
                return 'TFilter %d%%nat (%s) (%s)' % (slot, c, it)
            # [b for x in l if c]: b over the elements that pass c (one slot for x)
            slot, (c, b) = self.binder(var, lambda: (cond(), self.ex(n.elt)))
            return 'TMap %d%%nat (%s) (TFilter %d%%nat (%s) (%s))' % (slot, b, slot, c, it)
        slot, b = self.binder(var, lambda: self.ex(n.elt))
        return 'TMap %d%%nat (%s) (%s)' % (slot, b, it)

    def ex(self, n):
        if isinstance(n, ast.Constant):
            if n.value is None:
                return 'TNone'
            if n.value is True or n.value is False:
                return 'TBool %s' % ('true' if n.value else 'false')
            if type(n.value) is int:
                return 'TInt %s' % zlit(n.value)
            if type(n.value) is str:
                return 'TStr %s' % strlit(n.value)
            self.err(n, 'unsupported constant')
        if isinstance(n, ast.Tuple):
            need(isinstance(n.ctx, ast.Load), 'tuple context')
            need(not any(isinstance(e, ast.Starred) for e in n.elts), 'starred tuple element')
            return 'TTuple %s' % self.tms(n.elts)
        if isinstance(n, ast.Name):
            need(isinstance(n.ctx, ast.Load), 'name context')
            if n.id == self.self_name and not any(x == n.id for x, _ in self.stack):
                need(not self.init, '%s: `%s` is read inside __init__ at %s' % (self.owner, n.id, where(n)))
                return 'TSelf'
            slot = self.lookup(n.id)
            if slot is not None:
                return 'TVar %d%%nat' % slot
            self.err(n, 'name that is neither a parameter nor a local')
        if isinstance(n, ast.UnaryOp):
            if isinstance(n.op, ast.Not):
                return 'TNot (%s)' % self.ex(n.operand)
            if isinstance(n.op, ast.USub) and isinstance(n.operand, ast.Constant) \
                    and type(n.operand.value) is int:
                return 'TInt %s' % zlit(-n.operand.value)
            self.err(n, 'unsupported unary operator')
        if isinstance(n, ast.BinOp) and isinstance(n.op, ast.Mod) and isinstance(n.left, ast.Constant) \
                and type(n.left.value) is str:
            # 'a%sb' % x, 'a%sb%sc' % (x, y): only %s conversions
            lits = n.left.value.split('%s')
            need(not any('%' in l for l in lits), '%s: format string with a conversion other than %%s at %s'
                 % (self.owner, where(n)))
            if isinstance(n.right, ast.Tuple):
                need(not any(isinstance(e, ast.Starred) for e in n.right.elts), 'starred tuple element')
                args = list(n.right.elts)
            else:
                need(not isinstance(n.right, (ast.Dict, ast.List, ast.ListComp, ast.GeneratorExp, ast.Call,
                                              ast.Name, ast.Subscript, ast.IfExp, ast.BinOp, ast.BoolOp)),
                     '%s: right operand of %% that may be a tuple at %s' % (self.owner, where(n)))
                args = [n.right]
            need(len(args) == len(lits) - 1, '%s: format string and arguments differ in number at %s'
                 % (self.owner, where(n)))
            return 'TFormat [%s] %s' % ('; '.join(strlit(l) for l in lits), self.tms(args))
        if isinstance(n, ast.JoinedStr):
            # f'a{x}b': each plain field is format(x, '') = str(x) (no class defines __format__)
            lits, args = [''], []
            for v in n.values:
                if isinstance(v, ast.Constant) and type(v.value) is str:
                    lits[-1] += v.value
                else:
                    need(isinstance(v, ast.FormattedValue) and v.conversion == -1 and v.format_spec is None,
                         '%s: f-string field with a conversion or format at %s' % (self.owner, where(n)))
                    args.append(v.value)
                    lits.append('')
            return 'TFormat [%s] %s' % ('; '.join(strlit(l) for l in lits), self.tms(args))
        if isinstance(n, ast.BinOp):
            if isinstance(n.op, ast.Add):
                return 'TAdd (%s) (%s)' % (self.ex(n.left), self.ex(n.right))
            self.err(n, 'unsupported binary operator')
        if isinstance(n, ast.BoolOp):
            need(len(n.values) >= 2, 'boolean operator')
            con = 'TAnd' if isinstance(n.op, ast.And) else 'TOr'
            parts = [self.ex(v) for v in n.values]
            out = parts[-1]
            for p in reversed(parts[:-1]):
                out = '%s (%s) (%s)' % (con, p, out)
            return out
        if isinstance(n, ast.Compare):
            ops = {ast.Eq: 'TEq', ast.NotEq: 'TNe', ast.In: 'TIn', ast.NotIn: 'TNotIn',
                   ast.Lt: 'TCmp OLt', ast.LtE: 'TCmp OLe', ast.Gt: 'TCmp OGt', ast.GtE: 'TCmp OGe'}
            if len(n.ops) == 1 and isinstance(n.ops[0], (ast.Is, ast.IsNot)) \
                    and isinstance(n.comparators[0], ast.Constant) and n.comparators[0].value is None:
                t = 'TIsNone (%s)' % self.ex(n.left)
                return t if isinstance(n.ops[0], ast.Is) else 'TNot (%s)' % t
            if len(n.ops) != 1 or type(n.ops[0]) not in ops:
                self.err(n, 'unsupported comparison')
            return '%s (%s) (%s)' % (ops[type(n.ops[0])], self.ex(n.left), self.ex(n.comparators[0]))
        if isinstance(n, ast.Attribute):
            need(isinstance(n.ctx, ast.Load), 'attribute context')
            if n.attr in ATTR:
                return 'TAttr %s (%s)' % (ATTR[n.attr], self.ex(n.value))
            m = self.method(n.attr)
            if m is not None:
                return 'TProp %s (%s)' % (m, self.ex(n.value))
            self.err(n, 'unsupported attribute')
        if isinstance(n, ast.Subscript):
            need(isinstance(n.ctx, ast.Load), 'subscript context')
            idx = n.slice
            if isinstance(idx, getattr(ast, 'Index', ())):
                idx = idx.value
            if isinstance(idx, (ast.Slice, ast.Tuple)):
                self.err(n, 'slice / tuple subscript')
            return 'TIndex (%s) (%s)' % (self.ex(n.value), self.ex(idx))
        if isinstance(n, ast.ListComp):
            return self.comprehension(n, False)
        if isinstance(n, ast.GeneratorExp):
            return self.comprehension(n, True)
        if isinstance(n, ast.Call):
            return self.call(n)
        self.err(n, 'unsupported expression')

    def call(self, n):
        f, a, kws = n.func, n.args, n.keywords
        if isinstance(f, ast.Name) and self.free(f.id):
            need(not kws and not any(isinstance(x, ast.Starred) for x in a),
                 '%s: keyword/starred arguments at %s' % (self.owner, where(n)))
            if f.id == 'isinstance' and len(a) == 2:
                return 'TIsInst (%s) [%s]' % (self.ex(a[0]), '; '.join(self.classes(a[1])))
            if f.id == 'hasattr' and len(a) == 2 and isinstance(a[1], ast.Constant) \
                    and a[1].value in MNAME and a[1].value != '__descendants':
                return 'THasattr (%s) %s' % (self.ex(a[0]), MNAME[a[1].value])
            if f.id == 'getattr' and len(a) == 2:
                return 'TGetattr (%s) (%s)' % (self.ex(a[0]), self.ex(a[1]))
            if f.id == 'str' and len(a) == 1:
                return 'TStrOf (%s)' % self.ex(a[0])
            if f.id == 'list' and len(a) == 1:
                return 'TList (%s)' % self.ex(a[0])
            if f.id == 'iter' and len(a) == 1:
                return 'TIter (%s)' % self.ex(a[0])
            if f.id == 'len' and len(a) == 1:
                return 'TLen (%s)' % self.ex(a[0])
            if f.id == 'TexNode' and len(a) == 1:
                return 'TNewNode (%s)' % self.ex(a[0])
            if f.id in OTHER_CLASSES:
                return 'TNewOther %s %s' % (strlit(f.id), self.tms(a))
            if f.id == 'filter' and len(a) == 2 and isinstance(a[0], ast.Lambda):
                lam = a[0].args
                need(len(lam.args) == 1 and not lam.vararg and not lam.kwonlyargs and not lam.kwarg
                     and not lam.defaults and not lam.kw_defaults and not getattr(lam, 'posonlyargs', []),
                     '%s: lambda parameter list at %s' % (self.owner, where(n)))
                it = self.ex(a[1])
                slot, c = self.binder(lam.args[0].arg, lambda: self.ex(a[0].body))
                return 'TFilter %d%%nat (%s) (%s)' % (slot, c, it)
            self.err(n, 'unsupported call')
        if isinstance(f, ast.Attribute):
            if is_name(f.value, 'itertools') and self.free('itertools') and f.attr == 'chain':
                need(not kws, 'keywords in chain')
                if a and isinstance(a[-1], ast.Starred):
                    need(not any(isinstance(x, ast.Starred) for x in a[:-1]), 'several starred arguments')
                    return 'TChainStar %s (%s)' % (self.tms(a[:-1]), self.ex(a[-1].value))
                need(not any(isinstance(x, ast.Starred) for x in a), 'starred argument')
                return 'TChain %s' % self.tms(a)
            need(not any(isinstance(x, ast.Starred) for x in a),
                 '%s: starred arguments at %s' % (self.owner, where(n)))
            if f.attr == 'join' and isinstance(f.value, ast.Constant) and type(f.value.value) is str \
                    and len(a) == 1 and not kws and isinstance(a[0], (ast.ListComp, ast.GeneratorExp)):
                c = a[0]
                need(len(c.generators) == 1 and not c.generators[0].ifs and not c.generators[0].is_async
                     and isinstance(c.generators[0].target, ast.Name),
                     '%s: unsupported comprehension inside join at %s' % (self.owner, where(n)))
                it = self.ex(c.generators[0].iter)
                slot, b = self.binder(c.generators[0].target.id, lambda: self.ex(c.elt))
                return 'TJoin %s %d%%nat (%s) (%s)' % (strlit(f.value.value), slot, b, it)
            if f.attr == 'isspace' and not a and not kws:
                return 'TIsSpace (%s)' % self.ex(f.value)
            if f.attr == 'items' and not a and not kws:
                return 'TItems (%s)' % self.ex(f.value)
            m = None
            if not (isinstance(f.value, ast.Call) and is_name(f.value.func, 'super')) or f.attr in MNAME:
                m = self.method(f.attr)
            if m is not None:
                is_super = (isinstance(f.value, ast.Call) and is_name(f.value.func, 'super')
                            and self.free('super') and not f.value.args and not f.value.keywords)
                if is_super:
                    need(not kws, 'keywords in super call')
                    return 'TSuper %s %s' % (m, self.tms(a))
                recv = self.ex(f.value)
                if not kws:
                    return 'TCall %s (%s) %s' % (m, recv, self.tms(a))
                if len(kws) == 1 and kws[0].arg is None:
                    return 'TCallKw %s (%s) %s (%s)' % (m, recv, self.tms(a), self.ex(kws[0].value))
                self.err(n, 'keyword arguments')
        self.err(n, 'unsupported call')

    def stmt(self, s, prev):
        if isinstance(s, ast.Expr):
            v = s.value
            if self.init and isinstance(v, ast.Call) and isinstance(v.func, ast.Attribute) \
                    and v.func.attr == '__init__' and isinstance(v.func.value, ast.Call) \
                    and is_name(v.func.value.func, 'super') and self.free('super') \
                    and not v.func.value.args and not v.func.value.keywords and not v.args and not v.keywords:
                return None            # object.__init__() : the base class is pinned to `object`
            if isinstance(v, ast.Yield):
                need(v.value is not None, '%s: bare yield' % self.owner)
                return ('atom', 'SYield (%s)' % self.ex(v.value))
            if isinstance(v, ast.YieldFrom):
                return ('atom', 'SYieldFrom (%s)' % self.ex(v.value))
            if isinstance(v, ast.Constant):
                self.err(s, 'constant expression statement')
            return ('atom', 'SExpr (%s)' % self.ex(v))
        if isinstance(s, ast.Assign):
            need(len(s.targets) == 1, '%s: chained assignment at %s' % (self.owner, where(s)))
            t = s.targets[0]
            if isinstance(t, ast.Name):
                val = self.ex(s.value)
                return ('atom', 'SAssign %d%%nat (%s)' % (self.declare(t.id), val))
            if self.init and isinstance(t, ast.Attribute) and is_name(t.value, self.self_name) \
                    and not self.stack:
                need(t.attr in NODE_FIELDS, '%s: __init__ sets the unknown attribute %s at %s'
                     % (self.owner, t.attr, where(s)))
                return ('atom', 'SAssign %d%%nat (%s)'
                        % (self.nparams + NODE_FIELDS.index(t.attr), self.ex(s.value)))
            if isinstance(t, ast.Attribute) and t.attr == 'parent' and isinstance(t.value, ast.Name) \
                    and t.value.id in self.vars and not self.stack:
                # only directly after `x = TexNode(..)`: no alias of x can exist
                ok = (isinstance(prev, ast.Assign) and len(prev.targets) == 1
                      and is_name(prev.targets[0], t.value.id) and isinstance(prev.value, ast.Call)
                      and is_name(prev.value.func, 'TexNode') and self.free('TexNode'))
                need(ok, '%s: `%s.parent = ..` not directly after `%s = TexNode(..)` at %s'
                     % (self.owner, t.value.id, t.value.id, where(s)))
                return ('atom', 'SSetParent %d%%nat (%s)' % (self.vars[t.value.id], self.ex(s.value)))
            if isinstance(t, ast.Subscript) and isinstance(t.value, ast.Name) and t.value.id in self.vars:
                idx = t.slice
                if isinstance(idx, getattr(ast, 'Index', ())):
                    idx = idx.value
                need(isinstance(idx, ast.Constant) and type(idx.value) is str,
                     '%s: subscript assignment with a non-constant key at %s' % (self.owner, where(s)))
                return ('atom', 'SSetItem %d%%nat %s (%s)'
                        % (self.vars[t.value.id], strlit(idx.value), self.ex(s.value)))
            self.err(s, 'unsupported assignment target')
        if isinstance(s, ast.Return):
            need(not self.init, '%s: return inside __init__ at %s' % (self.owner, where(s)))
            return ('atom', 'SReturn (%s)' % (self.ex(s.value) if s.value is not None else 'TNone'))
        if isinstance(s, ast.Assert):
            need(s.msg is None or (isinstance(s.msg, ast.Constant) and type(s.msg.value) is str),
                 '%s: computed assert message at %s' % (self.owner, where(s)))
            return ('atom', 'SAssert (%s)' % self.ex(s.test))
        if isinstance(s, ast.If):
            c = self.ex(s.test)
            return ('if', c, self.block(s.body), self.block(s.orelse))
        if isinstance(s, ast.For):
            need(not s.orelse, '%s: for-else' % self.owner)
            it = self.ex(s.iter)
            if isinstance(s.target, ast.Name):
                x = self.declare(s.target.id)
                return ('for', 'SFor %d%%nat (%s)' % (x, it), self.loop_block(s.body))
            if isinstance(s.target, ast.Tuple) and len(s.target.elts) == 2 \
                    and all(isinstance(e, ast.Name) for e in s.target.elts) \
                    and s.target.elts[0].id != s.target.elts[1].id:
                x = self.declare(s.target.elts[0].id)
                y = self.declare(s.target.elts[1].id)
                return ('for', 'SFor2 %d%%nat %d%%nat (%s)' % (x, y, it), self.loop_block(s.body))
            self.err(s, 'unsupported loop target')
        if isinstance(s, ast.Try):
            need(len(s.body) == 1 and isinstance(s.body[0], ast.Return) and s.body[0].value is not None
                 and len(s.handlers) == 1 and not s.orelse and not s.finalbody,
                 '%s: unsupported try shape at %s' % (self.owner, where(s)))
            h = s.handlers[0]
            need(h.name is None and isinstance(h.type, ast.Name) and h.type.id in EXN and self.free(h.type.id),
                 '%s: unsupported except clause at %s' % (self.owner, where(s)))
            t = self.ex(s.body[0].value)
            return ('try', 'STryReturn (%s) %s' % (t, EXN[h.type.id]), self.block(h.body))
        if isinstance(s, ast.Pass):
            return None
        if isinstance(s, ast.Break):
            need(self.loops > 0, '%s: break outside a loop at %s' % (self.owner, where(s)))
            return ('atom', 'SBreak')
        self.err(s, 'unsupported statement')

    def loop_block(self, body):
        self.loops += 1
        try:
            return self.block(body)
        finally:
            self.loops -= 1

    def block(self, body):
        out = []
        prev = None
        for s in body:
            r = self.stmt(s, prev)
            if r is not None:
                out.append(r)
            prev = s
        return out


def default_value(owner, n):
    if isinstance(n, ast.Constant) and n.value is None:
        return 'VNone'
    if isinstance(n, ast.Tuple) and n.elts == []:
        return 'VList []'
    raise TranslationError('%s: unsupported default %s' % (owner, shape(n)))


def decorators(owner, fn):
    names = []
    for d in fn.decorator_list:
        need(isinstance(d, ast.Name) and d.id in ('property', 'to_list'),
             '%s: unsupported decorator %s' % (owner, shape(d)))
        names.append(d.id)
    need(names in ([], ['property'], ['to_list'], ['property', 'to_list']),
         '%s: unsupported decorator list %s' % (owner, names))
    return 'property' in names, 'to_list' in names


def has_yield(fn):
    found = False
    for n in ast.walk(fn):
        if isinstance(n, (ast.Yield, ast.YieldFrom)):
            found = True
        if isinstance(n, ast.Lambda):
            need(not any(isinstance(x, (ast.Yield, ast.YieldFrom)) for x in ast.walk(n)),
                 'yield inside a lambda')
    return found


def translate_method(owner, fn, tr=None, cls=None, init=False):
    fn = normalise_fn(fn, tr.nm if tr is not None else Norm())
    sc = Scope(owner, fn, tr, cls, init)
    a = fn.args
    names = [x.arg for x in a.args[1:]]
    nd = len(a.defaults)
    need(nd <= len(names), '%s: default for self' % owner)
    params = ['None'] * (len(names) - nd) + ['Some (%s)' % default_value(owner, d) for d in a.defaults]
    # a tuple default is immutable, None too: nothing to check about sharing
    is_prop, is_tolist = decorators(owner, fn)
    if init:
        need(not is_prop and not is_tolist and not a.kwarg, '%s: decorated __init__' % owner)
    if is_prop:
        need(not names and not a.kwarg, '%s: property with parameters' % owner)
    body = strip_doc(fn.body)
    need(body, '%s: empty body' % owner)
    gen = has_yield(fn)
    # a yield as a sub-expression (x = yield ..) is not a statement of the fragment
    for n in ast.walk(fn):
        if isinstance(n, (ast.Yield, ast.YieldFrom)):
            pass
    prog = sc.block(body)
    nlocals = sc.nslots - sc.nparams
    if init:
        need(not gen, '%s: yield inside __init__' % owner)
    return dict(params=params, pnames=names, kwargs=a.kwarg is not None, nlocals=nlocals, gen=gen,
                tolist=is_tolist, prop=is_prop, prog=prog)


def pp_block(items, ind):
    pad = ' ' * ind
    if not items:
        return [pad + '(blk [])']
    out = [pad + '(blk [']
    for i, it in enumerate(items):
        lines = pp_stmt(it, ind + 2)
        if i < len(items) - 1:
            lines[-1] += ';'
        out.extend(lines)
    out[-1] += '])'
    return out


def pp_stmt(it, ind):
    pad = ' ' * ind
    if it[0] == 'atom':
        return [pad + it[1]]
    if it[0] == 'if':
        return [pad + 'SIf (%s)' % it[1]] + pp_block(it[2], ind + 2) + pp_block(it[3], ind + 2)
    if it[0] in ('for', 'try'):
        return [pad + it[1]] + pp_block(it[2], ind + 2)
    raise TranslationError('internal: %r' % (it,))


def coqbool(b):
    return 'true' if b else 'false'


def gen_name(cname, nm, extra=False):
    if extra:
        return 'gen_%s_x_%s' % (cname, nm.strip('_'))
    return 'gen_%s_%s' % (cname, {'__descendants': 'priv_descendants'}.get(nm, nm.strip('_')))


def generate():
    with open(os.path.join(REPO, 'TexSoup', 'data.py')) as f:
        tree = ast.parse(f.read())
    with open(os.path.join(REPO, 'TexSoup', 'utils.py')) as f:
        utree = ast.parse(f.read())
    meths, members, nm_ctx = check_module(tree, utree)
    tr = Translator(members, nm_ctx)
    out = []
    w = out.append
    w('(* GENERATED by harness/gen_views.py from TexSoup/data.py -- do not edit.')
    w('   See ViewDSL.v for the meaning. *)')
    w('From Coq Require Import List NArith ZArith.')
    w('From TexModel Require Import Base ViewDSL.')
    w('Import ListNotations.')
    w('')
    table = {}
    used = set()

    def emit(owner, g, m):
        need(g not in used, 'two methods are both called %s' % g)
        used.add(g)
        w('(* def %s *)' % owner)
        w('Definition %s : mdef :=' % g)
        w('  mkM [%s] [%s] %s %d%%nat %s %s %s'
          % ('; '.join(m['params']), '; '.join(strlit(x) for x in m['pnames']), coqbool(m['kwargs']),
             m['nlocals'], coqbool(m['gen']), coqbool(m['tolist']), coqbool(m['prop'])))
        lines = pp_block(m['prog'], 4)
        lines[-1] += '.'
        out.extend(lines)
        w('')
    for cname, kind, nm, fn in meths:
        owner = '%s.%s' % (cname, nm)
        g = gen_name(cname, nm)
        table[(kind, nm)] = g
        emit(owner, g, translate_method(owner, fn, tr, cname))
    # TexNode.__init__ : what TexNode(x) builds
    init = single_def(members, 'TexNode', '__init__')
    need(init is not None, 'TexNode.__init__: expected exactly one plain def')
    m = translate_method('TexNode.__init__', init, tr, 'TexNode', init=True)
    need(len(m['params']) == 2 and m['params'][0] == 'None' and m['params'][1] == 'Some (VNone)',
         'TexNode.__init__: expected the parameters (self, expr, src=None)')
    emit('TexNode.__init__', 'gen_TexNode_init', m)
    # the __str__ methods (not part of the class table, see ViewDSL.run_plain)
    for cname in STR_TABLE:
        fn = single_def(members, cname, '__str__')
        need(fn is not None, '%s.__str__: expected exactly one plain def' % cname)
        m = translate_method('%s.__str__' % cname, fn, tr, cname)
        need(not m['params'] and not m['kwargs'] and not m['prop'] and not m['tolist'] and not m['gen'],
             '%s.__str__: expected a plain method without parameters' % cname)
        emit('%s.__str__' % cname, 'gen_%s_str' % cname, m)
    # methods found on the way
    extras = []
    done = 0
    while done < len(tr.work):
        cname, kind, nm, fn, i = tr.work[done]
        done += 1
        owner = '%s.%s' % (cname, nm)
        g = gen_name(cname, nm, True)
        extras.append((kind, i, g))
        emit(owner, g, translate_method(owner, fn, tr, cname))
    w('Definition gen_v_cls : cls := fun k m =>')
    w('  match k, m with')
    for cname, kind, names in TABLE:
        for nm in MORDER:
            if (kind, nm) in table:
                w('  | %s, %s => Some %s' % (kind, MNAME[nm], table[(kind, nm)]))
    w('  | KNode, M_init => Some gen_TexNode_init')
    for kind, i, g in extras:
        w('  | %s, M_extra %d%%nat => Some %s' % (kind, i, g))
    w('  | _, _ => None')
    w('  end.')
    return '\n'.join(out) + '\n'


def main():
    outp = sys.argv[1]
    try:
        txt = generate()
    except TranslationError as e:
        sys.stderr.write('TRANSLATION-FAILED: %s\n' % e)
        return 2
    except Exception as e:   # noqa
        sys.stderr.write('TRANSLATION-FAILED: %s: %s\n' % (type(e).__name__, e))
        return 2
    old = None
    if os.path.exists(outp):
        with open(outp) as f:
            old = f.read()
    if old != txt:
        with open(outp, 'w') as f:
            f.write(txt)
        print('ViewGen.v rewritten')
    else:
        print('ViewGen.v unchanged')
    return 0


if __name__ == '__main__':
    sys.exit(main())
