#!/venv/bin/python
"""Translator: regenerate coq/theories/Model/ViewGen.v from the navigation and
search methods of $TEXSOUP_REPO/TexSoup/data.py (default /repo).

  TexExpr.all / children / contents / __match__        TexEnv.__match__
  TexNode.all / children / contents / descendants / __descendants / text /
          __iter__ / __getitem__ / __match__ / find_all / find / count /
          __getattr__

are read with the Python `ast` module only (nothing is imported or executed)
and written as terms of the language of coq/theories/Model/ViewDSL.v, one Coq
constructor per Python construct.  Proofs/ViewGenProofs.v then proves that
interpreting each generated term is the hand-written function of
Model/Views.v.

Fail-closed: any statement or expression shape that is not listed in
ViewDSL.v raises TranslationError, as does a change of what the reading
relies on:
  * the set of classes of data.py and their bases (the dispatch of the
    interpreter: TexNode / TexEnv and subclasses / other TexExpr);
  * which class defines which translated name (no further override), and
    that no class of the hierarchy defines __getattribute__, __bool__,
    __len__, __setattr__ ..., nor __getattr__ outside TexNode;
  * a rebinding of isinstance / hasattr / getattr / str / list / len / iter /
    filter / super / property / to_list / itertools / the class names;
  * the source of the code the interpreter's primitives stand for, pinned to
    the reference text below: utils.to_list, Token.__new__ / __getattr__ /
    __str__, TexNode.__init__ / __str__, TexExpr.__init__, TexEnv.__init__ /
    begin / end / __str__, TexNamedEnv.__init__ / begin / end,
    TexUnNamedEnv, TexCmd.__str__, TexText.__init__ / __str__,
    TexGroup.__init__, TexArgs.__str__.

The output depends on the abstract syntax only: comments, docstrings, layout
and the names of parameters and locals do not change it; `filter(lambda x: c,
l)`, `(x for x in l if c)` and `[x for x in l if c]` are the same term.

Usage: gen_views.py <out.v>       exit 0 = written (only if content changed)
                                  exit 2 = translation failed (message on stderr)
"""
import ast
import os
import sys

REPO = os.environ.get('TEXSOUP_REPO', '/repo')


class TranslationError(Exception):
    pass


def need(cond, msg):
    if not cond:
        raise TranslationError(msg)


def where(n):
    return 'line %s' % getattr(n, 'lineno', '?')


def shape(n):
    return ast.dump(n)[:120]


def is_name(n, ident):
    return isinstance(n, ast.Name) and n.id == ident


def strip_doc(body):
    if body and isinstance(body[0], ast.Expr) and isinstance(body[0].value, ast.Constant) \
            and isinstance(body[0].value.value, str):
        return body[1:]
    return body


def norm_fn(fn):
    return (ast.dump(fn.args), [ast.dump(x) for x in strip_doc(fn.body)],
            [ast.dump(d) for d in fn.decorator_list])


def zlit(v):
    return '%d%%Z' % v if v >= 0 else '(%d)%%Z' % v


def strlit(s):
    if s == '':
        return '[]'
    return '[%s]%%N' % '; '.join(str(ord(ch)) for ch in s)


# ---------------------------------------------------------------- the fragment

MNAME = {'all': 'M_all', 'children': 'M_children', 'contents': 'M_contents',
         'descendants': 'M_descendants', '__descendants': 'M_priv_descendants', 'text': 'M_text',
         '__iter__': 'M_iter', '__getitem__': 'M_getitem', '__match__': 'M_match',
         'find_all': 'M_find_all', 'find': 'M_find', 'count': 'M_count', '__getattr__': 'M_getattr'}
MORDER = ['all', 'children', 'contents', 'descendants', '__descendants', 'text', '__iter__',
          '__getitem__', '__match__', 'find_all', 'find', 'count', '__getattr__']
ATTR = {'expr': 'A_expr', 'args': 'A_args', '_contents': 'A_contents_', '_text': 'A_text_',
        'name': 'A_name', 'begin': 'A_begin', 'end': 'A_end',
        'preserve_whitespace': 'A_preserve_whitespace'}
CNAME = {'TexNode': 'CTexNode', 'TexExpr': 'CTexExpr', 'TexText': 'CTexText', 'TexCmd': 'CTexCmd',
         'TexEnv': 'CTexEnv', 'str': 'CStr', 'list': 'CList'}
EXN = {'IndexError': 'XIndex', 'AssertionError': 'XAssertion'}
BUILTINS = ('isinstance', 'hasattr', 'getattr', 'str', 'list', 'len', 'iter', 'filter', 'super',
            'property', 'IndexError', 'AssertionError', 'object')

# class -> (kind, translated methods in output order)
TABLE = [
    ('TexExpr', 'KExpr', ['all', 'children', 'contents', '__match__']),
    ('TexEnv', 'KEnv', ['__match__']),
    ('TexNode', 'KNode', ['all', 'children', 'contents', 'descendants', '__descendants', 'text',
                          '__iter__', '__getitem__', '__match__', 'find_all', 'find', 'count',
                          '__getattr__']),
]

BASES = {
    'TexNode': ['object'], 'TexExpr': ['object'], 'TexEnv': ['TexExpr'], 'TexNamedEnv': ['TexEnv'],
    'TexUnNamedEnv': ['TexEnv'], 'TexDisplayMathModeEnv': ['TexUnNamedEnv'],
    'TexMathModeEnv': ['TexUnNamedEnv'], 'TexDisplayMathEnv': ['TexUnNamedEnv'],
    'TexMathEnv': ['TexUnNamedEnv'], 'TexCmd': ['TexExpr'], 'TexText': ['TexExpr', 'str'],
    'TexGroup': ['TexUnNamedEnv'], 'BracketGroup': ['TexGroup'], 'BraceGroup': ['TexGroup'],
    'TexArgs': ['list'],
}
HIER = [c for c in BASES if c != 'TexArgs']
LEAVES = ['TexDisplayMathModeEnv', 'TexMathModeEnv', 'TexDisplayMathEnv', 'TexMathEnv',
          'BracketGroup', 'BraceGroup']

# which classes of HIER may define (def or class-level assignment) these names
DEFINERS = {
    'all': ['TexExpr', 'TexNode'], 'children': ['TexExpr', 'TexNode'],
    'contents': ['TexExpr', 'TexNode'], 'descendants': ['TexNode'], '__descendants': ['TexNode'],
    'text': ['TexNode'], '__iter__': ['TexNode'], '__getitem__': ['TexNode'],
    '__match__': ['TexEnv', 'TexExpr', 'TexNode'], 'find_all': ['TexNode'], 'find': ['TexNode'],
    'count': ['TexNode'], '__getattr__': ['TexNode'],
    'begin': sorted(['TexEnv', 'TexNamedEnv', 'TexUnNamedEnv'] + LEAVES),
    'end': sorted(['TexEnv', 'TexNamedEnv', 'TexUnNamedEnv'] + LEAVES),
    'name': sorted(['TexNode', 'TexUnNamedEnv'] + LEAVES),
    'args': ['TexNode'], 'expr': [], 'parent': [], '_contents': [], '_text': [],
    'preserve_whitespace': [],
    '__getattribute__': [], '__bool__': [], '__len__': [], '__setattr__': [], '__delattr__': [],
    '__new__': [], '__class__': [], '__init_subclass__': [], '__set_name__': [],
    '__instancecheck__': [], '__subclasscheck__': [], '__slots__': [], '__dict__': [],
    '_begin': ['TexEnv'], '_end': ['TexEnv'],
}

PINNED_DATA = r'''
class TexNode(object):
    def __init__(self, expr, src=None):
        assert isinstance(expr, TexExpr), \
            'Expression given to node must be a valid TexExpr'
        super().__init__()
        self.expr = expr
        self.parent = None
        if src is not None:
            self.char_to_line = CharToLineOffset(src)
        else:
            self.char_to_line = None

    def __str__(self):
        return str(self.expr)

class TexExpr(object):
    def __init__(self, name, contents=(), args=(), preserve_whitespace=False,
                 position=-1):
        self.name = name.strip()
        self.args = TexArgs(args)
        self.parent = None
        self._contents = list(contents) or []
        self.preserve_whitespace = preserve_whitespace
        self.position = position

        for content in contents:
            if isinstance(content, (TexEnv, TexCmd)):
                content.parent = self

class TexEnv(TexExpr):
    _begin = None
    _end = None

    def __init__(self, name, begin, end, contents=(), args=(),
                 preserve_whitespace=False, position=-1):
        super().__init__(name, contents, args, preserve_whitespace, position)
        self._begin = begin
        self._end = end

    @property
    def begin(self):
        return self._begin

    @property
    def end(self):
        return self._end

    def __str__(self):
        contents = ''.join(map(str, self._contents))
        if self.name == '[tex]' and not self.begin and not self.end:
            return contents
        else:
            return '%s%s%s' % (
                self.begin + str(self.args), contents, self.end)

class TexNamedEnv(TexEnv):
    def __init__(self, name, contents=(), args=(), preserve_whitespace=False,
                 position=-1):
        super().__init__(name, r"\begin{%s}" % name, r"\end{%s}" % name,
                         contents, args, preserve_whitespace, position=position)

    @property
    def begin(self):
        return r"\begin{%s}" % self.name

    @property
    def end(self):
        return r"\end{%s}" % self.name

class TexUnNamedEnv(TexEnv):
    name = None
    begin = None
    end = None

    def __init__(self, contents=(), args=(), preserve_whitespace=False,
                 position=-1):
        assert self.name, 'Name must be non-falsey'
        assert self.begin and self.end, 'Delimiters must be non-falsey'
        super().__init__(self.name, self.begin, self.end,
                         contents, args, preserve_whitespace, position=position)

class TexCmd(TexExpr):
    def __str__(self):
        if self._contents:
            return '\\%s%s%s' % (self.name, self.args, ''.join(
                [str(e) for e in self._contents]))
        return '\\%s%s' % (self.name, self.args)

class TexText(TexExpr, str):
    def __init__(self, text, position=-1):
        super().__init__('text', [text], position=position)
        self._text = text

    def __str__(self):
        return str(self._text)

class TexGroup(TexUnNamedEnv):
    def __init__(self, *contents, preserve_whitespace=False, position=-1):
        super().__init__(contents, preserve_whitespace=preserve_whitespace,
                         position=position)

class TexArgs(list):
    def __str__(self):
        return ''.join(map(str, self))
'''

PINNED_UTILS = r'''
class Token(str):
    def __new__(cls, text='', position=None, category=None):
        self = str.__new__(cls, text)
        if isinstance(text, Token):
            self.text = text.text
            self.position = text.position
            self.category = category or text.category
        else:
            self.text = text
            self.position = position
            self.category = category
        return self

    def __str__(self):
        return str(self.text)

    def __getattr__(self, name):
        return getattr(self.text, name)

def to_list(f):
    @functools.wraps(f)
    def wrapper(*args, **kwargs):
        return list(f(*args, **kwargs))
    return wrapper
'''


def class_members(cl):
    """name -> list of defining statements directly in the class body"""
    out = {}
    for st in cl.body:
        if isinstance(st, (ast.FunctionDef, ast.AsyncFunctionDef, ast.ClassDef)):
            out.setdefault(st.name, []).append(st)
        elif isinstance(st, ast.Assign):
            for t in st.targets:
                for x in ast.walk(t):
                    if isinstance(x, ast.Name):
                        out.setdefault(x.id, []).append(st)
        elif isinstance(st, (ast.AnnAssign, ast.AugAssign)):
            for x in ast.walk(st.target):
                if isinstance(x, ast.Name):
                    out.setdefault(x.id, []).append(st)
        elif isinstance(st, ast.Expr) and isinstance(st.value, ast.Constant):
            pass
        elif isinstance(st, ast.Pass):
            pass
        else:
            raise TranslationError('unexpected statement in class %s at %s: %s'
                                   % (cl.name, where(st), shape(st)))
    return out


def is_setter(fn, name):
    return (len(fn.decorator_list) == 1 and isinstance(fn.decorator_list[0], ast.Attribute)
            and fn.decorator_list[0].attr == 'setter' and is_name(fn.decorator_list[0].value, name))


def check_pinned(tree, ref_src, what):
    classes = {st.name: st for st in tree.body if isinstance(st, ast.ClassDef)}
    funcs = {st.name: st for st in tree.body if isinstance(st, ast.FunctionDef)}
    for r in ast.parse(ref_src).body:
        if isinstance(r, ast.FunctionDef):
            need(r.name in funcs and norm_fn(funcs[r.name]) == norm_fn(r)
                 and sum(1 for st in tree.body
                         if isinstance(st, (ast.FunctionDef, ast.ClassDef)) and st.name == r.name) == 1,
                 '%s.%s differs from the source the interpreter\'s reading is pinned to' % (what, r.name))
            continue
        need(r.name in classes, 'class %s is missing' % r.name)
        cl = classes[r.name]
        need([ast.dump(b) for b in cl.bases] == [ast.dump(b) for b in r.bases]
             and not cl.keywords and not cl.decorator_list, 'bases of %s changed' % r.name)
        mem = class_members(cl)
        for item in r.body:
            if isinstance(item, ast.FunctionDef):
                got = [x for x in mem.get(item.name, []) if not is_setter(x, item.name)] \
                    if all(isinstance(x, ast.FunctionDef) for x in mem.get(item.name, [])) else []
                need(len(got) == 1 and norm_fn(got[0]) == norm_fn(item),
                     '%s.%s differs from the source the interpreter\'s reading is pinned to'
                     % (r.name, item.name))
            else:
                nm = item.targets[0].id
                got = mem.get(nm, [])
                need(len(got) == 1 and ast.dump(got[0]) == ast.dump(item), '%s.%s changed' % (r.name, nm))


def check_module(tree, utree):
    need(isinstance(tree, ast.Module) and isinstance(utree, ast.Module), 'not a module')
    bound = {}

    def bind(name, how):
        bound.setdefault(name, []).append(how)

    imports = []
    for st in tree.body:
        if isinstance(st, ast.ImportFrom):
            imports.append(st)
            for a in st.names:
                need(a.name != '*', 'star import at %s' % where(st))
                bind(a.asname or a.name, 'import')
        elif isinstance(st, ast.Import):
            imports.append(st)
            for a in st.names:
                bind((a.asname or a.name).split('.')[0], 'import')
        elif isinstance(st, ast.FunctionDef):
            bind(st.name, 'def')
        elif isinstance(st, ast.ClassDef):
            bind(st.name, 'class')
        elif isinstance(st, ast.Assign):
            for t in st.targets:
                for x in ast.walk(t):
                    if isinstance(x, ast.Name) and isinstance(x.ctx, ast.Store):
                        bind(x.id, 'assign')
                    elif isinstance(x, ast.Attribute) and not isinstance(x.ctx, ast.Load):
                        raise TranslationError('module-level attribute assignment at %s' % where(st))
        elif isinstance(st, ast.Expr) and isinstance(st.value, ast.Constant):
            pass
        else:
            raise TranslationError('unexpected module-level statement at %s: %s' % (where(st), shape(st)))
    classes = [st for st in tree.body if isinstance(st, ast.ClassDef)]
    need(sorted(c.name for c in classes) == sorted(BASES),
         'the classes of data.py changed: %s' % sorted(c.name for c in classes))
    for nm in BASES:
        need(bound.get(nm) == ['class'], 'module-level binding of %s changed: %s' % (nm, bound.get(nm)))
    for nm in BUILTINS:
        need(nm not in bound, 'builtin %s is rebound at module level' % nm)
    # imports the reading relies on
    need(bound.get('itertools') == ['import'] and any(
        isinstance(st, ast.Import) and any(a.name == 'itertools' and a.asname is None for a in st.names)
        for st in imports), '`import itertools` changed')
    for nm in ('to_list', 'Token'):
        need(bound.get(nm) == ['import'] and any(
            isinstance(st, ast.ImportFrom) and st.module == 'TexSoup.utils' and st.level == 0
            and any(a.name == nm and a.asname is None for a in st.names) for st in imports),
            '`from TexSoup.utils import %s` changed' % nm)
    for n in ast.walk(tree):
        need(not isinstance(n, (ast.Global, ast.Nonlocal)), 'global/nonlocal at %s' % where(n))
        if isinstance(n, ast.Delete):
            need(all(isinstance(t, ast.Subscript) for t in n.targets), 'del of a name/attribute at %s' % where(n))
        if isinstance(n, ast.Attribute) and n.attr.startswith('_TexNode__'):
            raise TranslationError('use of %s at %s' % (n.attr, where(n)))
        if isinstance(n, ast.Constant) and isinstance(n.value, str) and not \
                (len(n.value) > 200):
            need('_TexNode__' not in n.value, 'string mentioning _TexNode__ at %s' % where(n))
        if isinstance(n, ast.Call) and isinstance(n.func, ast.Name) \
                and n.func.id in ('setattr', 'delattr', 'exec', 'eval', '__import__', 'globals',
                                  'locals', 'vars'):
            raise TranslationError('%s(...) at %s' % (n.func.id, where(n)))
        if isinstance(n, ast.Attribute) and not isinstance(n.ctx, ast.Load) \
                and isinstance(n.value, ast.Name) and n.value.id in BASES:
            raise TranslationError('assignment to an attribute of class %s at %s' % (n.value.id, where(n)))
        if isinstance(n, ast.Attribute) and n.attr in ('__class__', '__dict__', '__bases__', '__mro__') \
                and not isinstance(n.ctx, ast.Load):
            raise TranslationError('assignment to %s at %s' % (n.attr, where(n)))
    cmap = {c.name: c for c in classes}
    for nm, bases in BASES.items():
        cl = cmap[nm]
        need([b.id if isinstance(b, ast.Name) else None for b in cl.bases] == bases
             and not cl.keywords and not cl.decorator_list, 'bases of %s changed' % nm)
    members = {nm: class_members(cmap[nm]) for nm in HIER}
    for attr, allowed in DEFINERS.items():
        got = sorted(nm for nm in HIER if attr in members[nm])
        need(got == sorted(allowed), 'the classes defining `%s` changed: %s' % (attr, got))
    check_pinned(tree, PINNED_DATA, 'data')
    # utils: to_list, Token
    ubound = {}
    for st in utree.body:
        if isinstance(st, (ast.FunctionDef, ast.ClassDef)):
            ubound.setdefault(st.name, []).append(st)
        elif isinstance(st, ast.Assign):
            for t in st.targets:
                for x in ast.walk(t):
                    if isinstance(x, ast.Name) and isinstance(x.ctx, ast.Store):
                        ubound.setdefault(x.id, []).append(st)
    for nm in ('to_list', 'Token'):
        need(len(ubound.get(nm, [])) == 1, 'binding of utils.%s changed' % nm)
    for nm in ('list', 'functools', 'str', 'getattr', 'isinstance'):
        need(nm not in ubound, 'utils rebinds %s' % nm)
    check_pinned(utree, PINNED_UTILS, 'utils')
    tmem = class_members(ubound['Token'][0])
    for nm in ('__match__', '__getattribute__', 'isspace', '__instancecheck__', '__class__'):
        need(nm not in tmem, 'class Token defines %s' % nm)
    for n in ast.walk(utree):
        if isinstance(n, ast.Attribute) and not isinstance(n.ctx, ast.Load) \
                and isinstance(n.value, ast.Name) and n.value.id == 'Token' \
                and n.attr in ('__match__', '__getattr__', '__getattribute__', 'isspace', '__str__'):
            raise TranslationError('utils assigns Token.%s at %s' % (n.attr, where(n)))
    # the methods to translate
    out = []
    for cname, kind, names in TABLE:
        mem = members[cname]
        for nm in names:
            defs = mem.get(nm, [])
            need(all(isinstance(d, ast.FunctionDef) for d in defs), '%s.%s is not a plain def' % (cname, nm))
            getters = [d for d in defs if not is_setter(d, nm)]
            need(len(getters) == 1, '%s.%s: expected exactly one definition' % (cname, nm))
            fn = getters[0]
            if any(is_setter(d, nm) for d in defs):
                # a setter rebinding the name must come after the getter it extends
                need(defs[0] is fn, '%s.%s: setter before getter' % (cname, nm))
            need(fn.returns is None, '%s.%s: annotated' % (cname, nm))
            out.append((cname, kind, nm, fn))
    return out


# ---------------------------------------------------------------- one method

class Scope(object):
    def __init__(self, owner, fn):
        a = fn.args
        need(not a.vararg and not a.kwonlyargs and not a.kw_defaults
             and not getattr(a, 'posonlyargs', []) and len(a.args) >= 1,
             '%s: unsupported parameter list' % owner)
        for x in a.args + ([a.kwarg] if a.kwarg else []):
            need(x.annotation is None, '%s: annotated parameter' % owner)
        self.owner = owner
        self.self_name = a.args[0].arg
        self.vars = {}
        self.nslots = 0
        for x in a.args[1:] + ([a.kwarg] if a.kwarg else []):
            need(x.arg not in self.vars and x.arg != self.self_name, '%s: repeated parameter' % owner)
            self.vars[x.arg] = self.nslots
            self.nslots += 1
        self.nparams = self.nslots
        self.stack = []      # bound variables of lambdas / comprehensions
        for n in ast.walk(fn):
            need(not isinstance(n, (ast.FunctionDef, ast.AsyncFunctionDef, ast.ClassDef, ast.Await,
                                    ast.With, ast.Import, ast.ImportFrom, ast.While, ast.NamedExpr,
                                    ast.SetComp, ast.DictComp, ast.Raise, ast.AugAssign, ast.Break,
                                    ast.Continue, ast.Global, ast.Nonlocal, ast.Delete, ast.AsyncFor,
                                    ast.AsyncWith, ast.AnnAssign)) or n is fn,
                 '%s: unsupported construct at %s: %s' % (owner, where(n), type(n).__name__))

    def err(self, n, what):
        raise TranslationError('%s, %s: %s: %s' % (self.owner, where(n), what, shape(n)))

    def lookup(self, name):
        for nm, slot in reversed(self.stack):
            if nm == name:
                return slot
        return self.vars.get(name)

    def free(self, name):
        return self.lookup(name) is None and name != self.self_name

    def fresh(self):
        s = self.nslots
        self.nslots += 1
        return s

    def declare(self, nm):
        need(nm != self.self_name and nm not in BUILTINS and nm not in BASES
             and nm not in ('to_list', 'Token', 'itertools'), '%s: assignment to %s' % (self.owner, nm))
        need(not any(x == nm for x, _ in self.stack), '%s: assignment to the bound variable %s' % (self.owner, nm))
        if nm not in self.vars:
            self.vars[nm] = self.fresh()
        return self.vars[nm]

    def tms(self, lst):
        return '(tms_of [%s])' % '; '.join(self.ex(a) for a in lst)

    def classes(self, t):
        def one(x):
            if isinstance(x, ast.Name) and x.id in CNAME and self.free(x.id):
                return CNAME[x.id]
            self.err(t, 'isinstance against an unsupported class')
        if isinstance(t, ast.Tuple):
            need(t.elts, '%s: empty class tuple' % self.owner)
            return [one(x) for x in t.elts]
        return [one(t)]

    def binder(self, var, body_fn):
        """translate something under a bound variable living in its own slot"""
        need(var != self.self_name, '%s: bound variable shadows self' % self.owner)
        slot = self.fresh()
        self.stack.append((var, slot))
        try:
            return slot, body_fn()
        finally:
            self.stack.pop()

    def comprehension(self, n, lazy):
        need(len(n.generators) == 1, '%s: nested comprehension at %s' % (self.owner, where(n)))
        g = n.generators[0]
        need(not g.is_async and isinstance(g.target, ast.Name), '%s: comprehension target' % self.owner)
        it = self.ex(g.iter)          # evaluated in the enclosing scope
        var = g.target.id
        trivial = is_name(n.elt, var)
        if g.ifs:
            need(trivial, '%s: comprehension with both a condition and a computed element at %s'
                 % (self.owner, where(n)))

            def cond():
                parts = [self.ex(c) for c in g.ifs]
                out = parts[-1]
                for p in reversed(parts[:-1]):
                    out = 'TAnd (%s) (%s)' % (p, out)
                return out
            slot, c = self.binder(var, cond)
            return 'TFilter %d%%nat (%s) (%s)' % (slot, c, it)
        slot, b = self.binder(var, lambda: self.ex(n.elt))
        return 'TMap %d%%nat (%s) (%s)' % (slot, b, it)

    def ex(self, n):
        if isinstance(n, ast.Constant):
            if n.value is None:
                return 'TNone'
            if n.value is True or n.value is False:
                return 'TBool %s' % ('true' if n.value else 'false')
            if type(n.value) is int:
                return 'TInt %s' % zlit(n.value)
            if type(n.value) is str:
                return 'TStr %s' % strlit(n.value)
            self.err(n, 'unsupported constant')
        if isinstance(n, ast.Tuple):
            need(isinstance(n.ctx, ast.Load), 'tuple context')
            need(not any(isinstance(e, ast.Starred) for e in n.elts), 'starred tuple element')
            return 'TTuple %s' % self.tms(n.elts)
        if isinstance(n, ast.Name):
            need(isinstance(n.ctx, ast.Load), 'name context')
            if n.id == self.self_name and not any(x == n.id for x, _ in self.stack):
                return 'TSelf'
            slot = self.lookup(n.id)
            if slot is not None:
                return 'TVar %d%%nat' % slot
            self.err(n, 'name that is neither a parameter nor a local')
        if isinstance(n, ast.UnaryOp):
            if isinstance(n.op, ast.Not):
                return 'TNot (%s)' % self.ex(n.operand)
            if isinstance(n.op, ast.USub) and isinstance(n.operand, ast.Constant) \
                    and type(n.operand.value) is int:
                return 'TInt %s' % zlit(-n.operand.value)
            self.err(n, 'unsupported unary operator')
        if isinstance(n, ast.BinOp):
            if isinstance(n.op, ast.Add):
                return 'TAdd (%s) (%s)' % (self.ex(n.left), self.ex(n.right))
            self.err(n, 'unsupported binary operator')
        if isinstance(n, ast.BoolOp):
            need(len(n.values) >= 2, 'boolean operator')
            con = 'TAnd' if isinstance(n.op, ast.And) else 'TOr'
            parts = [self.ex(v) for v in n.values]
            out = parts[-1]
            for p in reversed(parts[:-1]):
                out = '%s (%s) (%s)' % (con, p, out)
            return out
        if isinstance(n, ast.Compare):
            ops = {ast.Eq: 'TEq', ast.NotEq: 'TNe', ast.In: 'TIn', ast.NotIn: 'TNotIn'}
            if len(n.ops) != 1 or type(n.ops[0]) not in ops:
                self.err(n, 'unsupported comparison')
            return '%s (%s) (%s)' % (ops[type(n.ops[0])], self.ex(n.left), self.ex(n.comparators[0]))
        if isinstance(n, ast.Attribute):
            need(isinstance(n.ctx, ast.Load), 'attribute context')
            if n.attr in ATTR:
                return 'TAttr %s (%s)' % (ATTR[n.attr], self.ex(n.value))
            if n.attr in MNAME:
                return 'TProp %s (%s)' % (MNAME[n.attr], self.ex(n.value))
            self.err(n, 'unsupported attribute')
        if isinstance(n, ast.Subscript):
            need(isinstance(n.ctx, ast.Load), 'subscript context')
            idx = n.slice
            if isinstance(idx, getattr(ast, 'Index', ())):
                idx = idx.value
            if isinstance(idx, (ast.Slice, ast.Tuple)):
                self.err(n, 'slice / tuple subscript')
            return 'TIndex (%s) (%s)' % (self.ex(n.value), self.ex(idx))
        if isinstance(n, ast.ListComp):
            return self.comprehension(n, False)
        if isinstance(n, ast.GeneratorExp):
            return self.comprehension(n, True)
        if isinstance(n, ast.Call):
            return self.call(n)
        self.err(n, 'unsupported expression')

    def call(self, n):
        f, a, kws = n.func, n.args, n.keywords
        if isinstance(f, ast.Name) and self.free(f.id):
            need(not kws and not any(isinstance(x, ast.Starred) for x in a),
                 '%s: keyword/starred arguments at %s' % (self.owner, where(n)))
            if f.id == 'isinstance' and len(a) == 2:
                return 'TIsInst (%s) [%s]' % (self.ex(a[0]), '; '.join(self.classes(a[1])))
            if f.id == 'hasattr' and len(a) == 2 and isinstance(a[1], ast.Constant) \
                    and a[1].value in MNAME and a[1].value != '__descendants':
                return 'THasattr (%s) %s' % (self.ex(a[0]), MNAME[a[1].value])
            if f.id == 'getattr' and len(a) == 2:
                return 'TGetattr (%s) (%s)' % (self.ex(a[0]), self.ex(a[1]))
            if f.id == 'str' and len(a) == 1:
                return 'TStrOf (%s)' % self.ex(a[0])
            if f.id == 'list' and len(a) == 1:
                return 'TList (%s)' % self.ex(a[0])
            if f.id == 'iter' and len(a) == 1:
                return 'TIter (%s)' % self.ex(a[0])
            if f.id == 'len' and len(a) == 1:
                return 'TLen (%s)' % self.ex(a[0])
            if f.id == 'TexNode' and len(a) == 1:
                return 'TNewNode (%s)' % self.ex(a[0])
            if f.id == 'filter' and len(a) == 2 and isinstance(a[0], ast.Lambda):
                lam = a[0].args
                need(len(lam.args) == 1 and not lam.vararg and not lam.kwonlyargs and not lam.kwarg
                     and not lam.defaults and not lam.kw_defaults and not getattr(lam, 'posonlyargs', []),
                     '%s: lambda parameter list at %s' % (self.owner, where(n)))
                it = self.ex(a[1])
                slot, c = self.binder(lam.args[0].arg, lambda: self.ex(a[0].body))
                return 'TFilter %d%%nat (%s) (%s)' % (slot, c, it)
            self.err(n, 'unsupported call')
        if isinstance(f, ast.Attribute):
            if is_name(f.value, 'itertools') and self.free('itertools') and f.attr == 'chain':
                need(not kws, 'keywords in chain')
                if a and isinstance(a[-1], ast.Starred):
                    need(not any(isinstance(x, ast.Starred) for x in a[:-1]), 'several starred arguments')
                    return 'TChainStar %s (%s)' % (self.tms(a[:-1]), self.ex(a[-1].value))
                need(not any(isinstance(x, ast.Starred) for x in a), 'starred argument')
                return 'TChain %s' % self.tms(a)
            need(not any(isinstance(x, ast.Starred) for x in a),
                 '%s: starred arguments at %s' % (self.owner, where(n)))
            if f.attr == 'isspace' and not a and not kws:
                return 'TIsSpace (%s)' % self.ex(f.value)
            if f.attr == 'items' and not a and not kws:
                return 'TItems (%s)' % self.ex(f.value)
            if f.attr in MNAME:
                m = MNAME[f.attr]
                is_super = (isinstance(f.value, ast.Call) and is_name(f.value.func, 'super')
                            and self.free('super') and not f.value.args and not f.value.keywords)
                if is_super:
                    need(not kws, 'keywords in super call')
                    return 'TSuper %s %s' % (m, self.tms(a))
                recv = self.ex(f.value)
                if not kws:
                    return 'TCall %s (%s) %s' % (m, recv, self.tms(a))
                if len(kws) == 1 and kws[0].arg is None:
                    return 'TCallKw %s (%s) %s (%s)' % (m, recv, self.tms(a), self.ex(kws[0].value))
                self.err(n, 'keyword arguments')
        self.err(n, 'unsupported call')

    def stmt(self, s, prev):
        if isinstance(s, ast.Expr):
            v = s.value
            if isinstance(v, ast.Yield):
                need(v.value is not None, '%s: bare yield' % self.owner)
                return ('atom', 'SYield (%s)' % self.ex(v.value))
            if isinstance(v, ast.YieldFrom):
                return ('atom', 'SYieldFrom (%s)' % self.ex(v.value))
            if isinstance(v, ast.Constant):
                self.err(s, 'constant expression statement')
            return ('atom', 'SExpr (%s)' % self.ex(v))
        if isinstance(s, ast.Assign):
            need(len(s.targets) == 1, '%s: chained assignment at %s' % (self.owner, where(s)))
            t = s.targets[0]
            if isinstance(t, ast.Name):
                val = self.ex(s.value)
                return ('atom', 'SAssign %d%%nat (%s)' % (self.declare(t.id), val))
            if isinstance(t, ast.Attribute) and t.attr == 'parent' and isinstance(t.value, ast.Name) \
                    and t.value.id in self.vars and not self.stack:
                # only directly after `x = TexNode(..)`: no alias of x can exist
                ok = (isinstance(prev, ast.Assign) and len(prev.targets) == 1
                      and is_name(prev.targets[0], t.value.id) and isinstance(prev.value, ast.Call)
                      and is_name(prev.value.func, 'TexNode') and self.free('TexNode'))
                need(ok, '%s: `%s.parent = ..` not directly after `%s = TexNode(..)` at %s'
                     % (self.owner, t.value.id, t.value.id, where(s)))
                return ('atom', 'SSetParent %d%%nat (%s)' % (self.vars[t.value.id], self.ex(s.value)))
            if isinstance(t, ast.Subscript) and isinstance(t.value, ast.Name) and t.value.id in self.vars:
                idx = t.slice
                if isinstance(idx, getattr(ast, 'Index', ())):
                    idx = idx.value
                need(isinstance(idx, ast.Constant) and type(idx.value) is str,
                     '%s: subscript assignment with a non-constant key at %s' % (self.owner, where(s)))
                return ('atom', 'SSetItem %d%%nat %s (%s)'
                        % (self.vars[t.value.id], strlit(idx.value), self.ex(s.value)))
            self.err(s, 'unsupported assignment target')
        if isinstance(s, ast.Return):
            return ('atom', 'SReturn (%s)' % (self.ex(s.value) if s.value is not None else 'TNone'))
        if isinstance(s, ast.Assert):
            need(s.msg is None or (isinstance(s.msg, ast.Constant) and type(s.msg.value) is str),
                 '%s: computed assert message at %s' % (self.owner, where(s)))
            return ('atom', 'SAssert (%s)' % self.ex(s.test))
        if isinstance(s, ast.If):
            c = self.ex(s.test)
            return ('if', c, self.block(s.body), self.block(s.orelse))
        if isinstance(s, ast.For):
            need(not s.orelse, '%s: for-else' % self.owner)
            it = self.ex(s.iter)
            if isinstance(s.target, ast.Name):
                x = self.declare(s.target.id)
                return ('for', 'SFor %d%%nat (%s)' % (x, it), self.block(s.body))
            if isinstance(s.target, ast.Tuple) and len(s.target.elts) == 2 \
                    and all(isinstance(e, ast.Name) for e in s.target.elts) \
                    and s.target.elts[0].id != s.target.elts[1].id:
                x = self.declare(s.target.elts[0].id)
                y = self.declare(s.target.elts[1].id)
                return ('for', 'SFor2 %d%%nat %d%%nat (%s)' % (x, y, it), self.block(s.body))
            self.err(s, 'unsupported loop target')
        if isinstance(s, ast.Try):
            need(len(s.body) == 1 and isinstance(s.body[0], ast.Return) and s.body[0].value is not None
                 and len(s.handlers) == 1 and not s.orelse and not s.finalbody,
                 '%s: unsupported try shape at %s' % (self.owner, where(s)))
            h = s.handlers[0]
            need(h.name is None and isinstance(h.type, ast.Name) and h.type.id in EXN and self.free(h.type.id),
                 '%s: unsupported except clause at %s' % (self.owner, where(s)))
            t = self.ex(s.body[0].value)
            return ('try', 'STryReturn (%s) %s' % (t, EXN[h.type.id]), self.block(h.body))
        if isinstance(s, ast.Pass):
            return None
        self.err(s, 'unsupported statement')

    def block(self, body):
        out = []
        prev = None
        for s in body:
            r = self.stmt(s, prev)
            if r is not None:
                out.append(r)
            prev = s
        return out


def default_value(owner, n):
    if isinstance(n, ast.Constant) and n.value is None:
        return 'VNone'
    if isinstance(n, ast.Tuple) and n.elts == []:
        return 'VList []'
    raise TranslationError('%s: unsupported default %s' % (owner, shape(n)))


def decorators(owner, fn):
    names = []
    for d in fn.decorator_list:
        need(isinstance(d, ast.Name) and d.id in ('property', 'to_list'),
             '%s: unsupported decorator %s' % (owner, shape(d)))
        names.append(d.id)
    need(names in ([], ['property'], ['to_list'], ['property', 'to_list']),
         '%s: unsupported decorator list %s' % (owner, names))
    return 'property' in names, 'to_list' in names


def has_yield(fn):
    found = False
    for n in ast.walk(fn):
        if isinstance(n, (ast.Yield, ast.YieldFrom)):
            found = True
        if isinstance(n, ast.Lambda):
            need(not any(isinstance(x, (ast.Yield, ast.YieldFrom)) for x in ast.walk(n)),
                 'yield inside a lambda')
    return found


def translate_method(owner, fn):
    sc = Scope(owner, fn)
    a = fn.args
    names = [x.arg for x in a.args[1:]]
    nd = len(a.defaults)
    need(nd <= len(names), '%s: default for self' % owner)
    params = ['None'] * (len(names) - nd) + ['Some (%s)' % default_value(owner, d) for d in a.defaults]
    # a tuple default is immutable, None too: nothing to check about sharing
    is_prop, is_tolist = decorators(owner, fn)
    if is_prop:
        need(not names and not a.kwarg, '%s: property with parameters' % owner)
    body = strip_doc(fn.body)
    need(body, '%s: empty body' % owner)
    gen = has_yield(fn)
    # a yield as a sub-expression (x = yield ..) is not a statement of the fragment
    for n in ast.walk(fn):
        if isinstance(n, (ast.Yield, ast.YieldFrom)):
            pass
    prog = sc.block(body)
    nlocals = sc.nslots - sc.nparams
    return dict(params=params, kwargs=a.kwarg is not None, nlocals=nlocals, gen=gen,
                tolist=is_tolist, prop=is_prop, prog=prog)


def pp_block(items, ind):
    pad = ' ' * ind
    if not items:
        return [pad + '(blk [])']
    out = [pad + '(blk [']
    for i, it in enumerate(items):
        lines = pp_stmt(it, ind + 2)
        if i < len(items) - 1:
            lines[-1] += ';'
        out.extend(lines)
    out[-1] += '])'
    return out


def pp_stmt(it, ind):
    pad = ' ' * ind
    if it[0] == 'atom':
        return [pad + it[1]]
    if it[0] == 'if':
        return [pad + 'SIf (%s)' % it[1]] + pp_block(it[2], ind + 2) + pp_block(it[3], ind + 2)
    if it[0] in ('for', 'try'):
        return [pad + it[1]] + pp_block(it[2], ind + 2)
    raise TranslationError('internal: %r' % (it,))


def coqbool(b):
    return 'true' if b else 'false'


def gen_name(cname, nm):
    return 'gen_%s_%s' % (cname, {'__descendants': 'priv_descendants'}.get(nm, nm.strip('_')))


def generate():
    with open(os.path.join(REPO, 'TexSoup', 'data.py')) as f:
        tree = ast.parse(f.read())
    with open(os.path.join(REPO, 'TexSoup', 'utils.py')) as f:
        utree = ast.parse(f.read())
    meths = check_module(tree, utree)
    out = []
    w = out.append
    w('(* GENERATED by harness/gen_views.py from TexSoup/data.py -- do not edit.')
    w('   See ViewDSL.v for the meaning. *)')
    w('From Coq Require Import List NArith ZArith.')
    w('From TexModel Require Import Base ViewDSL.')
    w('Import ListNotations.')
    w('')
    table = {}
    for cname, kind, nm, fn in meths:
        owner = '%s.%s' % (cname, nm)
        m = translate_method(owner, fn)
        g = gen_name(cname, nm)
        table[(kind, nm)] = g
        w('(* def %s *)' % owner)
        w('Definition %s : mdef :=' % g)
        w('  mkM [%s] %s %d%%nat %s %s %s' % ('; '.join(m['params']), coqbool(m['kwargs']), m['nlocals'],
                                              coqbool(m['gen']), coqbool(m['tolist']), coqbool(m['prop'])))
        lines = pp_block(m['prog'], 4)
        lines[-1] += '.'
        out.extend(lines)
        w('')
    w('Definition gen_v_cls : cls := fun k m =>')
    w('  match k, m with')
    for cname, kind, names in TABLE:
        for nm in MORDER:
            if (kind, nm) in table:
                w('  | %s, %s => Some %s' % (kind, MNAME[nm], table[(kind, nm)]))
    w('  | _, _ => None')
    w('  end.')
    return '\n'.join(out) + '\n'


def main():
    outp = sys.argv[1]
    try:
        txt = generate()
    except TranslationError as e:
        sys.stderr.write('TRANSLATION-FAILED: %s\n' % e)
        return 2
    except Exception as e:   # noqa
        sys.stderr.write('TRANSLATION-FAILED: %s: %s\n' % (type(e).__name__, e))
        return 2
    old = None
    if os.path.exists(outp):
        with open(outp) as f:
            old = f.read()
    if old != txt:
        with open(outp, 'w') as f:
            f.write(txt)
        print('ViewGen.v rewritten')
    else:
        print('ViewGen.v unchanged')
    return 0


if __name__ == '__main__':
    sys.exit(main())
