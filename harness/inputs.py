"""Input classes shared by the oracles and the correspondence checks."""
import ast
import doctest
import glob
import os
import re

import gen
from common import REPO, rng_for


def repo_samples():
    out = []
    for p in sorted(glob.glob(os.path.join(REPO, 'tests', 'samples', '*.tex'))):
        with open(p) as f:
            out.append(f.read())
    return out


def _strs_of_source(src):
    try:
        tree = ast.parse(src)
    except SyntaxError:
        return []
    return [n.value for n in ast.walk(tree)
            if isinstance(n, ast.Constant) and isinstance(n.value, str)]


_doc_cache = None


def doc_strings():
    """Every LaTeX-looking string literal of the repository's tests, doctests
    and documentation (read from /repo at run time)."""
    global _doc_cache
    if _doc_cache is not None:
        return _doc_cache
    found = []
    parser = doctest.DocTestParser()
    for p in sorted(glob.glob(os.path.join(REPO, 'TexSoup', '*.py'))
                    + glob.glob(os.path.join(REPO, 'tests', '*.py'))):
        with open(p) as f:
            src = f.read()
        for s in _strs_of_source(src):
            found.append(s)
            if '>>>' in s:
                try:
                    for ex in parser.get_examples(s):
                        found.extend(_strs_of_source(ex.source))
                except ValueError:
                    pass
    for p in sorted(glob.glob(os.path.join(REPO, '*.md'))
                    + glob.glob(os.path.join(REPO, 'docs', 'source', '*.rst'))
                    + glob.glob(os.path.join(REPO, 'examples', '*.py'))):
        try:
            with open(p) as f:
                txt = f.read()
        except (OSError, UnicodeDecodeError):
            continue
        for m in re.finditer(r"r?('''|\"\"\")(.*?)\1", txt, re.S):
            found.append(m.group(2))
        for m in re.finditer(r"r'([^'\n]*)'", txt):
            found.append(m.group(1))
        for blk in re.finditer(r'>>> (.*)', txt):
            found.extend(_strs_of_source(blk.group(1)))
    out, seen = [], set()
    for s in found:
        if s in seen or len(s) > 6000 or '>>>' in s:
            continue
        if not re.search(r'[\\${}%]', s):
            continue
        seen.add(s)
        out.append(s)
    _doc_cache = out
    return out


def grammar_docs(prop, n, depth, spaced=False, hostile=False, salt='', max_len=3,
                 maxchars=1500):
    """n well-formed documents as (source, elements)."""
    rng = rng_for(prop, 'grammar' + salt)
    g = gen.DocGen(rng, max_depth=depth, max_len=max_len, spaced_args=spaced,
                   hostile=hostile)
    out = []
    tries = 0
    while len(out) < n and tries < 20 * n:
        tries += 1
        els = g.document()
        s = gen.render_all(els)
        if len(s) <= maxchars:
            out.append((s, els))
    return out


def env_in_arg_depth(s):
    """crude bound on nesting used to keep generated inputs away from the
    exponential re-parse trap (environment inside argument, repeated)"""
    depth = best = 0
    for ch in s:
        if ch in '{[':
            depth += 1
            best = max(best, depth)
        elif ch in '}]':
            depth = max(0, depth - 1)
    return best
