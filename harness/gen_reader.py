#!/venv/bin/python
"""Translator: regenerate coq/theories/Model/ReadGen.v from the functions of
$TEXSOUP_REPO/TexSoup/reader.py (default /repo).

reader.py is read with the Python `ast` module only (nothing is imported or
executed) and every function is written as a term of the small imperative
language of coq/theories/Model/ReadDSL.v, one Coq constructor per Python
construct.  Proofs/ReadGenProofs.v relates the interpretation of the generated
terms to the hand-written reader of Model/Reader.v.

Fail-closed: every statement or expression shape that is not listed in
ReadDSL.v raises TranslationError, as does everything around the functions that
the translation relies on: the imports, the module-level tables
(MATH_TOKEN_TO_ENV, ARG_BEGIN_TO_ENV, MODE_*), the make_read_peek wrapper, the
set of functions, rebinding of any name with a module-level meaning, and the
aliasing discipline that makes the DSL's value semantics of objects equal to
Python's reference semantics (see check_aliasing).

The output depends on the abstract syntax only: comments, docstrings, layout
and the names of local variables and parameters do not change it.

Normalisation.  Before translation the abstract syntax of every function is
brought into a normal form by rewrites that preserve Python's meaning (section
"normal form" below: annotations dropped, f-strings = %-formatting, `x in D` =
`x in D.keys()`, calls of a pure wrapper / of a nested predicate replaced by
their bodies, a named temporary for a pure expression replaced by the
expression, `if not c: A else: B` = `if c: B else: A`, the statements that
follow an `if` with an early exit moved into its branches, a `continue` at the
end of a loop body and unreachable statements dropped).  Sources that differ
only in these respects give the identical ReadGen.v.

Usage: gen_reader.py <out.v>    exit 0 = written (only if content changed)
                                exit 2 = translation failed (message on stderr)
"""
import ast
import os
import sys

REPO = os.environ.get('TEXSOUP_REPO', '/repo')


class TranslationError(Exception):
    pass


def need(cond, msg):
    if not cond:
        raise TranslationError(msg)


TC_NAMES = ['Escape', 'GroupBegin', 'GroupEnd', 'Comment', 'MergedSpacer', 'EscapedComment',
            'MathSwitch', 'DisplayMathSwitch', 'MathGroupBegin', 'MathGroupEnd',
            'DisplayMathGroupBegin', 'DisplayMathGroupEnd', 'LineBreak', 'CommandName', 'Text',
            'BracketBegin', 'BracketEnd', 'ParenBegin', 'ParenEnd', 'PunctuationCommandName',
            'SizeCommand', 'Spacer']

# the functions of reader.py, = the constructors of ReadDSL.fname (make_read_peek
# is checked against MAKE_READ_PEEK instead)
FUNCTIONS = ['read_tex', 'read_expr', 'read_item', 'unclosed_env_handler', 'read_math_env',
             'read_skip_env', 'read_env', 'read_args', 'read_arg_optional', 'read_arg_required',
             'read_arg', 'read_spacer', 'read_command']

GLOBAL_TUPLES = {'SKIP_ENV_NAMES': 'G_SKIP_ENV_NAMES', 'MATH_ENV_NAMES': 'G_MATH_ENV_NAMES',
                 'SPECIAL_COMMANDS': 'G_SPECIAL_COMMANDS'}
GLOBAL_DICTS = {'MATH_TOKEN_TO_ENV': 'D_MATH_TOKEN_TO_ENV', 'ARG_BEGIN_TO_ENV': 'D_ARG_BEGIN_TO_ENV',
                'SIGNATURES': 'D_SIGNATURES'}
MODES = ['MODE_MATH', 'MODE_NON_MATH', 'MODE_SPECIAL']
ATTRS = {'category': 'A_category', 'position': 'A_position', 'text': 'A_text', 'string': 'A_string',
         'name': 'A_name', 'end': 'A_end', 'token_end': 'A_token_end'}
ERRORS = {'EOFError': 'EOFError', 'TypeError': 'TypeError'}

# what the module must import, exactly (a name -> where it comes from)
IMPORTS = {
    'Token': 'TexSoup.utils', 'Buffer': 'TexSoup.utils', 'MixedBuffer': 'TexSoup.utils',
    'CharToLineOffset': 'TexSoup.utils', 'arg_type': 'TexSoup.data', 'TC': 'TexSoup.tokens',
    'tokenize': 'TexSoup.tokens', 'SKIP_ENV_NAMES': 'TexSoup.tokens',
    'MATH_ENV_NAMES': 'TexSoup.tokens', 'SPECIAL_COMMANDS': 'TexSoup.tokens',
}
STAR_IMPORTS = ['TexSoup.data']
PLAIN_IMPORTS = ['functools', 'string', 'sys']
# names taken from `from TexSoup.data import *`; data.py must define them as classes
DATA_CLASSES = ['TexCmd', 'TexNamedEnv', 'TexText', 'TexArgs', 'TexDisplayMathModeEnv',
                'TexMathModeEnv', 'TexDisplayMathEnv', 'TexMathEnv', 'BraceGroup', 'BracketGroup']
BUILTINS = ['next', 'range', 'isinstance', 'str', 'EOFError', 'TypeError']
# names whose module-level meaning the translation relies on: no function may
# bind them locally and the module must bind them as checked in check_module
RESERVED = (set(IMPORTS) | set(DATA_CLASSES) | set(BUILTINS) | set(FUNCTIONS) | set(MODES)
            | set(GLOBAL_DICTS) | {'make_read_peek', 'MATH_SIMPLE_ENVS', 'functools'})

MAKE_READ_PEEK = '''
def make_read_peek(f):
    @functools.wraps(f)
    def wrapper(buf, *args, **kwargs):
        start = buf.position
        ret = f(buf, *args, **kwargs)
        buf.backward(buf.position - start)
        return ret
    return wrapper
'''
TABLES = '''
MATH_TOKEN_TO_ENV = {env.token_begin: env for env in MATH_SIMPLE_ENVS}
ARG_BEGIN_TO_ENV = {arg.token_begin: arg for arg in arg_type}
'''
MATH_SIMPLE_ENVS = ['TexDisplayMathModeEnv', 'TexMathModeEnv', 'TexDisplayMathEnv', 'TexMathEnv']


def where(n):
    return 'line %s' % getattr(n, 'lineno', '?')


def shape(n):
    return ast.dump(n)[:140]


def is_name(n, ident=None):
    return isinstance(n, ast.Name) and (ident is None or n.id == ident)


def is_const(n, typ):
    return isinstance(n, ast.Constant) and type(n.value) is typ


def strip_doc(body):
    if body and isinstance(body[0], ast.Expr) and is_const(body[0].value, str):
        return body[1:]
    return body


def coq_str(s):
    return '[%s]%%N' % '; '.join(str(ord(c)) for c in s) if s else '[]'


def fmt_directives(fmt):
    """the conversions of a %-format string, as a list of 's' / 'd'; None when
    it has anything else (flags, widths, %(name)s, a lone %); '%%' is text"""
    out, i = [], 0
    while i < len(fmt):
        if fmt[i] == '%':
            if i + 1 >= len(fmt):
                return None
            c = fmt[i + 1]
            if c in 'sd':
                out.append(c)
            elif c != '%':
                return None
            i += 2
        else:
            i += 1
    return out


def coq_z(i):
    return '(%d)' % i if i < 0 else '%d' % i


def dump_nodoc(fn):
    """ast.dump of a def with the docstrings (its own and nested defs') removed"""
    fn = ast.parse(ast.unparse(fn)).body[0] if hasattr(ast, 'unparse') else fn
    for n in ast.walk(fn):
        if isinstance(n, ast.FunctionDef):
            n.body = strip_doc(n.body)
    return ast.dump(fn)


# --------------------------------------------------------------------- module

def check_module(tree):
    """Everything outside the function bodies that the translation relies on.
    Returns ({name: FunctionDef}, {MODE_X: str}, signatures [(name, (a, b))])."""
    need(isinstance(tree, ast.Module), 'not a module')
    strip_annotations(tree)
    bound = {}

    def bind(name, how):
        bound.setdefault(name, []).append(how)

    stars, plain = [], []
    for st in tree.body:
        if isinstance(st, ast.ImportFrom):
            need(st.level == 0, 'relative import at %s' % where(st))
            for a in st.names:
                if a.name == '*':
                    stars.append(st.module)
                else:
                    need(a.asname is None, 'import ... as at %s' % where(st))
                    bind(a.name, 'from %s' % st.module)
        elif isinstance(st, ast.Import):
            for a in st.names:
                need(a.asname is None, 'import ... as at %s' % where(st))
                plain.append(a.name)
                bind(a.name.split('.')[0], 'import')
        elif isinstance(st, ast.FunctionDef):
            bind(st.name, 'def')
        elif isinstance(st, ast.Assign):
            for t in st.targets:
                need(is_name(t), 'module-level assignment target at %s: %s' % (where(st), shape(t)))
                bind(t.id, 'assign')
        elif isinstance(st, ast.Expr) and is_const(st.value, str):
            pass                                    # docstring
        else:
            raise TranslationError('unexpected module-level statement at %s: %s' % (where(st), shape(st)))
    # a name the translation gives a meaning to is either imported from where
    # it is expected, or not imported and then not mentioned anywhere (an
    # unused import may be dropped)
    mentioned = {n.id for n in ast.walk(tree) if isinstance(n, ast.Name)}
    for nm, mod in sorted(IMPORTS.items()):
        if nm in bound:
            need(bound[nm] == ['from %s' % mod], 'module-level binding of %s changed: %s' % (nm, bound[nm]))
        else:
            need(nm not in mentioned, '%s is used but not imported' % nm)
    need(stars == STAR_IMPORTS, 'star imports changed: %s' % stars)
    need(len(set(plain)) == len(plain) and set(plain) <= set(PLAIN_IMPORTS),
         'plain imports changed: %s' % plain)
    for nm in PLAIN_IMPORTS:
        need(nm in plain or nm not in mentioned, '%s is used but not imported' % nm)
    for nm in DATA_CLASSES + BUILTINS:
        need(nm not in bound, '%s is rebound at module level' % nm)
    for nm in FUNCTIONS + ['make_read_peek']:
        need(bound.get(nm) == ['def'], 'function %s: binding %s' % (nm, bound.get(nm)))
    for nm in MODES + ['MATH_SIMPLE_ENVS', 'MATH_TOKEN_TO_ENV', 'ARG_BEGIN_TO_ENV', 'SIGNATURES']:
        need(bound.get(nm) == ['assign'], '%s: binding %s' % (nm, bound.get(nm)))
    # other defs: only pure wrappers, which are inlined (see wrapper_of)
    extra = sorted(k for k, v in bound.items() if 'def' in v and k not in FUNCTIONS + ['make_read_peek'])
    for nm in extra:
        need(bound[nm] == ['def'] and nm not in RESERVED and nm not in GLOBAL_TUPLES,
             'new function %s: binding %s' % (nm, bound[nm]))
    for n in ast.walk(tree):
        need(not isinstance(n, (ast.Global, ast.Nonlocal, ast.Delete, ast.ClassDef, ast.AsyncFunctionDef,
                                ast.Lambda, ast.Try, ast.With, ast.Await, ast.YieldFrom,
                                ast.ListComp, ast.SetComp, ast.GeneratorExp, ast.NamedExpr)),
             'unsupported construct at %s: %s' % (where(n), type(n).__name__))
    # ---- data.py defines the classes that come through the star import
    with open(os.path.join(REPO, 'TexSoup', 'data.py')) as f:
        dtree = ast.parse(f.read())
    dclasses = [st.name for st in dtree.body if isinstance(st, ast.ClassDef)]
    for nm in DATA_CLASSES:
        need(dclasses.count(nm) == 1, 'TexSoup/data.py does not define class %s exactly once' % nm)
    # what `from TexSoup.data import *` binds is data.__all__: the classes we
    # use and nothing that the translation gives another meaning to (the star
    # import comes after `from TexSoup.utils import ...` and could shadow it,
    # or a builtin)
    dall = [st for st in dtree.body if isinstance(st, ast.Assign)
            and any(is_name(t, '__all__') for t in st.targets)]
    need(len(dall) == 1 and len(dall[0].targets) == 1 and isinstance(dall[0].value, (ast.List, ast.Tuple))
         and all(is_const(e, str) for e in dall[0].value.elts), 'TexSoup/data.py: __all__ is not a literal list')
    for n in ast.walk(dtree):
        if isinstance(n, ast.Name) and n.id == '__all__':
            need(isinstance(n.ctx, ast.Store) and n is dall[0].targets[0], 'TexSoup/data.py: __all__ is used')
        need(not (isinstance(n, ast.Attribute) and n.attr == '__all__'), 'TexSoup/data.py: __all__ is used')
    exported = [e.value for e in dall[0].value.elts]
    for nm in DATA_CLASSES:
        need(nm in exported, 'TexSoup.data does not export %s' % nm)
    for nm in exported:
        need(nm in DATA_CLASSES or (nm not in RESERVED and nm not in GLOBAL_TUPLES),
             'TexSoup.data exports %s, which reader.py uses with another meaning' % nm)
    imports = [st for st in tree.body if isinstance(st, (ast.Import, ast.ImportFrom))]
    first_def = min(i for i, st in enumerate(tree.body) if isinstance(st, (ast.FunctionDef, ast.Assign)))
    need(all(tree.body.index(st) < first_def for st in imports), 'an import follows a definition')
    # ---- module-level tables
    assigns = {}
    for st in tree.body:
        if isinstance(st, ast.Assign):
            need(len(st.targets) == 1, 'chained module-level assignment at %s' % where(st))
            assigns[st.targets[0].id] = st
    ref = {st.targets[0].id: st for st in ast.parse(TABLES).body}
    for nm in ('MATH_TOKEN_TO_ENV', 'ARG_BEGIN_TO_ENV'):
        need(ast.dump(assigns[nm].value) == ast.dump(ref[nm].value), 'definition of %s changed' % nm)
    v = assigns['MATH_SIMPLE_ENVS'].value
    need(isinstance(v, ast.Tuple) and [e.id if is_name(e) else None for e in v.elts] == MATH_SIMPLE_ENVS,
         'MATH_SIMPLE_ENVS changed')
    modes = {}
    for nm in MODES:
        need(is_const(assigns[nm].value, str), '%s is not a string constant' % nm)
        modes[nm] = assigns[nm].value.value
    need(len(set(modes.values())) == len(modes), 'two MODE_ constants are equal')
    v = assigns['SIGNATURES'].value
    need(isinstance(v, ast.Dict), 'SIGNATURES is not a dict literal')
    sigs, seen = [], set()
    for k, val in zip(v.keys, v.values):
        need(k is not None and is_const(k, str), 'SIGNATURES key %s' % (shape(k) if k else '**'))
        need(k.value not in seen, 'SIGNATURES: repeated key %s' % k.value)
        seen.add(k.value)
        need(isinstance(val, ast.Tuple) and len(val.elts) == 2 and all(int_const(e) is not None for e in val.elts),
             'SIGNATURES value for %s' % k.value)
        sigs.append((k.value, (int_const(val.elts[0]), int_const(val.elts[1]))))
    # other module-level variables: literal constants (a tuple of strings, a
    # dict from strings to tuples of ints), which are inlined where they are used
    others = sorted(k for k in assigns if k not in MODES + ['MATH_SIMPLE_ENVS', 'MATH_TOKEN_TO_ENV',
                                                             'ARG_BEGIN_TO_ENV', 'SIGNATURES', '__all__'])
    consts = {}
    for k in others:
        need(bound.get(k) == ['assign'] and k not in RESERVED and k not in GLOBAL_TUPLES,
             'new module-level variable %s: binding %s' % (k, bound.get(k)))
        consts[k] = literal_constant(k, assigns[k].value)
    if '__all__' in assigns:
        v = assigns['__all__'].value
        need(isinstance(v, (ast.List, ast.Tuple)) and all(is_const(e, str) for e in v.elts),
             '__all__ is not a literal list')
    # ---- functions
    fns = {st.name: st for st in tree.body if isinstance(st, ast.FunctionDef)}
    for nm, fn in fns.items():
        need(not fn.decorator_list, '%s: decorator' % nm)
    helpers = {nm: wrapper_of(fns[nm]) for nm in extra}
    refp = ast.parse(MAKE_READ_PEEK).body[0]
    need(dump_nodoc(fns['make_read_peek']) == dump_nodoc(refp), 'the make_read_peek wrapper changed')
    # make_read_peek / functools are used nowhere else
    for nm, fn in fns.items():
        if nm == 'make_read_peek':
            continue
        for n in ast.walk(fn):
            need(not is_name(n, 'functools'), '%s uses functools' % nm)
    return fns, modes, sigs, consts, helpers


def literal_constant(name, v):
    """a module-level literal -> ('tuple', [str]) or ('dict', [(str, (int, ...))])"""
    if isinstance(v, ast.Tuple) and v.elts and all(is_const(e, str) for e in v.elts):
        return ('tuple', [e.value for e in v.elts])
    if isinstance(v, ast.Dict) and v.keys:
        out, seen = [], set()
        for k, val in zip(v.keys, v.values):
            need(k is not None and is_const(k, str) and k.value not in seen,
                 'module-level dict %s: key %s' % (name, shape(k) if k is not None else '**'))
            seen.add(k.value)
            need(isinstance(val, ast.Tuple) and val.elts and all(int_const(e) is not None for e in val.elts),
                 'module-level dict %s: value for %s' % (name, k.value))
            out.append((k.value, tuple(int_const(e) for e in val.elts)))
        return ('dict', out)
    raise TranslationError('new module-level variable %s is not a literal tuple of strings or a '
                           'literal dict from strings to tuples of ints: %s' % (name, shape(v)))


def int_const(n):
    if is_const(n, int):
        return n.value
    if isinstance(n, ast.UnaryOp) and isinstance(n.op, ast.USub) and is_const(n.operand, int):
        return -n.operand.value
    return None


# ----------------------------------------------------------------- normal form
#
# Rewrites of the abstract syntax that do not change what Python computes.
# Each is justified where it is defined; all are syntactic and fail closed (a
# shape that does not meet the stated condition is left as it is, or rejected).

SAFE_ANNOTATION_NAMES = {'str', 'int', 'bool', 'float', 'bytes', 'object', 'list', 'tuple', 'dict', 'set',
                         'frozenset', 'type', 'None', 'Ellipsis'}


def check_annotation(a, typing_names, module_names, what):
    """An annotation is evaluated when the def is executed (its value is only
    stored in __annotations__): accept expressions whose evaluation cannot fail
    or have an effect -- names bound by the imports / builtin types, typing
    constructs subscripted, constants."""
    if isinstance(a, ast.Constant):
        return
    if isinstance(a, ast.Name):
        need(a.id in typing_names or a.id in module_names or a.id in SAFE_ANNOTATION_NAMES,
             '%s: annotation uses the unknown name %s' % (what, a.id))
        return
    if isinstance(a, ast.Subscript):
        base = a.value
        need(isinstance(base, ast.Name) and (base.id in typing_names
                                             or base.id in ('list', 'tuple', 'dict', 'set', 'frozenset', 'type')),
             '%s: annotation subscripts %s' % (what, shape(base)))
        idx = a.slice
        if isinstance(idx, getattr(ast, 'Index', ())):
            idx = idx.value
        check_annotation(idx, typing_names, module_names, what)
        return
    if isinstance(a, (ast.Tuple, ast.List)):
        for e in a.elts:
            check_annotation(e, typing_names, module_names, what)
        return
    raise TranslationError('%s: unsupported annotation %s' % (what, shape(a)))


def strip_annotations(tree):
    """Parameter and return annotations are dropped (after check_annotation).
    `x: T = e` inside a function is `x = e` (the annotation of a local is not
    evaluated), `x: T` alone is no statement."""
    typing_names, module_names = set(), set()
    for st in tree.body:
        if isinstance(st, ast.ImportFrom):
            for a in st.names:
                if a.name != '*' and a.asname is None:
                    (typing_names if st.module == 'typing' else module_names).add(a.name)
    need(not (typing_names & (RESERVED | set(GLOBAL_TUPLES))), 'a typing import shadows a name in use')
    for fn in ast.walk(tree):
        if not isinstance(fn, ast.FunctionDef):
            continue
        a = fn.args
        for p in a.args + a.kwonlyargs + getattr(a, 'posonlyargs', []) + [x for x in (a.vararg, a.kwarg) if x]:
            if p.annotation is not None:
                check_annotation(p.annotation, typing_names, module_names, fn.name)
                p.annotation = None
        if fn.returns is not None:
            check_annotation(fn.returns, typing_names, module_names, fn.name)
            fn.returns = None

        class Ann(ast.NodeTransformer):
            def visit_AnnAssign(self, n):
                # (a bare `x: T` would make x a local name without binding it)
                need(isinstance(n.target, ast.Name) and n.simple == 1 and n.value is not None,
                     '%s: annotated target' % fn.name)
                return ast.copy_location(ast.Assign(targets=[n.target], value=n.value), n)
        for i, st in enumerate(list(fn.body)):
            fn.body[i] = Ann().visit(st)
        fn.body = [st for st in fn.body if st is not None] or [ast.Pass()]
    # the names imported from typing are used in annotations only
    for n in ast.walk(tree):
        need(not (isinstance(n, ast.Name) and n.id in typing_names),
             'the typing name %s is used outside an annotation' % getattr(n, 'id', ''))


def wrapper_of(fn):
    """A module-level def other than the reader functions is accepted when it
    is a pure wrapper:   def h(p1, .., pk[, **kw]): return F(a1, .., an[, **kw])
    where every argument ai is a parameter (each used exactly once, in the order
    of the parameter list) or a constant, and F does not mention a parameter.
    A call h(e1, .., ek, x=.., y=..) is replaced by F(.. ei for pi .., x=.., y=..):
    the ei and the keyword values are evaluated in the same order as before,
    F and the constants have no effect."""
    a = fn.args
    need(not a.vararg and not a.kwonlyargs and not a.defaults and not a.kw_defaults
         and not getattr(a, 'posonlyargs', []), '%s: unsupported parameter kinds of a helper' % fn.name)
    params = [p.arg for p in a.args]
    kw = a.kwarg.arg if a.kwarg else None
    for nm in params + ([kw] if kw else []):
        need(nm not in RESERVED and nm not in GLOBAL_TUPLES, '%s: parameter %s shadows a module-level name' % (fn.name, nm))
    body = strip_doc(fn.body)
    need(len(body) == 1 and isinstance(body[0], ast.Return) and isinstance(body[0].value, ast.Call),
         'new function %s is not a pure wrapper (def h(..): return F(..))' % fn.name)
    call = body[0].value
    for n in ast.walk(call.func):
        need(not (isinstance(n, ast.Name) and n.id in params + [kw]),
             '%s: the wrapped function depends on a parameter' % fn.name)
        need(not isinstance(n, (ast.Lambda, ast.Yield, ast.Await)), '%s: unsupported wrapper' % fn.name)

    def trivial(e):
        return isinstance(e, ast.Constant) or (isinstance(e, ast.Name) and e.id in MODES) \
            or int_const(e) is not None or (isinstance(e, ast.Tuple) and not e.elts)
    used = []
    for e in call.args:
        need(not isinstance(e, ast.Starred), '%s: star argument in a wrapper' % fn.name)
        if isinstance(e, ast.Name) and e.id in params:
            used.append(e.id)
        else:
            need(trivial(e), '%s: wrapper argument is neither a parameter nor a constant' % fn.name)
    seen_kw = False
    for k in call.keywords:
        if k.arg is None:
            need(isinstance(k.value, ast.Name) and k.value.id == kw and not seen_kw,
                 '%s: unsupported ** argument in a wrapper' % fn.name)
            seen_kw = True
        else:
            need(not seen_kw, '%s: keyword after ** in a wrapper' % fn.name)
            if isinstance(k.value, ast.Name) and k.value.id in params:
                used.append(k.value.id)
            else:
                need(trivial(k.value), '%s: wrapper argument is neither a parameter nor a constant' % fn.name)
    need(used == params, '%s: the wrapper does not pass on its parameters once each, in order' % fn.name)
    need((kw is None) == (not seen_kw), '%s: ** parameter not passed on' % fn.name)
    return {'params': params, 'kw': kw, 'call': call, 'name': fn.name}


def inline_wrappers(fn, helpers):
    import copy
    if not helpers:
        return

    class Inl(ast.NodeTransformer):
        def visit_Call(self, n):
            self.generic_visit(n)
            if isinstance(n.func, ast.Name) and n.func.id in helpers:
                h = helpers[n.func.id]
                need(len(n.args) == len(h['params']) and not any(isinstance(a, ast.Starred) for a in n.args),
                     '%s: call of the helper %s: positional arguments' % (fn.name, h['name']))
                need(all(k.arg is not None for k in n.keywords) and (h['kw'] is not None or not n.keywords),
                     '%s: call of the helper %s: keywords' % (fn.name, h['name']))
                sub = dict(zip(h['params'], n.args))
                c = copy.deepcopy(h['call'])
                c.args = [sub[a.id] if isinstance(a, ast.Name) and a.id in sub else a for a in c.args]
                kws = []
                for k in c.keywords:
                    if k.arg is None:
                        kws.extend(n.keywords)
                    elif isinstance(k.value, ast.Name) and k.value.id in sub:
                        kws.append(ast.keyword(arg=k.arg, value=sub[k.value.id]))
                    else:
                        kws.append(k)
                names = [k.arg for k in kws]
                need(len(set(names)) == len(names), '%s: call of the helper %s: keyword given twice'
                     % (fn.name, h['name']))
                c.keywords = kws
                return ast.copy_location(c, n)
            return n
    fn.body = [Inl().visit(st) for st in fn.body]
    for n in ast.walk(fn):
        need(not (isinstance(n, ast.Name) and n.id in helpers), '%s: the helper %s is used other than by a call'
             % (fn.name, getattr(n, 'id', '')))


STABLE_ATTRS = ('category', 'position', 'text', 'string', 'name', 'end', 'token_end')


def stable_pure(e, buf):
    """an expression without calls, subscripts or the buffer: constants, names,
    attribute reads, and/or/not/comparisons/conditional expressions,
    'fmt' % operands.  Its evaluation has no effect and raises none of the
    exceptions the model distinguishes."""
    if isinstance(e, ast.Constant):
        return True
    if isinstance(e, ast.Name):
        return e.id != buf
    if isinstance(e, ast.Attribute):
        return e.attr in STABLE_ATTRS and stable_pure(e.value, buf)
    if isinstance(e, ast.Tuple):
        return all(stable_pure(x, buf) for x in e.elts)
    if isinstance(e, ast.BoolOp):
        return all(stable_pure(x, buf) for x in e.values)
    if isinstance(e, ast.UnaryOp) and isinstance(e.op, ast.Not):
        return stable_pure(e.operand, buf)
    if isinstance(e, ast.IfExp):
        return all(stable_pure(x, buf) for x in (e.test, e.body, e.orelse))
    if isinstance(e, ast.Compare):
        return all(isinstance(o, (ast.Eq, ast.NotEq)) for o in e.ops) \
            and all(stable_pure(x, buf) for x in [e.left] + e.comparators)
    if isinstance(e, ast.BinOp) and isinstance(e.op, ast.Mod) and is_const(e.left, str):
        return stable_pure(e.right, buf)
    return False


def mutates(node, names):
    """may executing `node` re-bind one of `names` or change the object it
    holds: a store, `x.append(..)`, or x as a bare argument of a call"""
    for n in ast.walk(node):
        if isinstance(n, ast.Name) and n.id in names and not isinstance(n.ctx, ast.Load):
            return True
        if isinstance(n, ast.Call):
            if isinstance(n.func, ast.Attribute) and isinstance(n.func.value, ast.Name) \
                    and n.func.value.id in names and n.func.attr not in ('startswith', 'strip', 'rstrip', 'get', 'keys'):
                return True
            for a in list(n.args) + [k.value for k in n.keywords]:
                if isinstance(a, ast.Starred):
                    a = a.value
                if isinstance(a, ast.Name) and a.id in names:
                    return True
        if isinstance(n, ast.FunctionDef) and n.name in names:
            return True
    return False


def first_evaluated(expr, x):
    """x occurs in expr, and on the way to its first occurrence (evaluation
    order = left to right, operands before the operation) nothing is skipped
    (and/or/conditional expression) and no call has been completed"""
    state = {'found': False, 'ok': True}

    def walk(e, guarded):
        if state['found'] or not state['ok']:
            return
        if isinstance(e, ast.Name):
            if e.id == x:
                state['found'] = True
                state['ok'] = not guarded
            return
        if isinstance(e, ast.BoolOp):
            walk(e.values[0], guarded)
            for v in e.values[1:]:
                walk(v, True)
            return
        if isinstance(e, ast.IfExp):
            walk(e.test, guarded)
            walk(e.body, True)
            walk(e.orelse, True)
            return
        if isinstance(e, (ast.Lambda, ast.ListComp, ast.SetComp, ast.DictComp, ast.GeneratorExp)):
            state['ok'] = state['ok'] and not any(isinstance(n, ast.Name) and n.id == x for n in ast.walk(e))
            return
        for c in ast.iter_child_nodes(e):
            walk(c, guarded)
            if state['found'] or not state['ok']:
                return
        if isinstance(e, ast.Call):
            state['ok'] = False       # a call completed before x was reached
    walk(expr, False)
    return state['found'] and state['ok']


def head_expr(st):
    """the expression a statement evaluates first, unconditionally"""
    if isinstance(st, (ast.Assign, ast.AugAssign, ast.Return)) and st.value is not None:
        return st.value
    if isinstance(st, ast.Expr):
        return st.value
    if isinstance(st, (ast.If, ast.While, ast.Assert)):
        return st.test
    return None


def inline_temps(fn, buf):
    """Named temporaries.  A statement `x = E` at the top level of the function
    is removed and x replaced by E when
      * x is bound nowhere else and is not a parameter, every use comes later;
      * E is stable_pure (no effect, none of the modelled exceptions);
      * from the definition to the statement with the last use, nothing can
        re-bind a name of E or change the object it holds (mutates), so E has
        the same value at every use;
      * the first use is in the first statement after the definition (nested
        defs aside), evaluated unconditionally and before any call completes:
        if E fails (AttributeError: outside the model either way) it fails
        before anything observable happened, as it did at the definition.
    Uses inside a nested predicate `def g(s): return s.startswith(P)` count as
    uses at the calls of g and of forward_until(g, ..)."""
    import copy
    changed = True
    while changed:
        changed = False
        body = fn.body
        params = {p.arg for p in fn.args.args}
        for p, st in enumerate(body):
            if not (isinstance(st, ast.Assign) and len(st.targets) == 1 and isinstance(st.targets[0], ast.Name)):
                continue
            x, E = st.targets[0].id, st.value
            if x in params or x == buf or not stable_pure(E, buf):
                continue
            stores = [n for n in ast.walk(fn) if isinstance(n, ast.Name) and n.id == x
                      and not isinstance(n.ctx, ast.Load)]
            if len(stores) != 1 or any(isinstance(n, ast.FunctionDef) and n.name == x for n in ast.walk(fn)):
                continue
            fv = {n.id for n in ast.walk(E) if isinstance(n, ast.Name)}
            if x in fv:
                continue
            # nested predicates that mention x: their names stand for x
            preds = set()
            for d in body:
                if isinstance(d, ast.FunctionDef) and any(isinstance(n, ast.Name) and n.id == x for n in ast.walk(d)):
                    preds.add(d.name)
                    if {a.arg for a in d.args.args} & (fv | {x}):
                        preds = None
                        break
            if preds is None:
                continue
            stands = {x} | preds

            def uses(node):
                return any(isinstance(n, ast.Name) and n.id in stands and isinstance(n.ctx, ast.Load)
                           for n in ast.walk(node))
            if any(uses(b) for b in body[:p] if not isinstance(b, ast.FunctionDef)) \
                    or any(isinstance(b, ast.FunctionDef) and b.name in preds for b in body[:p]):
                continue
            later = [b for b in body[p + 1:] if not isinstance(b, ast.FunctionDef)]
            using = [i for i, b in enumerate(later) if uses(b)]
            if not using or using[0] != 0:
                continue
            h = head_expr(later[0])
            name_first = None
            if h is not None:
                for cand in sorted(stands):
                    if first_evaluated(h, cand):
                        # the earliest among the names standing for x must come first
                        name_first = cand
                        break
            if name_first is None:
                continue
            last = using[-1]
            region = later[:last]
            tail = later[last]
            inner = [c for f in ('body', 'orelse') for c in getattr(tail, f, [])]
            if isinstance(tail, ast.If) and not any(uses(c) for c in inner):
                region_nodes = region + [tail.test]
            else:
                region_nodes = region + [tail]
            if any(mutates(r, fv | {x}) for r in region_nodes):
                continue

            class Sub(ast.NodeTransformer):
                def visit_Name(self, n):
                    if n.id == x and isinstance(n.ctx, ast.Load):
                        return ast.copy_location(copy.deepcopy(E), n)
                    return n
            fn.body = body[:p] + [Sub().visit(b) for b in body[p + 1:]]
            changed = True
            break


TERMINATORS = (ast.Return, ast.Raise, ast.Break, ast.Continue)


def may_exit(stmts):
    """some path through stmts leaves by return/raise/break/continue"""
    for s in stmts:
        if isinstance(s, TERMINATORS):
            return True
        if isinstance(s, ast.If) and (may_exit(s.body) or may_exit(s.orelse)):
            return True
        if isinstance(s, (ast.While, ast.For)):
            for n in ast.walk(s):
                if isinstance(n, (ast.Return, ast.Raise)):
                    return True
    return False


def count_stmts(stmts):
    n = 0
    for s in stmts:
        n += 1
        for f in ('body', 'orelse'):
            if not isinstance(s, ast.FunctionDef):
                n += count_stmts(getattr(s, f, []))
    return n


# `a != b` is `not a == b` for the values the model compares (ReadDSL.bin_op:
# ONe is the negation of OEq, ONotIn of OIn), `is not` of `is`
NEGATED = {ast.NotEq: ast.Eq, ast.NotIn: ast.In, ast.IsNot: ast.Is}


def merge_tails(s):
    """`if c: A; S else: B; S`  =  `if c: A else: B` followed by S, for the
    longest common suffix S such that neither A nor B can leave early (then
    both branches reach S, and S runs in the same state either way)."""
    a, b = s.body, s.orelse
    k = 0
    while k < len(a) and k < len(b) and ast.dump(a[len(a) - 1 - k]) == ast.dump(b[len(b) - 1 - k]):
        k += 1
    while k > 0 and (may_exit(a[:len(a) - k]) or may_exit(b[:len(b) - k])):
        k -= 1
    if k == 0:
        return [s]
    tail = a[len(a) - k:]
    s.body, s.orelse = a[:len(a) - k], b[:len(b) - k]
    if not s.body and not s.orelse:
        # `if c: pass else: pass`: the test is still evaluated
        return [ast.copy_location(ast.Expr(value=s.test), s)] + tail
    return [s] + tail


def nf_block(stmts, loop_tail, budget):
    """Control-flow normal form of a statement list.
      * `if not c: A else: B`  =  `if c: B else: A`   (`not c` is bool(c) negated)
      * `if c: A else: B` followed by R, where A or B can leave early (return,
        raise, break, continue):  `if c: A; R else: B; R`  -- the same statements
        are executed on every path; R after an exit is unreachable and dropped
      * `if a != b: A else: B`  =  `if a == b: B else: A`, likewise `not in`, `is not`
      * a common suffix of both branches that both reach is moved behind the `if`
      * statements after return/raise/break/continue are dropped (unreachable)
      * `continue` as the last statement of a loop body is dropped
    loop_tail: the end of this list is the end of a loop body."""
    import copy
    out = []
    for i, s in enumerate(stmts):
        rest = stmts[i + 1:]
        if isinstance(s, ast.If):
            test, a, b = s.test, list(s.body), list(s.orelse)
            while True:
                if isinstance(test, ast.UnaryOp) and isinstance(test.op, ast.Not):
                    test, a, b = test.operand, b, a
                elif isinstance(test, ast.Compare) and len(test.ops) == 1 and type(test.ops[0]) in NEGATED:
                    test = ast.copy_location(ast.Compare(left=test.left, ops=[NEGATED[type(test.ops[0])]()],
                                                         comparators=test.comparators), test)
                    a, b = b, a
                else:
                    break
            a = [x for x in a if not isinstance(x, ast.Pass)]
            b = [x for x in b if not isinstance(x, ast.Pass)]
            if rest and (may_exit(a) or may_exit(b)):
                budget[0] -= count_stmts(rest)
                need(budget[0] > 0, 'normal form: too much code duplication')
                na = nf_block(a + copy.deepcopy(rest), loop_tail, budget)
                nb = nf_block(b + copy.deepcopy(rest), loop_tail, budget)
                out.extend(merge_tails(ast.copy_location(ast.If(test=test, body=na, orelse=nb), s)))
                return out
            last = not rest
            na = nf_block(a, loop_tail and last, budget)
            nb = nf_block(b, loop_tail and last, budget)
            out.extend(merge_tails(ast.copy_location(ast.If(test=test, body=na, orelse=nb), s)))
        elif isinstance(s, ast.While):
            need(not s.orelse, 'while-else')
            out.append(ast.copy_location(ast.While(test=s.test, body=nf_block(list(s.body), True, budget),
                                                   orelse=[]), s))
        elif isinstance(s, ast.For):
            need(not s.orelse, 'for-else')
            out.append(ast.copy_location(ast.For(target=s.target, iter=s.iter,
                                                 body=nf_block(list(s.body), True, budget), orelse=[]), s))
        elif isinstance(s, ast.Continue) and loop_tail:
            return out
        elif isinstance(s, TERMINATORS):
            out.append(s)
            return out
        elif isinstance(s, ast.Pass):
            continue
        else:
            out.append(s)
    return out


def normalise(fn, helpers):
    """the normal form of one reader function (a new FunctionDef)"""
    import copy
    fn = copy.deepcopy(fn)
    fn.body = strip_doc(fn.body)
    need(fn.body, '%s: empty body' % fn.name)
    need(fn.args.args, '%s: no buffer parameter' % fn.name)
    inline_wrappers(fn, helpers)
    for n in ast.walk(fn):
        need(not (isinstance(n, ast.Name) and n.id in helpers), '%s: the helper %s is re-bound or passed on'
             % (fn.name, getattr(n, 'id', '')))
        need(not (isinstance(n, ast.arg) and n.arg in helpers), '%s: a parameter shadows the helper %s'
             % (fn.name, getattr(n, 'arg', '')))
    inline_temps(fn, fn.args.args[0].arg)

    def scope(f):
        """what makes a name local / the function a generator: independent of reachability"""
        return (sorted({n.id for n in ast.walk(f) if isinstance(n, ast.Name) and not isinstance(n.ctx, ast.Load)}
                       | {n.name for n in ast.walk(f) if isinstance(n, ast.FunctionDef) and n is not f}),
                any(isinstance(n, (ast.Yield, ast.YieldFrom)) for n in ast.walk(f)))
    before = scope(fn)
    budget = [4 * count_stmts(fn.body) + 40]
    fn.body = nf_block(fn.body, False, budget)
    need(fn.body, '%s: empty body' % fn.name)
    # dropping unreachable statements must not change which names are local or
    # whether the function is a generator
    need(scope(fn) == before, '%s: unreachable code binds a name or yields' % fn.name)
    ast.fix_missing_locations(fn)
    return fn


# ------------------------------------------------------------------ signatures

class Sig(object):
    """Parameters of one reader function: the buffer first, then named
    parameters with constant defaults."""

    def __init__(self, fn, modes):
        a = fn.args
        need(not a.vararg and not a.kwonlyargs and not a.kwarg and not getattr(a, 'posonlyargs', [])
             and not a.kw_defaults, '%s: unsupported parameter kinds' % fn.name)
        for p in a.args:
            need(p.annotation is None, '%s: annotated parameter' % fn.name)
        names = [p.arg for p in a.args]
        need(len(names) >= 1, '%s: no buffer parameter' % fn.name)
        need(len(set(names)) == len(names), '%s: repeated parameter' % fn.name)
        self.buf = names[0]
        self.params = names[1:]
        nd = len(a.defaults)
        need(nd <= len(self.params), '%s: the buffer parameter has a default' % fn.name)
        self.defaults = [None] * (len(self.params) - nd)
        for d in a.defaults:
            self.defaults.append(const_value(d, modes, '%s: default' % fn.name))
        # the defaults as DSL expressions (evaluated once, when the def is
        # executed: constants and the immutable tuples imported from tokens.py)
        self.default_exps = [None if d is None else (d if d.startswith('XGlobal') else 'XConst (%s)' % d)
                             for d in self.defaults]


def const_value(n, modes, what):
    """a constant default -> Coq term of type value"""
    i = int_const(n)
    if i is not None:
        return 'VInt %s' % coq_z(i)
    if isinstance(n, ast.Constant) and n.value is None:
        return 'VNone'
    if isinstance(n, ast.Tuple) and not n.elts:
        return 'VTuple []'
    if is_name(n) and n.id in modes:
        return 'VStr gen_%s' % n.id
    if is_name(n) and n.id in GLOBAL_TUPLES:
        return 'XGlobal %s' % GLOBAL_TUPLES[n.id]
    raise TranslationError('%s is not a supported constant: %s' % (what, shape(n)))


# ------------------------------------------------------------------- functions

class Fun(object):
    def __init__(self, fn, sigs, modes, consts):
        self.fn = fn
        self.name = fn.name
        self.sigs = sigs
        self.sig = sigs[fn.name]
        self.modes = modes
        self.consts = consts     # module-level literal constants, inlined
        self.buf = self.sig.buf
        self.locals = list(self.sig.params)
        self.closures = {}       # name -> ast of E in `def name(s): return s.startswith(E)`
        self.is_gen = False
        self.assigned = set()    # locals that are (re)bound by a statement
        self.body = strip_doc(fn.body)
        need(self.body, '%s: empty body' % self.name)
        self.collect(self.body)
        for nm in self.locals + [self.buf] + list(self.closures):
            need(nm not in RESERVED and nm not in GLOBAL_TUPLES and nm not in consts,
                 '%s: local name %s shadows a module-level name' % (self.name, nm))
        need(self.buf not in self.assigned, '%s: the buffer parameter is re-bound' % self.name)

    def err(self, n, what):
        raise TranslationError('%s, %s: %s: %s' % (self.name, where(n), what, shape(n)))

    # ---- locals, in order of first binding
    def bind(self, t):
        if isinstance(t, ast.Name):
            need(t.id != self.buf, '%s: the buffer parameter is re-bound' % self.name)
            if t.id not in self.locals:
                self.locals.append(t.id)
            self.assigned.add(t.id)
        elif isinstance(t, ast.Tuple):
            for e in t.elts:
                need(isinstance(e, ast.Name), '%s: nested assignment target' % self.name)
                self.bind(e)
        else:
            self.err(t, 'unsupported assignment target')

    def collect(self, body):
        for s in body:
            if isinstance(s, ast.Assign):
                need(len(s.targets) == 1, '%s: chained assignment' % self.name)
                self.bind(s.targets[0])
            elif isinstance(s, ast.AugAssign):
                need(isinstance(s.target, ast.Name), '%s: augmented assignment target' % self.name)
                self.bind(s.target)
            elif isinstance(s, ast.For):
                need(isinstance(s.target, ast.Name), '%s: for target' % self.name)
                self.bind(s.target)
                self.collect(s.body)
                need(not s.orelse, '%s: for-else' % self.name)
            elif isinstance(s, ast.While):
                self.collect(s.body)
                need(not s.orelse, '%s: while-else' % self.name)
            elif isinstance(s, ast.If):
                self.collect(s.body)
                self.collect(s.orelse)
            elif isinstance(s, ast.FunctionDef):
                self.closure(s)
        for n in ast.walk(ast.Module(body=body, type_ignores=[])):
            if isinstance(n, ast.Yield):
                self.is_gen = True

    def closure(self, d):
        """def name(s): return s.startswith(E)"""
        a = d.args
        ok = (len(a.args) == 1 and not a.vararg and not a.kwonlyargs and not a.kwarg and not a.defaults
              and not getattr(a, 'posonlyargs', []) and not d.decorator_list and d.returns is None)
        body = strip_doc(d.body)
        ok = ok and len(body) == 1 and isinstance(body[0], ast.Return)
        call = body[0].value if ok else None
        ok = ok and isinstance(call, ast.Call) and isinstance(call.func, ast.Attribute) \
            and call.func.attr == 'startswith' and is_name(call.func.value, a.args[0].arg) \
            and len(call.args) == 1 and not call.keywords
        if not ok:
            self.err(d, 'unsupported nested def')
        s = a.args[0].arg
        for n in ast.walk(call.args[0]):
            need(not is_name(n, s), '%s: closure argument used in its own pattern' % self.name)
        need(d.name not in self.closures and d.name not in self.locals,
             '%s: nested def %s re-binds a name' % (self.name, d.name))
        self.closures[d.name] = call.args[0]

    def var(self, nm):
        return self.locals.index(nm)

    def is_local(self, n):
        return isinstance(n, ast.Name) and n.id in self.locals

    def is_buf(self, n):
        return is_name(n, self.buf)

    def lit_dict(self, n):
        """the Coq term (list (str * value)) of a module-level literal dict, else None"""
        if is_name(n) and n.id in self.consts and n.id not in self.locals and self.consts[n.id][0] == 'dict':
            return '[%s]' % '; '.join('(%s, VTuple [%s])' % (coq_str(k), '; '.join('VInt %s' % coq_z(i) for i in v))
                                      for k, v in self.consts[n.id][1])
        return None

    # ---- buffer methods
    def buf_call(self, n):
        """src.<meth>(...) -> (meth, Call) else None"""
        if isinstance(n, ast.Call) and isinstance(n.func, ast.Attribute) and self.is_buf(n.func.value):
            return n.func.attr
        return None

    def nat(self, n, what):
        i = int_const(n)
        if i is None or i < 0:
            self.err(n, '%s must be a literal >= 0' % what)
        return i

    def buffer_method(self, n):
        m = n.func.attr
        args, kws = n.args, n.keywords
        if m == 'hasNext' and not args and not kws:
            return 'XHasNext'
        if m == 'peek' and not kws:
            if not args:
                return 'XPeek 0'
            if len(args) == 1 and isinstance(args[0], ast.Tuple) and len(args[0].elts) == 2:
                lo, hi = self.nat(args[0].elts[0], 'peek range'), self.nat(args[0].elts[1], 'peek range')
                need(lo <= hi, '%s: peek range' % self.name)
                return 'XPeekRange %d %d' % (lo, hi)
            if len(args) == 1:
                return 'XPeek %d' % self.nat(args[0], 'peek offset')
        if m == 'startswith' and len(args) == 1 and not kws:
            return 'XStartsWith (%s)' % self.ex(args[0])
        if m == 'forward' and not kws and len(args) <= 1:
            return 'XForward (%s)' % (self.ex(args[0]) if args else 'XConst (VInt 1)')
        if m == 'backward' and not kws and len(args) <= 1:
            return 'XBackward (%s)' % (self.ex(args[0]) if args else 'XConst (VInt 1)')
        if m == 'forward_until' and len(args) == 1 and is_name(args[0]) and args[0].id in self.closures \
                and len(kws) == 1 and kws[0].arg == 'peek' and is_const(kws[0].value, bool) \
                and kws[0].value.value is False:
            return 'XForwardUntilStartsWith (%s)' % self.ex(self.closures[args[0].id])
        self.err(n, 'unsupported buffer method')

    # ---- calls of reader functions
    def resolve(self, n, callee, what):
        """arguments of a call of reader function `callee` (after the buffer) ->
        list of Coq exp terms in parameter order"""
        sig = self.sigs[callee]
        need(n.args and self.is_buf(n.args[0]), '%s: %s: first argument is not the buffer' % (self.name, what))
        for a in n.args:
            need(not isinstance(a, ast.Starred), '%s: %s: star argument' % (self.name, what))
        pos = n.args[1:]
        need(len(pos) <= len(sig.params), '%s: %s: too many arguments' % (self.name, what))
        given = {}
        order = []
        for i, a in enumerate(pos):
            given[i] = a
            order.append(i)
        for k in n.keywords:
            need(k.arg is not None, '%s: %s: ** argument' % (self.name, what))
            need(k.arg in sig.params, '%s: %s: unknown keyword %s' % (self.name, what, k.arg))
            i = sig.params.index(k.arg)
            need(i not in given, '%s: %s: parameter %s given twice' % (self.name, what, k.arg))
            given[i] = k.value
            order.append(i)
        # evaluation order of the arguments = parameter order
        need(order == sorted(order), '%s: %s: keyword arguments are not in parameter order' % (self.name, what))
        out = []
        for i, p in enumerate(sig.params):
            if i in given:
                out.append(self.ex(given[i]))
            else:
                need(sig.defaults[i] is not None, '%s: %s: parameter %s missing' % (self.name, what, p))
                out.append(sig.default_exps[i])
        self.calls.append((n, callee, given))
        return out

    def ctor_args(self, n, what):
        """TexCmd / TexNamedEnv (name, contents=(), args=(), preserve_whitespace=False, position=-1)"""
        params = ['name', 'contents', 'args', 'preserve_whitespace', 'position']
        given, order = {}, []
        for a in n.args:
            need(not isinstance(a, ast.Starred), '%s: %s: star argument' % (self.name, what))
        need(len(n.args) <= 3, '%s: %s: too many positional arguments' % (self.name, what))
        for i, a in enumerate(n.args):
            given[i] = a
            order.append(i)
        for k in n.keywords:
            need(k.arg in ('name', 'contents', 'args', 'position'), '%s: %s: keyword %s' % (self.name, what, k.arg))
            i = params.index(k.arg)
            need(i not in given, '%s: %s: parameter given twice' % (self.name, what))
            given[i] = k.value
            order.append(i)
        need(order == sorted(order), '%s: %s: keyword arguments are not in parameter order' % (self.name, what))
        need(0 in given, '%s: %s: no name' % (self.name, what))
        dflt = {1: 'XConst (VTuple [])', 2: 'XConst (VTuple [])', 4: 'XConst (VInt (-1))'}
        return [self.ex(given[i]) if i in given else dflt[i] for i in (0, 1, 2, 4)]

    # ---- expressions
    def ex(self, n):
        i = int_const(n)
        if i is not None:
            return 'XConst (VInt %s)' % coq_z(i)
        if isinstance(n, ast.Constant):
            if n.value is None:
                return 'XConst VNone'
            if type(n.value) is bool:
                return 'XConst (VBool %s)' % ('true' if n.value else 'false')
            if type(n.value) is str:
                return 'XConst (VStr %s)' % coq_str(n.value)
            self.err(n, 'unsupported constant')
        if isinstance(n, ast.Name):
            need(isinstance(n.ctx, ast.Load), '%s: name in store context' % self.name)
            if n.id in self.locals:
                return 'XVar %d' % self.var(n.id)
            if n.id in self.modes:
                return 'XConst (VStr gen_%s)' % n.id
            if n.id in GLOBAL_TUPLES:
                return 'XGlobal %s' % GLOBAL_TUPLES[n.id]
            if n.id in self.consts and self.consts[n.id][0] == 'tuple':
                return 'XConst (VTuple [%s])' % '; '.join('VStr %s' % coq_str(x) for x in self.consts[n.id][1])
            self.err(n, 'unsupported name')
        if isinstance(n, ast.Tuple):
            return 'XTuple (xl [%s])' % '; '.join(self.ex(e) for e in n.elts)
        if isinstance(n, ast.List):
            return 'XList (xl [%s])' % '; '.join(self.ex(e) for e in n.elts)
        if isinstance(n, ast.Attribute):
            if is_name(n.value, 'TC'):
                need(n.attr in TC_NAMES, '%s: unknown token code TC.%s' % (self.name, n.attr))
                return 'XConst (VCat T%s)' % n.attr
            if self.is_buf(n.value):
                if n.attr == 'position':
                    return 'XPosition'
                self.err(n, 'unsupported buffer attribute')
            if n.attr in ATTRS:
                return 'XAttr (%s) %s' % (self.ex(n.value), ATTRS[n.attr])
            self.err(n, 'unsupported attribute')
        if isinstance(n, ast.Subscript):
            idx = n.slice
            if isinstance(idx, getattr(ast, 'Index', ())):      # python < 3.9
                idx = idx.value
            if is_name(n.value) and n.value.id in GLOBAL_DICTS:
                need(not isinstance(idx, ast.Slice), '%s: slice of a dict' % self.name)
                return 'XDictIndex %s (%s)' % (GLOBAL_DICTS[n.value.id], self.ex(idx))
            if self.lit_dict(n.value) is not None:
                need(not isinstance(idx, ast.Slice), '%s: slice of a dict' % self.name)
                return 'XLitIndex %s (%s)' % (self.lit_dict(n.value), self.ex(idx))
            if isinstance(idx, ast.Slice):
                if idx.upper is None and idx.step is None and idx.lower is not None:
                    return 'XSliceFrom (%s) %d' % (self.ex(n.value), self.nat(idx.lower, 'slice start'))
                self.err(n, 'unsupported slice')
            return 'XIndex (%s) %d' % (self.ex(n.value), self.nat(idx, 'index'))
        if isinstance(n, ast.Compare):
            if len(n.ops) != 1 or len(n.comparators) != 1:
                self.err(n, 'chained comparison')
            op, lhs, rhs = type(n.ops[0]), n.left, n.comparators[0]
            # `x in D.keys()` and `x in D` are the same test
            if op in (ast.In, ast.NotIn) and isinstance(rhs, ast.Call) and isinstance(rhs.func, ast.Attribute) \
                    and rhs.func.attr == 'keys' and not rhs.args and not rhs.keywords \
                    and (is_name(rhs.func.value) and rhs.func.value.id in GLOBAL_DICTS
                         or self.lit_dict(rhs.func.value) is not None):
                rhs = rhs.func.value
            if op in (ast.In, ast.NotIn) and (is_name(rhs) and rhs.id in GLOBAL_DICTS
                                              or self.lit_dict(rhs) is not None):
                if is_name(rhs) and rhs.id in GLOBAL_DICTS:
                    t = 'XInKeys (%s) %s' % (self.ex(lhs), GLOBAL_DICTS[rhs.id])
                else:
                    t = 'XLitIn (%s) %s' % (self.ex(lhs), self.lit_dict(rhs))
                return t if op is ast.In else 'XNot (%s)' % t
            if op in (ast.Is, ast.IsNot) and isinstance(rhs, ast.Constant) and rhs.value is None:
                t = 'XIsNone (%s)' % self.ex(lhs)
                return t if op is ast.Is else 'XNot (%s)' % t
            ops = {ast.Eq: 'OEq', ast.NotEq: 'ONe', ast.Lt: 'OLt', ast.Gt: 'OGt', ast.LtE: 'OLe',
                   ast.GtE: 'OGe', ast.In: 'OIn', ast.NotIn: 'ONotIn'}
            if op not in ops:
                self.err(n, 'unsupported comparison')
            return 'XBin %s (%s) (%s)' % (ops[op], self.ex(lhs), self.ex(rhs))
        if isinstance(n, ast.BoolOp):
            ctor = {ast.And: 'XAnd', ast.Or: 'XOr'}[type(n.op)]
            parts = [self.ex(v) for v in n.values]
            out = parts[-1]
            for p in reversed(parts[:-1]):
                out = '%s (%s) (%s)' % (ctor, p, out)
            return out
        if isinstance(n, ast.UnaryOp):
            if isinstance(n.op, ast.Not):
                return 'XNot (%s)' % self.ex(n.operand)
            self.err(n, 'unsupported unary operator')
        if isinstance(n, ast.IfExp):
            return 'XCond (%s) (%s) (%s)' % (self.ex(n.test), self.ex(n.body), self.ex(n.orelse))
        if isinstance(n, ast.BinOp):
            if isinstance(n.op, ast.Add):
                return 'XBin OAdd (%s) (%s)' % (self.ex(n.left), self.ex(n.right))
            if isinstance(n.op, ast.Sub):
                return 'XBin OSub (%s) (%s)' % (self.ex(n.left), self.ex(n.right))
            if isinstance(n.op, ast.Mod) and is_const(n.left, str):
                fmt = n.left.value
                if isinstance(n.right, ast.Tuple):
                    ops = '; '.join(self.ex(e) for e in n.right.elts)
                    d = fmt_directives(fmt)
                    if d is not None and len(d) == len(n.right.elts):
                        # a formatted exception message: only its operands matter
                        return 'XOpaque (xl [%s])' % ops
                    # the number of conversions is not the number of operands
                    return 'XFormatDyn (%s) (xl [%s])' % (self.ex(n.left), ops)
                need(fmt.count('%') == 1 and fmt.count('%s') == 1,
                     '%s, %s: unsupported format string %r' % (self.name, where(n), fmt))
                pre, post = fmt.split('%s')
                return 'XFormat %s (%s) %s' % (coq_str(pre), self.ex(n.right), coq_str(post))
            if isinstance(n.op, ast.Mod) and isinstance(n.right, ast.Tuple):
                # a format string that is computed: the interpreter counts its conversions
                return 'XFormatDyn (%s) (xl [%s])' % (self.ex(n.left), '; '.join(self.ex(e) for e in n.right.elts))
            self.err(n, 'unsupported binary operator')
        if isinstance(n, ast.JoinedStr):
            # f'..{a}..{b}..' is '..%s..%s..' % (a, b): format(x, '') is str(x)
            # for the values that occur (str, Token, int, list)
            parts, vals = [''], []
            for v in n.values:
                if isinstance(v, ast.Constant) and type(v.value) is str:
                    parts[-1] += v.value
                elif isinstance(v, ast.FormattedValue) and v.conversion in (-1, 115) and v.format_spec is None:
                    vals.append(v.value)
                    parts.append('')
                else:
                    self.err(n, 'unsupported f-string part')
            if not vals:
                return 'XConst (VStr %s)' % coq_str(parts[0])
            if len(vals) == 1:
                return 'XFormat %s (%s) %s' % (coq_str(parts[0]), self.ex(vals[0]), coq_str(parts[1]))
            return 'XOpaque (xl [%s])' % '; '.join(self.ex(e) for e in vals)
        if isinstance(n, ast.Call):
            return self.call(n)
        self.err(n, 'unsupported expression')

    def call(self, n):
        f = n.func
        if self.buf_call(n) is not None:
            return self.buffer_method(n)
        if is_name(f) and f.id in self.closures:
            # g(src) for the nested predicate `def g(s): return s.startswith(P)`
            need(len(n.args) == 1 and not n.keywords and self.is_buf(n.args[0]),
                 '%s, %s: call of the nested predicate on something else than the buffer' % (self.name, where(n)))
            return 'XStartsWith (%s)' % self.ex(self.closures[f.id])
        if is_name(f, 'tuple'):
            need(len(n.args) == 1 and not n.keywords and not isinstance(n.args[0], ast.Starred),
                 '%s, %s: unsupported tuple(...)' % (self.name, where(n)))
            return 'XToTuple (%s)' % self.ex(n.args[0])
        if isinstance(f, ast.Attribute) and not self.is_buf(f.value) and not is_name(f.value, 'TC') \
                and not (is_name(f.value) and (f.value.id in GLOBAL_DICTS or f.value.id in self.consts)):
            if f.attr == 'strip' and not n.args and not n.keywords:
                return 'XStrip (%s)' % self.ex(f.value)
            if f.attr == 'rstrip' and len(n.args) == 1 and not n.keywords and is_const(n.args[0], str) \
                    and n.args[0].value:
                return 'XRStrip (%s) %s' % (self.ex(f.value), coq_str(n.args[0].value))
            if f.attr == 'startswith' and len(n.args) == 1 and not n.keywords \
                    and not isinstance(n.args[0], ast.Starred):
                return 'XStrStartsWith (%s) (%s)' % (self.ex(f.value), self.ex(n.args[0]))
        if is_name(f, 'next'):
            need(len(n.args) == 1 and not n.keywords and self.is_buf(n.args[0]),
                 '%s, %s: next() of something else than the buffer' % (self.name, where(n)))
            return 'XNext'
        if is_name(f, 'isinstance'):
            need(len(n.args) == 2 and not n.keywords and is_name(n.args[1], 'Token'),
                 '%s, %s: unsupported isinstance' % (self.name, where(n)))
            return 'XIsToken (%s)' % self.ex(n.args[0])
        if is_name(f, 'CharToLineOffset'):
            a = n.args
            need(len(a) == 1 and not n.keywords and isinstance(a[0], ast.Call) and is_name(a[0].func, 'str')
                 and len(a[0].args) == 1 and not a[0].keywords and self.is_buf(a[0].args[0]),
                 '%s, %s: unsupported CharToLineOffset(...)' % (self.name, where(n)))
            return 'XOpaque (xl [])'
        if is_name(f, 'Token'):
            need(len(n.args) == 2 and not n.keywords, '%s, %s: unsupported Token(...)' % (self.name, where(n)))
            return 'XNewToken (%s) (%s)' % (self.ex(n.args[0]), self.ex(n.args[1]))
        if is_name(f, 'TexArgs'):
            need(not n.args and not n.keywords, '%s, %s: unsupported TexArgs(...)' % (self.name, where(n)))
            return 'XNewArgs'
        if is_name(f, 'TexText'):
            need(len(n.args) == 1 and not n.keywords and not isinstance(n.args[0], ast.Starred),
                 '%s, %s: unsupported TexText(...)' % (self.name, where(n)))
            return 'XNewText (%s)' % self.ex(n.args[0])
        if is_name(f, 'TexCmd'):
            return 'XNewCmd (%s) (%s) (%s) (%s)' % tuple(self.ctor_args(n, 'TexCmd(...)'))
        if is_name(f, 'TexNamedEnv'):
            return 'XNewNamedEnv (%s) (%s) (%s) (%s)' % tuple(self.ctor_args(n, 'TexNamedEnv(...)'))
        if is_name(f) and f.id in FUNCTIONS:
            need(f.id != 'read_tex', '%s: call of the generator read_tex' % self.name)
            return 'XCall F_%s (xl [%s])' % (f.id, '; '.join(self.resolve(n, f.id, 'call of %s' % f.id)))
        if isinstance(f, ast.Call) and is_name(f.func, 'make_read_peek'):
            need(len(f.args) == 1 and not f.keywords and is_name(f.args[0]) and f.args[0].id in FUNCTIONS
                 and f.args[0].id != 'read_tex',
                 '%s, %s: unsupported make_read_peek(...)' % (self.name, where(n)))
            g = f.args[0].id
            return 'XCallPeek F_%s (xl [%s])' % (g, '; '.join(self.resolve(n, g, 'peek call of %s' % g)))
        if isinstance(f, ast.Attribute) and f.attr == 'get' and (is_name(f.value) and f.value.id in GLOBAL_DICTS
                                                                 or self.lit_dict(f.value) is not None):
            need(len(n.args) in (1, 2) and not n.keywords and not any(isinstance(a, ast.Starred) for a in n.args),
                 '%s, %s: unsupported .get' % (self.name, where(n)))
            dflt = self.ex(n.args[1]) if len(n.args) == 2 else 'XConst VNone'
            if self.lit_dict(f.value) is not None:
                return 'XLitGet %s (%s) (%s)' % (self.lit_dict(f.value), self.ex(n.args[0]), dflt)
            return 'XDictGet %s (%s) (%s)' % (GLOBAL_DICTS[f.value.id], self.ex(n.args[0]), dflt)
        # a call of a value: a class object (position= keyword) or a CharToLineOffset
        if self.is_local(f) or (isinstance(f, ast.Subscript) and is_name(f.value)
                                and f.value.id in GLOBAL_DICTS):
            if len(n.keywords) == 1 and n.keywords[0].arg == 'position':
                items, star = [], None
                for a in n.args:
                    if isinstance(a, ast.Starred):
                        need(star is None, '%s, %s: two star arguments' % (self.name, where(n)))
                        star = self.ex(a.value)
                    else:
                        need(star is None, '%s, %s: argument after a star argument' % (self.name, where(n)))
                        items.append(self.ex(a))
                return 'XNew (%s) (xl [%s]) %s (%s)' % (
                    self.ex(f), '; '.join(items), '(Some (%s))' % star if star else 'None',
                    self.ex(n.keywords[0].value))
            if self.is_local(f) and len(n.args) == 1 and not n.keywords \
                    and not isinstance(n.args[0], ast.Starred):
                return 'XCloCall (%s) (%s)' % (self.ex(f), self.ex(n.args[0]))
        self.err(n, 'unsupported call')

    # ---- statements
    def stmt(self, s):
        if isinstance(s, ast.Assign):
            t = s.targets[0]
            if isinstance(t, ast.Name):
                return ('atom', 'SAssign %d (%s)' % (self.var(t.id), self.ex(s.value)))
            return ('atom', 'SUnpack [%s]%%nat (%s)' % ('; '.join(str(self.var(e.id)) for e in t.elts),
                                                   self.ex(s.value)))
        if isinstance(s, ast.AugAssign):
            op = {ast.Add: 'SAugAdd', ast.Sub: 'SAugSub'}.get(type(s.op))
            if op is None:
                self.err(s, 'unsupported augmented assignment')
            return ('atom', '%s %d (%s)' % (op, self.var(s.target.id), self.ex(s.value)))
        if isinstance(s, ast.Expr):
            v = s.value
            if isinstance(v, ast.Yield):
                need(v.value is not None, '%s: bare yield' % self.name)
                return ('atom', 'SYield (%s)' % self.ex(v.value))
            if isinstance(v, ast.Call) and isinstance(v.func, ast.Attribute) and v.func.attr == 'append' \
                    and self.is_local(v.func.value) and len(v.args) == 1 and not v.keywords:
                x = self.var(v.func.value.id)
                if isinstance(v.args[0], ast.Starred):
                    return ('atom', 'SAppendStar %d (%s)' % (x, self.ex(v.args[0].value)))
                return ('atom', 'SAppend %d (%s)' % (x, self.ex(v.args[0])))
            if isinstance(v, ast.Call):
                return ('atom', 'SExpr (%s)' % self.ex(v))
            self.err(s, 'unsupported expression statement')
        if isinstance(s, ast.Return):
            if s.value is None:
                return ('atom', 'SReturn (XConst VNone)')
            need(not self.is_gen, '%s: return with a value in a generator' % self.name)
            return ('atom', 'SReturn (%s)' % self.ex(s.value))
        if isinstance(s, ast.Assert):
            need(s.msg is None or is_const(s.msg, str), '%s: assert message is not a constant' % self.name)
            return ('atom', 'SAssert (%s)' % self.ex(s.test))
        if isinstance(s, ast.Raise):
            e = s.exc
            need(s.cause is None and isinstance(e, ast.Call) and is_name(e.func) and e.func.id in ERRORS
                 and len(e.args) == 1 and not e.keywords and not isinstance(e.args[0], ast.Starred),
                 '%s, %s: unsupported raise' % (self.name, where(s)))
            return ('atom', 'SRaise %s (%s)' % (ERRORS[e.func.id], self.ex(e.args[0])))
        if isinstance(s, ast.Break):
            return ('atom', 'SBreak')
        if isinstance(s, ast.Continue):
            return ('atom', 'SContinue')
        if isinstance(s, ast.If):
            return ('if', self.ex(s.test), self.block(s.body), self.block(s.orelse))
        if isinstance(s, ast.While):
            return ('while', self.ex(s.test), self.block(s.body))
        if isinstance(s, ast.For):
            it = s.iter
            need(isinstance(it, ast.Call) and is_name(it.func, 'range') and len(it.args) == 1
                 and not it.keywords, '%s, %s: for over something else than range(e)' % (self.name, where(s)))
            return ('for', self.var(s.target.id), self.ex(it.args[0]), self.block(s.body))
        if isinstance(s, ast.FunctionDef):
            return None                       # a closure, recorded by collect()
        self.err(s, 'unsupported statement')

    def block(self, body):
        out = []
        for s in body:
            t = self.stmt(s)
            if t is not None:
                out.append(t)
        return out

    def translate(self):
        self.calls = []          # (Call node, callee, {param index: arg node})
        self.prog = self.block(self.body)
        return self.prog


# ------------------------------------------------------------------- aliasing

def parents(fn):
    par = {}
    for p in ast.walk(fn):
        for c in ast.iter_child_nodes(p):
            par[c] = p
    return par


def occurrence(n, par, fu):
    """how the bare name n (a Load) is used: 'read' (attribute, subscript, truth
    test, operand of a formatted message), 'star', 'return', 'self-or'
    (x = x or ...), (callee, parameter index) for an argument of a reader call,
    'other'"""
    p = par[n]
    if isinstance(p, (ast.Attribute, ast.Subscript)) and p.value is n:
        return 'read'
    if isinstance(p, ast.Starred):
        return 'star'
    if isinstance(p, ast.Return):
        return 'return'
    if isinstance(p, (ast.If, ast.While, ast.Assert, ast.IfExp)) and p.test is n:
        return 'read'
    if isinstance(p, ast.UnaryOp) and isinstance(p.op, ast.Not):
        return 'read'
    if isinstance(p, ast.BoolOp):
        gp = par[p]
        if isinstance(gp, ast.Assign) and is_name(gp.targets[0], n.id) and p.values[0] is n \
                and isinstance(p.op, ast.Or):
            return 'self-or'
        if (isinstance(gp, (ast.If, ast.While, ast.Assert, ast.IfExp)) and gp.test is p) \
                or (isinstance(gp, ast.UnaryOp) and isinstance(gp.op, ast.Not)):
            return 'read'
        return 'other'
    if isinstance(p, ast.Tuple) and isinstance(par[p], ast.BinOp) and isinstance(par[p].op, ast.Mod) \
            and par[p].right is p:
        return 'read'
    if isinstance(p, ast.BinOp) and isinstance(p.op, ast.Mod) and p.right is n and is_const(p.left, str):
        return 'read'
    if isinstance(p, ast.FormattedValue):
        return 'read'
    if isinstance(p, ast.Compare) and all(isinstance(o, (ast.Is, ast.IsNot)) for o in p.ops):
        return 'read'
    if isinstance(p, ast.Call):
        for (c, callee, given) in fu.calls:
            if c is p:
                for i, a in given.items():
                    if a is n:
                        return (callee, i)
    return 'other'


def only_read(funs, mutated, f, i, seen):
    """parameter i of reader function f is only read there: never re-bound,
    mutated, stored, returned or passed on to anything that would"""
    if (f, i) in seen:
        return True
    seen = seen | {(f, i)}
    fu = funs[f]
    p = fu.sig.params[i]
    if p in fu.assigned or p in mutated[f]:
        return False
    par = parents(fu.fn)
    for n in ast.walk(fu.fn):
        if isinstance(n, ast.Name) and n.id == p and isinstance(n.ctx, ast.Load):
            kind = occurrence(n, par, fu)
            if kind == 'read':
                continue
            if isinstance(kind, tuple) and only_read(funs, mutated, kind[0], kind[1], seen):
                continue
            return False
    return True


def check_aliasing(funs):
    """The DSL treats objects as values: `x.append(..)` updates the variable x
    and a mutated parameter is copied back to the caller's variable.  That is
    Python's behaviour provided a mutated object is reachable through one
    variable only.  Sufficient syntactic conditions, checked here:
      (1) a variable whose object is mutated (receiver of .append, or passed in
          a by-reference position) occurs as a bare name only as: receiver of
          .append / an attribute read / a subscript, a star argument, the
          by-reference argument of a reader call, `return x`, a truth test
          (if/while/assert/not/and/or), `x = x or ...`, or an operand of a
          formatted exception message;
      (2) a by-reference parameter is never re-bound in its function; a
          parameter that is both re-bound and mutated is always left to its
          default by the callers (it is then an ordinary local);
      (3) a by-reference argument is a bare local name;
      (4) the result of a call that may return its by-reference parameter is
          discarded or returned immediately.
    Returns {function: [indices of by-reference parameters]}."""
    mutated = {f: set() for f in funs}
    byref = {f: [] for f in funs}
    changed = True
    while changed:
        changed = False
        for f, fu in funs.items():
            new = set()
            for n in ast.walk(fu.fn):
                if isinstance(n, ast.Call) and isinstance(n.func, ast.Attribute) and n.func.attr == 'append' \
                        and fu.is_local(n.func.value):
                    new.add(n.func.value.id)
            for (n, callee, given) in fu.calls:
                for i in byref[callee]:
                    if i in given and isinstance(given[i], ast.Name):
                        new.add(given[i].id)
            br = [i for i, p in enumerate(fu.sig.params) if p in new and p not in fu.assigned]
            if new != mutated[f] or br != byref[f]:
                mutated[f], byref[f] = new, br
                changed = True
    for f, fu in funs.items():
        # (2)
        for i, p in enumerate(fu.sig.params):
            if p in mutated[f] and p in fu.assigned:
                for g, gu in funs.items():
                    for (n, callee, given) in gu.calls:
                        need(not (callee == f and i in given),
                             '%s passes `%s` to %s, which re-binds and mutates it' % (g, p, f))
        # (3)
        for (n, callee, given) in fu.calls:
            for i in byref[callee]:
                need(i in given and fu.is_local(given[i]),
                     '%s, %s: by-reference argument `%s` of %s is not a local name'
                     % (f, where(n), funs[callee].sig.params[i], callee))
        # (4)
        par = parents(fu.fn)
        returns_ref = {g: any(isinstance(n, ast.Return) and isinstance(n.value, ast.Name)
                              and n.value.id in [gu.sig.params[i] for i in byref[g]]
                              for n in ast.walk(gu.fn))
                       for g, gu in funs.items()}
        for (n, callee, given) in fu.calls:
            if returns_ref[callee]:
                top = n
                if isinstance(par.get(top), ast.Call) and par[top].func is top:
                    top = par[top]
                p = par.get(top)
                need(isinstance(p, (ast.Expr, ast.Return)),
                     '%s, %s: the object returned by %s is kept while also held by a variable'
                     % (f, where(n), callee))
        # (1)
        for n in ast.walk(fu.fn):
            if not (isinstance(n, ast.Name) and n.id in mutated[f] and isinstance(n.ctx, ast.Load)):
                continue
            kind = occurrence(n, par, fu)
            ok = kind in ('read', 'star', 'return', 'self-or')
            if isinstance(kind, tuple):
                callee, i = kind
                ok = i in byref[callee] or only_read(funs, mutated, callee, i, set())
            need(ok, '%s, %s: the mutated object `%s` may become aliased' % (f, where(n), n.id))
    return byref


# ------------------------------------------------------------------- printing

def pp_block(items, ind):
    pad = ' ' * ind
    if not items:
        return [pad + '(blk [])']
    out = [pad + '(blk [']
    for i, it in enumerate(items):
        lines = pp_stmt(it, ind + 2)
        if i < len(items) - 1:
            lines[-1] += ';'
        out.extend(lines)
    out[-1] += '])'
    return out


def pp_stmt(it, ind):
    pad = ' ' * ind
    if it[0] == 'atom':
        return [pad + it[1]]
    if it[0] == 'if':
        return [pad + 'SIf (%s)' % it[1]] + pp_block(it[2], ind + 2) + pp_block(it[3], ind + 2)
    if it[0] == 'while':
        return [pad + 'SWhile (%s)' % it[1]] + pp_block(it[2], ind + 2)
    if it[0] == 'for':
        return [pad + 'SForRange %d (%s)' % (it[1], it[2])] + pp_block(it[3], ind + 2)
    raise TranslationError('internal: %r' % (it,))


def generate():
    path = os.path.join(REPO, 'TexSoup', 'reader.py')
    with open(path) as f:
        tree = ast.parse(f.read())
    fns, modes, sigtab, consts, helpers = check_module(tree)
    fns = {nm: normalise(fns[nm], helpers) for nm in FUNCTIONS}
    sigs = {nm: Sig(fns[nm], modes) for nm in FUNCTIONS}
    funs = {}
    for nm in FUNCTIONS:
        funs[nm] = Fun(fns[nm], sigs, modes, consts)
        funs[nm].translate()
    need(funs['read_tex'].is_gen and not any(funs[nm].is_gen for nm in FUNCTIONS if nm != 'read_tex'),
         'the set of generator functions changed')
    byref = check_aliasing(funs)
    out = []
    w = out.append
    w('(* GENERATED by harness/gen_reader.py from TexSoup/reader.py -- do not edit.')
    w('   One term of ReadDSL.fundef per function, constructor by constructor from')
    w('   the Python abstract syntax, after the meaning-preserving normal form')
    w('   described in gen_reader.py (early exits moved into the branches of the')
    w('   if, `not c` / `!=` tests turned round, pure wrappers and named')
    w('   temporaries inlined); see ReadDSL.v for the meaning.  Locals are')
    w('   numbered: parameters (without the buffer) first, then in order of first')
    w('   binding. *)')
    w('From Coq Require Import List NArith ZArith.')
    w('From TexModel Require Import Base Tables Chars Tokenizer Tree Reader ReadDSL.')
    w('Import ListNotations.')
    w('Local Open Scope Z_scope.')
    w('')
    for nm in MODES:
        w('Definition gen_%s : str := %s.' % (nm, coq_str(modes[nm])))
    w('')
    w('(* the dict literal SIGNATURES *)')
    w('Definition gen_signatures : list (str * (Z * Z)) :=')
    w('  [%s].' % ';\n   '.join('(%s, (%s, %s))' % (coq_str(k), coq_z(a), coq_z(b)) for k, (a, b) in sigtab))
    w('')
    for nm in FUNCTIONS:
        fu = funs[nm]
        w('(* def %s(%s): %d parameter(s) after the buffer, %d local(s) *)'
          % (nm, ', '.join(['<buffer>'] + ['p%d' % i for i in range(len(fu.sig.params))]),
             len(fu.sig.params), len(fu.locals)))
        w('Definition gen_%s : fundef :=' % nm)
        w('  mkfd %d %d [%s]%%nat %s' % (len(fu.sig.params), len(fu.locals),
                                    '; '.join(str(i) for i in byref[nm]),
                                    'true' if fu.is_gen else 'false'))
        lines = pp_block(fu.prog, 4)
        lines[-1] += '.'
        out.extend(lines)
        w('')
    w('Definition gen_table : program_table := fun f =>\n  match f with')
    for nm in FUNCTIONS:
        w('  | F_%s => gen_%s' % (nm, nm))
    w('  end.')
    return '\n'.join(out) + '\n'


def main():
    outp = sys.argv[1]
    try:
        txt = generate()
    except TranslationError as e:
        sys.stderr.write('TRANSLATION-FAILED: %s\n' % e)
        return 2
    except Exception as e:   # noqa
        sys.stderr.write('TRANSLATION-FAILED: %s: %s\n' % (type(e).__name__, e))
        return 2
    old = None
    if os.path.exists(outp):
        with open(outp) as f:
            old = f.read()
    if old != txt:
        with open(outp, 'w') as f:
            f.write(txt)
        print('ReadGen.v rewritten')
    else:
        print('ReadGen.v unchanged')
    return 0


if __name__ == '__main__':
    sys.exit(main())
