"""K-clo: correspondence between the extracted model of CharToLineOffset
(coq/theories/Model/CLO.v, run_clo) and TexSoup.utils.CharToLineOffset.

Case = (source string, offset).  Driver line `X clo <offset> <cp0> <cp1> ...`,
answer `<line> <col>`.  The implementation side prints the same two integers.

Enumerated:
  * exhaustively every string over {'a', LF} up to length 8 (quick) / 11
    (thorough), with every offset 0..len-1 (the property's domain) and, because
    the model must agree with the code wherever the code answers, the
    out-of-contract offsets -2, -1, len, len+1, len+3 as well;
  * random longer strings over a larger alphabet (CR, CRLF, tab, NEL, U+2028,
    non-BMP, ...) with every offset -1..len+1.
"""
import itertools
import os

from common import Failure, Result, chunked, pmap, rng_for, NPROC
import corr
import impl

corr.DRIVER = os.environ.get('VERIF_DRIVER', corr.DRIVER)

KIND = 'K-clo'
ALPHA_EXH = 'a\n'
ALPHA_RND = ['a', 'b', ' ', '\n', '\n', '\n', '\r', '\r\n', '\t', '\x0b', '\x0c', '\x85',
             '\u2028', '\u2029', '\\', '%', '{', '\U0001F600', '\x00', '\x0a\x0a']


def exhaustive_strings(maxlen):
    for n in range(0, maxlen + 1):
        for t in itertools.product(ALPHA_EXH, repeat=n):
            yield ''.join(t)


def cases_for(prop, tier):
    maxlen, nrand, rlen = (8, 300, 40) if tier == 'quick' else (11, 6000, 120)
    cases = []
    for s in exhaustive_strings(maxlen):
        n = len(s)
        for i in range(0, n):
            cases.append((s, i, True))
        for i in (-2, -1, n, n + 1, n + 3):
            cases.append((s, i, False))
    nex = len(cases)
    rng = rng_for(prop, KIND)
    for _ in range(nrand):
        s = ''.join(rng.choice(ALPHA_RND) for _ in range(rng.randint(maxlen + 1, rlen)))
        for i in range(-1, len(s) + 2):
            cases.append((s, i, 0 <= i < len(s)))
    return cases, nex


def _impl_chunk(cases):
    out = []
    cache = (None, None)
    for s, i, _ in cases:
        try:
            if cache[0] != s:
                cache = (s, impl.CharToLineOffset(s))
            ln, col = cache[1](i)
            out.append('%d %d' % (ln, col))
        except BaseException as e:   # noqa
            out.append('ERR ' + type(e).__name__)
    return out


def line_of(s, i):
    return 'X clo ' + ' '.join(map(str, [i] + [ord(c) for c in s]))


def run(prop, tier):
    r = Result(KIND)
    cases, nex = cases_for(prop, tier)
    model = corr.run_driver([line_of(s, i) for s, i, _ in cases])
    implo = []
    for o in pmap(_impl_chunk, chunked(cases, NPROC * 2)):
        implo.extend(o)
    for (s, i, inr), a, b in zip(cases, model, implo):
        r.saw((s, i), nontrivial=inr and '\n' in s[:i])
        r.count('in-range' if inr else 'out-of-range-offset')
        if inr and not b.startswith('ERR'):
            ln = int(b.split(' ')[0])
            r.count('line=%d' % ln if ln < 3 else ('line=3..9' if ln < 10 else 'line>=10'))
        elif inr:
            r.count(b)
        if a != b:
            r.fail(Failure(prop, KIND, {'source': s, 'offset': i},
                           {'implementation': b}, {'model': a},
                           note='CharToLineOffset(source)(offset) differs between model and code'))
    r.exhaustive = True
    r.notes.append('exhaustive part: %d (string, offset) cases: all strings over {a, LF} up to length %d '
                   'x offsets 0..len-1 plus 5 out-of-range offsets each; random part: %d cases over a '
                   '%d-symbol alphabet incl. CR, CRLF, NEL, U+2028, non-BMP'
                   % (nex, 8 if tier == 'quick' else 11, len(cases) - nex, len(ALPHA_RND)))
    return r
