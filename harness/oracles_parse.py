"""Direct oracles on the implementation for the parsing properties
C01 C02 C06 C07 C08 C13 C16 C19."""
import itertools
import re

import gen
import impl
import inputs
from common import Failure, Result, chunked, pmap, rng_for, NPROC
from impl import D, Token

ALLOWED_ERRORS = ('EOFError', 'TypeError', 'AssertionError')


# ----------------------------------------------------------------- tree tools

def nf_of_contents(items):
    out = []
    for c in items:
        out.extend(nf_of(c))
    return gen.merge_nf(out)


def nf_of(e):
    """Normal form of an implementation tree (see gen.py)."""
    if isinstance(e, D.TexText):
        t = e._text
        if isinstance(t, Token) and t.category is not None and t.category.name == 'Comment':
            return [('c', str(t))]
        return [('t', str(t))]
    if isinstance(e, str):
        return [('t', str(e))]
    cls = type(e).__name__
    if cls == 'TexCmd':
        return [('cmd', str(e.name), [nf_arg(a) for a in e.args], nf_of_contents(e._contents))]
    if cls == 'TexNamedEnv':
        return [('env', str(e.name), [nf_arg(a) for a in e.args], nf_of_contents(e._contents))]
    if cls in impl.MATH_KIND:
        return [('math', impl.MATH_KIND[cls], nf_of_contents(e._contents))]
    if cls in impl.GROUP_KIND:
        return [('group', impl.GROUP_KIND[cls], nf_of_contents(e._contents))]
    return [('?', cls)]


def nf_arg(a):
    cls = type(a).__name__
    if cls in impl.GROUP_KIND:
        return (impl.GROUP_KIND[cls], nf_of_contents(a._contents))
    return ('?arg', nf_of(a))


def all_positioned(root):
    """(object, position, text) for every expression and text token of a
    freshly parsed tree that records a position >= 0."""
    out = []

    def rec(e):
        for a in e.args:
            visit(a)
        for c in e._contents:
            visit(c)

    def visit(x):
        if isinstance(x, D.TexText):
            t = x._text
            if isinstance(t, Token) and t.position is not None:
                out.append((x, t.position, str(t)))
            return
        if isinstance(x, Token):
            out.append((x, x.position, str(x)))
            return
        if isinstance(x, str):
            return
        if x.position is not None and x.position >= 0:
            out.append((x, x.position, str(x)))
        elif type(x).__name__ not in impl.GROUP_KIND:
            # only a group coerced from a bare-token argument is built without
            # a position; every command / environment / math region the reader
            # builds records one (reported as a wrong position otherwise)
            out.append((x, -1 if x.position is None else x.position, str(x)))
        rec(x)
    rec(root)
    return out


def removed_arg_space_alignment(src, out):
    """None when `out` is `src` with only whitespace runs directly before an
    opening brace/bracket removed; else a description of the first
    difference."""
    i = j = 0
    n, m = len(src), len(out)
    while i < n or j < m:
        if i < n and j < m and src[i] == out[j]:
            i += 1
            j += 1
            continue
        if i < n and src[i] in ' \t\n\r':
            k = i
            while k < n and src[k] in ' \t\n\r':
                k += 1
            if k < n and src[k] in '{[' and j < m and out[j] == src[k]:
                i = k
                continue
        return 'input[%d:%d]=%r vs output[%d:%d]=%r' % (
            i, i + 8, src[i:i + 8], j, j + 8, out[j:j + 8])
    return None


CLOSER_RE = re.compile(r'\\end\{[^{}]*\}|\}|\]')


def env_names(soup):
    out = set()

    def rec(e):
        if type(e).__name__ == 'TexNamedEnv':
            out.add(str(e.name))
        for a in e.args:
            rec(a)
        for c in e._contents:
            if isinstance(c, D.TexExpr) and not isinstance(c, D.TexText):
                rec(c)
    rec(soup.expr)
    return out


def only_closers_inserted(src, out, names=(), allow_name_padding=False, allow_bracket_names=False):
    """None when `out` is `src` with only argument whitespace removed and
    closing delimiters `}` `]` `\\end{name}` inserted."""
    # dynamic programme over (i, j): src[:i] matched with out[:j]
    n, m = len(src), len(out)
    reach = {(0, 0)}
    frontier = [(0, 0)]
    seen = set(frontier)
    closers_at = {}
    for mt in CLOSER_RE.finditer(out):
        pass
    while frontier:
        i, j = frontier.pop()
        if i == n and j == m:
            return None
        nxt = []
        if i < n and j < m and src[i] == out[j]:
            nxt.append((i + 1, j + 1))
        if allow_bracket_names and i < n and j < m:
            # used only by the classifier of KF-bracket-env-name: the bracket
            # group standing for the name of \begin / \end is printed with braces
            if src[i] == '[' and out[j] == '{' and re.search(r'\\(?:begin|end)[ \t]*\n?[ \t]*$', src[:i]):
                nxt.append((i + 1, j + 1))
            if src[i] == ']' and out[j] == '}':
                nxt.append((i + 1, j + 1))
        if j < m:
            mt = CLOSER_RE.match(out, j)
            if mt:
                nxt.append((i, mt.end()))
            for nm in names:
                if out.startswith('\\end{%s}' % nm, j):
                    nxt.append((i, j + len('\\end{%s}' % nm)))
            if out[j] in '}]':
                nxt.append((i, j + 1))
        if i < n and src[i] in ' \t\n\r':
            k = i
            while k < n and src[k] in ' \t\n\r':
                k += 1
            if k < n and src[k] in '{[':
                nxt.append((k, j))
            if allow_name_padding and (k == n or src[k] == '}' or (i > 0 and src[i - 1] == '{')):
                # used only by the classifier of KF-env-name-padding: blanks at
                # either end of a brace group's contents (a stripped name)
                nxt.append((k, j))
        for st in nxt:
            if st not in seen:
                seen.add(st)
                frontier.append(st)
    far = max(seen)
    return 'cannot align beyond input[%d:]=%r / output[%d:]=%r' % (
        far[0], src[far[0]:far[0] + 10], far[1], out[far[1]:far[1] + 10])


def has_bare_sig_arg(src):
    """token-level version of the same side condition, which also sees
    fixed-signature commands inside an environment name (where the tree only
    keeps a string): some \\def/\\textbf/\\section/\\label is not followed by
    its brace-delimited mandatory arguments"""
    try:
        from TexSoup.reader import SIGNATURES
        toks = impl.tokens_of(src)
    except Exception:      # noqa
        return False
    n = len(toks)

    def skip_group(j, open_cat, close_cat):
        depth, k = 1, j + 1
        while k < n and depth > 0:
            if toks[k][2] == open_cat:
                depth += 1
            elif toks[k][2] == close_cat:
                depth -= 1
            k += 1
        return k
    for i in range(n - 1):
        if toks[i][2] != 'Escape' or toks[i + 1][0] not in SIGNATURES:
            continue
        req, opt = SIGNATURES[toks[i + 1][0]]
        if req <= 0:
            continue
        j = i + 2
        while opt != 0:
            k = j + 1 if j < n and toks[j][2] == 'MergedSpacer' else j
            if k < n and toks[k][2] == 'BracketBegin':
                j = skip_group(k, 'BracketBegin', 'BracketEnd')
                opt -= 1
            else:
                break
        for _ in range(req):
            k = j + 1 if j < n and toks[j][2] == 'MergedSpacer' else j
            if k < n and toks[k][2] == 'GroupBegin':
                j = skip_group(k, 'GroupBegin', 'GroupEnd')
            else:
                return True
    return False


def sig_args_braced(soup):
    """Side condition of C08/C16: no fixed-signature command took a bare
    token as a mandatory argument (such arguments get braces on output)."""
    def rec(e):
        for a in e.args:
            if isinstance(a, D.TexCmd):
                return False
            if isinstance(a, D.TexGroup) and a.position == -1:
                return False
            if not rec(a):
                return False
        for c in e._contents:
            if isinstance(c, D.TexExpr) and not isinstance(c, D.TexText):
                if not rec(c):
                    return False
        return True
    return rec(soup.expr)


def try_parse(s, tol=0, skip=(), wd=5.0):
    try:
        return impl.with_watchdog(wd, impl.parse, s, tol, skip), None
    except impl.Watchdog:
        return None, 'Watchdog'
    except RecursionError:
        return None, 'RecursionError'
    except BaseException as e:     # noqa
        return None, type(e).__name__


# ------------------------------------------------------------------- C01

def _c01_chunk(cases):
    r = Result('oracle-C01')
    for src, must_parse, label in cases:
        r.saw(src, nontrivial=len(src) > 3)
        r.count('class:' + label)
        soup, err = try_parse(src)
        if soup is None:
            if must_parse:
                r.fail(Failure('C01', 'parse-fails', src, err, 'parse succeeds'))
            else:
                r.count('skipped:does-not-parse')
            continue
        out = str(soup)
        if out != src:
            if not must_parse and removed_arg_space_alignment(src, out) is None:
                r.count('skipped:argument-not-adjacent')
                continue
            if not must_parse and not sig_args_braced(soup):
                r.count('skipped:bare-token-argument')
                continue
            r.fail(Failure('C01', 'roundtrip', src, out, src))
            continue
        for obj, pos, text in all_positioned(soup.expr):
            if src[pos:pos + len(text)] != text:
                r.fail(Failure('C01', 'node-slice', src,
                               {'position': pos, 'node': text,
                                'slice': src[pos:pos + len(text)]},
                               'source[position:][:len(str(node))] == str(node)'))
                break
    return r


def oracle_C01(tier):
    n, depth = (400, 3) if tier == 'quick' else (4000, 5)
    cases = [(s, True, 'grammar') for s, _ in inputs.grammar_docs('C01', n, depth)]
    cases += [(s, True, 'grammar-hostile') for s, _ in
              inputs.grammar_docs('C01', n // 4, depth, hostile=True, salt='h')]
    cases += [(s, True, 'repo-sample') for s in inputs.repo_samples()]
    cases += [(s, False, 'doc-example') for s in inputs.doc_strings()]
    res = Result('oracle-C01')
    for r in pmap(_c01_chunk, chunked(cases, NPROC * 2)):
        res.merge(r)
    res.notes.append('grammar documents and repository samples must parse and '
                     'round-trip with true node slices; documentation strings '
                     'are held to the same unless they do not parse or an '
                     'argument does not directly follow its command')
    return res


# ------------------------------------------------------------------- C02

def _c02_chunk(cases):
    r = Result('oracle-C02')
    for src, expected, constructs in cases:
        r.saw(src, nontrivial=len(constructs) > 1)
        for c in set(constructs):
            r.count('construct:' + c)
        soup, err = try_parse(src)
        if soup is None:
            r.fail(Failure('C02', 'parse-fails', src, err, 'parse succeeds'))
            continue
        got = nf_of_contents(soup.expr._contents)
        if got != expected:
            r.fail(Failure('C02', 'structure', src, repr(got), repr(expected)))
            continue
        # a user-supplied skip_envs name that does not occur in the document
        # changes nothing: the built-in verbatim-like names stay in force
        if 'verbatim' in constructs or '\\begin{' in src and len(src) % 3 == 0:
            soup2, err2 = try_parse(src, skip=('zzuser',))
            got2 = nf_of_contents(soup2.expr._contents) if soup2 is not None else err2
            if got2 != expected:
                r.fail(Failure('C02', 'structure', src, repr(got2), repr(expected),
                               opts={'skip_envs': ['zzuser']}))
    return r


def oracle_C02(tier):
    n, depth = (500, 3) if tier == 'quick' else (5000, 5)
    cases = []
    for salt, kw in (('', {}), ('h', {'hostile': True})):
        for s, els in inputs.grammar_docs('C02', n if not salt else n // 4, depth, salt=salt, **kw):
            cases.append((s, gen.nf_all(els), gen.all_constructs(els)))
    # characters that other notions of "blank" cover but the category table
    # does not: between a command (or its last group) and a following group
    # they are ordinary text, so the group is NOT an argument
    for ch in gen.ODD_CHARS:
        if ch == '\r':
            continue
        cases.append(('\\foo{a}' + ch + '{b} c',
                      gen.merge_nf([('cmd', 'foo', [('Brace', [('t', 'a')])], []), ('t', ch),
                                    ('group', 'Brace', [('t', 'b')]), ('t', ' c')]), ['cmd', 'group']))
        cases.append(('\\foo' + ch + '[o] c',
                      gen.merge_nf([('cmd', 'foo', [], []), ('t', ch + '[o] c')]), ['cmd']))
    res = Result('oracle-C02')
    for r in pmap(_c02_chunk, chunked(cases, NPROC * 2)):
        res.merge(r)
    return res


# ------------------------------------------------------------------- C06

def _c06_chunk(arg):
    cases, wd = arg
    r = Result('oracle-C06')
    worst = 0.0
    import time
    for src in cases:
        for tol in (0, 1):
            t0 = time.time()
            soup, err = try_parse(src, tol=tol, wd=wd)
            worst = max(worst, time.time() - t0)
            r.saw((src, tol), nontrivial=len(src) > 1)
            r.count('result:' + (err or 'tree'))
            if err is not None and err not in ALLOWED_ERRORS:
                r.fail(Failure('C06', 'internal-exception', src, err,
                               'tree or EOFError/TypeError/AssertionError',
                               opts={'tolerance': tol}))
    r.hist['worst_ms'] = int(worst * 1000)
    return r


def mutants_of(docs, rng, per_doc):
    out = []
    for s in docs:
        muts = list(gen.prefixes(s)) + list(gen.single_deletions(s)) + \
            list(gen.transpositions(s)) + \
            list(gen.insertions(s, gen.CHAR_ALPHABET + gen.KIND_ALPHABET, rng, len(s)))
        if len(muts) > per_doc:
            muts = rng.sample(muts, per_doc)
        out.extend(muts)
    return out


def c06_inputs(tier, prop='C06'):
    rng = rng_for(prop, 'inputs')
    if tier == 'quick':
        cl, kl, nd, per, nr = 3, 2, 40, 60, 2000
    else:
        cl, kl, nd, per, nr = 4, 3, 300, 200, 30000
    cases = list(gen.strings_upto(gen.CHAR_ALPHABET, cl))
    cases += list(gen.strings_upto(gen.KIND_ALPHABET, kl))
    cases += gen.env_edge_cases() + gen.odd_char_cases() + gen.ascii_boundary_cases()
    exhaustive_n = len(cases)
    docs = [s for s, _ in inputs.grammar_docs(prop, nd, 3, maxchars=400)]
    docs += [s for s in inputs.repo_samples() if len(s) < 3000][:2]
    cases += mutants_of(docs, rng, per)
    cases += list(gen.random_strings(rng, gen.CHAR_ALPHABET, nr // 2, 5, 14))
    cases += list(gen.random_strings(rng, gen.KIND_ALPHABET, nr // 2, 4, 10))
    # nesting depth up to 40 (the property's bound)
    for d in (10, 20, 40):
        cases += ['{' * d + 'x' + '}' * d, '{' * d, '[' * d, '$' * d,
                  '\\x' + '{' * d + '}' * d, '\\begin{a}' * d + '\\end{a}' * d,
                  '\\begin{a}' * d, ('\\x{' * d) + ('}' * d), '\\x[' * d,
                  '\\item ' * d, ('\\begin{itemize}\\item ' * d)]
    return cases, exhaustive_n


def oracle_C06(tier):
    cases, nex = c06_inputs(tier)
    wd = 2.0 if tier == 'quick' else 20.0
    res = Result('oracle-C06')
    worst = 0
    for r in pmap(_c06_chunk, [(c, wd) for c in chunked(cases, NPROC * 4)]):
        worst = max(worst, r.hist.pop('worst_ms', 0))
        res.merge(r)
    res.hist['worst_parse_ms'] = worst
    res.notes.append('exhaustive part: %d strings (char alphabet and token-kind '
                     'alphabet), both tolerances; watchdog %.0fs per parse' % (nex, wd))
    return res


# ------------------------------------------------------------------- C07

def _c07_chunk(cases):
    r = Result('oracle-C07')
    for src in cases:
        r.saw(src, nontrivial=len(src) > 1)
        s0, e0 = try_parse(src, tol=0)
        s1, e1 = try_parse(src, tol=1)
        if 'Watchdog' in (e0, e1):
            r.count('skipped:watchdog')
            continue
        if s0 is not None:
            r.count('strict-ok')
            if s1 is None:
                r.fail(Failure('C07', 'tolerant-fails-where-strict-succeeds',
                               src, e1, 'identical tree'))
            elif impl.canon_expr(s0.expr) != impl.canon_expr(s1.expr) or str(s0) != str(s1):
                r.fail(Failure('C07', 'tolerant-differs-from-strict', src,
                               str(s1), str(s0)))
        if s1 is not None:
            r.count('tolerant-ok')
            if '\x00' in src or '\x7f' in src or not sig_args_braced(s1) or has_bare_sig_arg(src):
                r.count('skipped:side-condition')
                continue
            d = only_closers_inserted(src, str(s1), env_names(s1))
            if d is not None:
                r.fail(Failure('C07', 'tolerant-output-not-input-plus-closers',
                               src, str(s1), d))
    return r


def closer_deletions(src):
    """every single deletion of a `}`, a `]` or an \\end{name}"""
    out = []
    for m in re.finditer(r'\\end\{[^{}]*\}|\}|\]', src):
        out.append((src[:m.start()] + src[m.end():], m.group(0), m.start()))
    return out


def _c07_repair_chunk(cases):
    r = Result('oracle-C07-repair')
    for src, deleted, at in cases:
        r.saw((src, at))
        r.count('deleted:' + ('end' if deleted.startswith('\\end') else deleted))
        s0, e0 = try_parse(src, tol=0)
        s1, e1 = try_parse(src, tol=1)
        if s0 is not None and str(s0) == src and s1 is not None:
            # the damaged text happens to be well-formed itself (e.g. the
            # deleted bracket closed a bracket that is ordinary text)
            r.count('skipped:still-well-formed')
            continue
        if s0 is not None:
            r.fail(Failure('C07', 'strict-accepts-missing-closer', src, str(s0),
                           'strict parsing reports an error',
                           opts={'deleted': deleted, 'at': at}))
        if s1 is None:
            r.fail(Failure('C07', 'tolerant-rejects-missing-closer', src, e1,
                           'tolerant parsing succeeds',
                           opts={'deleted': deleted, 'at': at}))
    return r


def plain_docs(prop, n, depth):
    """well-formed documents without math, verbatim or list regions and
    without free brackets in text (C07's repair clause)"""
    rng = rng_for(prop, 'plain')
    g = gen.DocGen(rng, max_depth=depth, max_len=3)
    out = []
    tries = 0
    banned = ('math', 'verbatim', 'list', 'item', 'mathenv')
    while len(out) < n and tries < 60 * n:
        tries += 1
        els = g.document()
        cs = gen.all_constructs(els)
        if any(c.startswith(b) for c in cs for b in banned):
            continue
        s = gen.render_all(els)
        if len(s) > 300:
            continue
        # no free brackets / comments hiding closers
        if re.search(r'(?<![a-zA-Z*\]}])\[|\](?![\[{])', s) and False:
            continue
        out.append((s, els))
    return out


def free_closer_positions(src):
    """offsets of `}` `]` that stand inside a comment or are escaped, and of
    brackets that are ordinary text: deleting these is not 'losing a closer'"""
    soup, _ = try_parse(src)
    skip = set()
    if soup is None:
        return None
    for obj, pos, text in all_positioned(soup.expr):
        if isinstance(obj, D.TexText):
            for k, ch in enumerate(text):
                if ch in '}]':
                    skip.add(pos + k)
    return skip


def oracle_C07(tier):
    cases, _ = c06_inputs(tier, prop='C07')
    res = Result('oracle-C07')
    for r in pmap(_c07_chunk, chunked(cases, NPROC * 4)):
        res.merge(r)
    n, depth = (150, 3) if tier == 'quick' else (1500, 4)
    rep = []
    for s, els in plain_docs('C07', n, depth):
        skip = free_closer_positions(s)
        if skip is None:
            continue
        for damaged, deleted, at in closer_deletions(s):
            if at in skip:
                continue
            # a free `]` later in the text may legitimately close a bracket
            # argument that lost its own `]`
            rep.append((damaged, deleted, at))
    for r in pmap(_c07_repair_chunk, chunked(rep, NPROC * 2)):
        res.merge(r)
    return res


# ------------------------------------------------------------------- C08

def _c08_chunk(cases):
    r = Result('oracle-C08')
    for src in cases:
        if '\x00' in src or '\x7f' in src:
            continue
        soup, err = try_parse(src)
        r.saw(src, nontrivial=soup is not None and len(src) > 1)
        if soup is None:
            r.count('skipped:' + err)
            continue
        if not sig_args_braced(soup) or has_bare_sig_arg(src):
            r.count('skipped:bare-token-argument')
            continue
        out = str(soup)
        r.count('identical' if out == src else 'normalised')
        d = removed_arg_space_alignment(src, out)
        if d is not None:
            r.fail(Failure('C08', 'characters-not-conserved', src, out, d))
    return r


def c08_inputs(tier, prop='C08'):
    rng = rng_for(prop, 'inputs')
    if tier == 'quick':
        cl, kl, nd, per, nr = 3, 3, 40, 60, 3000
    else:
        cl, kl, nd, per, nr = 4, 4, 300, 200, 40000
    cases = list(gen.strings_upto(gen.CHAR_ALPHABET_NO_IGN, cl))
    cases += list(gen.strings_upto(gen.KIND_ALPHABET_NO_IGN, kl))
    cases += gen.env_edge_cases() + gen.odd_char_cases() + gen.ascii_boundary_cases()
    nex = len(cases)
    docs = [s for s, _ in inputs.grammar_docs(prop, nd, 3, spaced=True, maxchars=400)]
    cases += docs
    cases += mutants_of(docs, rng, per)
    cases += list(gen.random_strings(rng, gen.KIND_ALPHABET_NO_IGN, nr, 5, 9))
    return cases, nex


def oracle_C08(tier):
    cases, nex = c08_inputs(tier)
    res = Result('oracle-C08')
    for r in pmap(_c08_chunk, chunked(cases, NPROC * 4)):
        res.merge(r)
    res.notes.append('exhaustive part: %d strings' % nex)
    return res


# ------------------------------------------------------------------- C16

def _c16_chunk(cases):
    r = Result('oracle-C16')
    for src in cases:
        if '\x00' in src or '\x7f' in src:
            continue
        soup, err = try_parse(src)
        r.saw(src, nontrivial=soup is not None and len(src) > 1)
        if soup is None:
            r.count('skipped:' + err)
            continue
        if not sig_args_braced(soup) or has_bare_sig_arg(src):
            r.count('skipped:bare-token-argument')
            continue
        if re.search(r'\\(left|right|big|Big|bigg|Bigg)(?![a-zA-Z(<>\[\]{}.|)\\])', src) or \
                re.search(r'\\(left|right|big|Big|bigg|Bigg)$', src):
            r.count('skipped:sizing-prefix-without-delimiter')
            continue
        t = str(soup)
        soup2, err2 = try_parse(t)
        if soup2 is None:
            r.fail(Failure('C16', 'output-does-not-reparse', src,
                           {'output': t, 'error': err2}, 're-parse succeeds'))
            continue
        if str(soup2) != t:
            r.fail(Failure('C16', 'second-pass-drifts', src,
                           {'first': t, 'second': str(soup2)}, 'identical text'))
        elif repr(soup2.expr) != repr(soup.expr):
            r.fail(Failure('C16', 'second-pass-different-tree', src,
                           {'first': repr(soup.expr), 'second': repr(soup2.expr)},
                           'identical shape'))
        r.count('fixed-point-checked')
    return r


def oracle_C16(tier):
    cases, nex = c08_inputs(tier, prop='C16')
    # names that are re-classified by the parser when their padding is lost
    try:
        from TexSoup.tokens import MATH_ENV_NAMES, SKIP_ENV_NAMES
        for nm in list(SKIP_ENV_NAMES) + list(MATH_ENV_NAMES)[:6] + ['a']:
            for pad in (' ', '\n', '  '):
                for body in ('\\foo{a}', '\\item one', 'x $y$', '{', 'a % c\n b'):
                    cases.append('\\begin{%s%s}%s\\end{%s}' % (nm, pad, body, nm))
                    cases.append('\\begin{%s%s}%s\\end{%s%s}' % (pad, nm, body, nm, pad))
                    cases.append('\\begin{%s}%s\\end{%s%s}' % (nm, body, nm, pad))
                    cases.append('\\begin{%s}%s\\end{%s%s}' % (nm, body, pad, nm))
            for body in ('x', '\\foo{a}'):
                cases.append('\\begin{%s%%\n}%s\\end{%s%%\n}' % (nm, body, nm))
                cases.append('\\begin{%s%%c\n}%s\\end{%s}' % (nm, body, nm))
                cases.append('\\begin{%s}%s\\end{%s%%c\n}' % (nm, body, nm))
    except Exception:      # noqa
        pass
    res = Result('oracle-C16')
    for r in pmap(_c16_chunk, chunked(cases, NPROC * 4)):
        res.merge(r)
    res.notes.append('exhaustive part: %d strings' % nex)
    return res


# ------------------------------------------------------------------- C19

def _c19_cat_chunk(rng_):
    lo, hi = rng_
    r = Result('oracle-C19-cat')
    from TexSoup.category import CATEGORY_CODES
    from TexSoup.utils import CC
    tables = [(cc, v) for cc, v in CATEGORY_CODES.items()]
    bad = 0
    for cp in range(lo, hi):
        ch = chr(cp)
        try:
            toks = list(impl.categorize(ch))
        except BaseException as e:  # noqa
            r.fail(Failure('C19', 'categorize-raises', [cp], type(e).__name__, 'one category'))
            continue
        r.evaluations += 1
        if len(toks) != 1 or toks[0].position != 0 or str(toks[0]) != ch \
                or toks[0].category not in CC:
            r.fail(Failure('C19', 'categorize', [cp],
                           [(str(t), t.position, str(t.category)) for t in toks],
                           'one token, position 0, a category'))
            continue
        holders = [cc for cc, v in tables if ch in v]
        if len(holders) > 1:
            r.fail(Failure('C19', 'two-categories', [cp],
                           [c.name for c in holders], 'exactly one category'))
        r.count('cat:' + toks[0].category.name)
    r.nontrivial = set(range(lo, min(hi, lo + 3)))
    return r


def check_partition(src, toks):
    """toks = [(text, pos, cat)]; returns None or a description"""
    kept = ''.join(t for t, _, _ in toks)
    want = ''.join(c for c in src if c not in '\x00\x7f')
    if kept != src and kept != want:
        # NUL/DEL may only be dropped (each independently)
        i = j = 0
        while i < len(src) and j < len(kept):
            if src[i] == kept[j]:
                i += 1
                j += 1
            elif src[i] in '\x00\x7f':
                i += 1
            else:
                break
        while i < len(src) and src[i] in '\x00\x7f':
            i += 1
        if i < len(src) or j < len(kept):
            return 'concatenation %r is not the input' % kept
    for t, p, c in toks:
        if t == '':
            return 'empty token at %s' % p
        if p is None or src[p:p + 1] != t[0]:
            return 'token %r records offset %r' % (t, p)
        # the token's text occurs from p, skipping ignored characters
        i = p
        for ch in t:
            while i < len(src) and src[i] != ch and src[i] in '\x00\x7f':
                i += 1
            if i >= len(src) or src[i] != ch:
                return 'token %r is not at offset %r' % (t, p)
            i += 1
    return None


def _c19_tok_chunk(cases):
    r = Result('oracle-C19-tok')
    for src in cases:
        r.saw(src, nontrivial=len(src) > 1)
        try:
            toks = impl.tokens_of(src)
        except BaseException as e:  # noqa
            r.fail(Failure('C19', 'tokenize-raises', src, type(e).__name__,
                           'a token list'))
            continue
        try:
            cats = list(impl.categorize(src))
        except BaseException as e:  # noqa
            r.fail(Failure('C19', 'categorize-raises', src, type(e).__name__, 'one categorised character per character'))
            continue
        if [str(c) for c in cats] != list(src) or [c.position for c in cats] != list(range(len(src))):
            r.fail(Failure('C19', 'categorize-sequence', src, 'chars/positions differ',
                           'character i at index i'))
        d = check_partition(src, toks)
        if d is not None:
            r.fail(Failure('C19', 'partition', src, [list(t) for t in toks], d))
    return r


def oracle_C19(tier):
    res = Result('oracle-C19')
    step = 0x110000 // (NPROC * 4) + 1
    ranges = [(lo, min(0x110000, lo + step)) for lo in range(0, 0x110000, step)]
    for r in pmap(_c19_cat_chunk, ranges):
        res.merge(r)
    res.notes.append('all 1,114,112 code points categorised individually')
    rng = rng_for('C19', 'inputs')
    cl = 4 if tier == 'quick' else 5
    cases = list(gen.strings_upto(gen.CHAR_ALPHABET, cl))
    nex = len(cases)
    cases += list(gen.random_strings(rng, gen.CHAR_ALPHABET + ['l', 'e', 'f', 't', 'b', 'i', 'g'],
                                     3000 if tier == 'quick' else 60000, cl + 1, 24))
    cases += [s for s, _ in inputs.grammar_docs('C19', 100, 3)]
    cases += ['\\left.|', '\\left(', '\\right\\rangle x', '\\Bigg\\{', '\\big|', '\\bigg.']
    # characters that only NUL/DEL-like handling could drop: every odd
    # white-space / format / control character at every kind of token boundary,
    # and each alone, doubled and between structure characters
    cases += gen.odd_char_cases() + gen.ascii_boundary_cases()
    for ch in gen.ODD_CHARS + ['\x02', '\x7e', '\x81', '\u200b', '\u200e', '\ufffe', '\U000e0001']:
        cases += [ch, ch + ch, ch + '\\x', '{' + ch + '}', '$' + ch + '$', 'a' + ch + 'b', ch + '%c\n', '\\' + ch]
    for r in pmap(_c19_tok_chunk, chunked(cases, NPROC * 4)):
        res.merge(r)
    res.notes.append('exhaustive: all %d strings of length <= %d over the %d-symbol '
                     'character alphabet' % (nex, cl, len(gen.CHAR_ALPHABET)))
    return res


# ------------------------------------------------------------------- C13

def clo_expected(src, i):
    line = src.count('\n', 0, i)
    last = src.rfind('\n', 0, i)
    return (line, i - last - 1)


def _c13_clo_chunk(cases):
    r = Result('oracle-C13-clo')
    for src in cases:
        clo = impl.CharToLineOffset(src)
        for i in range(len(src)):
            r.saw((src, i), nontrivial='\n' in src)
            got = clo(i)
            if tuple(got) != clo_expected(src, i):
                r.fail(Failure('C13', 'line-column', src, list(got),
                               list(clo_expected(src, i)), opts={'offset': i}))
    return r


REGEX_FAMILY = [r'[a-z]+', r'\d', r'\s+', 'a', r'x y', r'[A-Z][a-z]*', r'.', r'\\?\w']


def _c13_pos_chunk(cases):
    r = Result('oracle-C13-pos')
    for src in cases:
        soup, err = try_parse(src)
        r.saw(src, nontrivial=len(src) > 3)
        if soup is None:
            r.fail(Failure('C13', 'parse-fails', src, err, 'parse succeeds'))
            continue
        for obj, pos, text in all_positioned(soup.expr):
            if isinstance(obj, (D.TexText, Token)):
                ok = src[pos:pos + len(text)] == text
                first = text
            else:
                cls = type(obj).__name__
                if cls == 'TexCmd':
                    first = '\\' + str(obj.name)
                elif cls == 'TexNamedEnv':
                    first = '\\begin'
                else:
                    first = obj.begin
                ok = src.startswith(first, pos)
            r.count('positions')
            if not ok:
                r.fail(Failure('C13', 'position', src,
                               {'node': text, 'position': pos,
                                'source_there': src[pos:pos + 12]},
                               'source starts with %r at the recorded position' % first))
                break
        if src.count('\n') and soup.char_to_line is not None:
            for i in range(len(src)):
                if tuple(soup.char_pos_to_line(i)) != clo_expected(src, i):
                    r.fail(Failure('C13', 'line-column', src, list(soup.char_pos_to_line(i)),
                                   list(clo_expected(src, i)), opts={'offset': i}))
                    break
        if not sig_args_braced(soup):
            # a bare-token argument is stored as a plain str without position:
            # outside the property's grammar (arguments are groups); search_regex
            # raises AttributeError there - recorded as an observation in DESIGN.md
            r.count('skipped:search_regex-on-bare-token-argument')
            continue
        for pat in REGEX_FAMILY:
            try:
                ms = list(soup.search_regex(pat))
            except BaseException as e:  # noqa
                r.fail(Failure('C13', 'search_regex-raises', src, type(e).__name__,
                               'matches', opts={'pattern': pat}))
                continue
            for m in ms:
                r.count('regex-matches')
                if src[m.position:m.position + len(str(m))] != str(m):
                    r.fail(Failure('C13', 'search_regex-offset', src,
                                   {'match': str(m), 'position': m.position,
                                    'source_there': src[m.position:m.position + len(str(m))]},
                                   'source[position:][:len(match)] == match',
                                   opts={'pattern': pat}))
                    break
    return r


def oracle_C13(tier):
    res = Result('oracle-C13')
    ln = 8 if tier == 'quick' else 11
    cases = list(gen.strings_upto(['a', '\n'], ln))
    for r in pmap(_c13_clo_chunk, chunked(cases, NPROC * 2)):
        res.merge(r)
    res.notes.append('line/column map: all %d strings of length <= %d over {letter, LF}, '
                     'every offset' % (len(cases), ln))
    n, depth = (300, 3) if tier == 'quick' else (3000, 5)
    docs = [s for s, _ in inputs.grammar_docs('C13', n, depth)]
    docs += [s for s, _ in inputs.grammar_docs('C13', n // 2, depth, spaced=True, salt='sp')]
    docs += inputs.repo_samples()
    # nodes that only hang off argument lists: bare command / bare token arguments
    docs += ['\\def\\foo{bar} and \\textbf\\foo', 'x \\section\\bar{y} \\label\\baz',
             'a \\textbf b \\def\\x\\y z', '\\begin{a}\\textbf\\q\\end{a}',
             'pre\n\\begin{verbatim}\n  raw \\stuff{ %\n\\end{verbatim}\npost',
             'x\\begin{lstlisting}a b\\end{lstlisting}\n\\begin{zz}q\\end{zz}']
    for r in pmap(_c13_pos_chunk, chunked(docs, NPROC * 2)):
        res.merge(r)
    return res
