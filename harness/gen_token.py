#!/venv/bin/python
"""Translator: regenerate coq/theories/Model/TokenGen.v from class `Token` of
$TEXSOUP_REPO/TexSoup/utils.py (default /repo).

Every def of the class (__new__, __repr__, __str__, __getattr__, __eq__,
__hash__, __add__, __radd__, __iadd__, join, __bool__, __contains__, __iter__,
the private generator __iter, __getitem__, strip, lstrip, rstrip) and the
module-level statement `Token.Empty = ...` are read with the Python `ast`
module only (nothing is imported or executed) and written as terms of the
language of coq/theories/Model/TokenDSL.v, one Coq constructor per Python
construct.  Proofs/TokenGenProofs.v then proves that interpreting each
generated term is the hand-written token operation of Model/TokenSpec.v -- the
reading of `Token` that the other interpreters (TokDSL, BufDSL, GlueDSL,
ReadDSL, ViewDSL, EditDSL) build in.

Fail-closed: any statement or expression shape that is not listed in
TokenDSL.v raises TranslationError, and so does everything around the class
that the interpreter's reading relies on: the set of defs and their
decorators, the bases of the class, class-level assignments, a rebinding of
Token / str / int / isinstance / len / bool / repr / hash / iter / getattr /
enumerate, another assignment to an attribute of Token anywhere in the
package, setattr/delattr/exec/eval.

Before translation every def is normalised (norm_utils.py; each rewrite
preserves behaviour): calls of small module-level helper functions (plain
positional parameters, straight-line assignments and one return) are inlined;
`return E[a if c else b]` with c an isinstance / `is None` test of a name is
written as an if statement; early returns are written as else branches;
`x = ..` at the end of every branch followed by `return x` is written as a
return in every branch (so __add__ and __iadd__ translate to the same body).

The output depends on the abstract syntax only: comments, docstrings, layout,
annotations, the order of the defs and the names of parameters, locals and
comprehension variables do not change it (variables are numbered: parameters
first, then *args / **kwargs, then locals and comprehension variables in order
of first binding).  Keyword arguments of Token(...) are put into their
positions using the parameter list of __new__ being translated.

Usage: gen_token.py <out.v>       exit 0 = written (only if content changed)
                                  exit 2 = translation failed (message on stderr)
"""
import ast
import glob
import os
import sys

sys.path.insert(0, os.path.dirname(os.path.abspath(__file__)))
import norm_utils  # noqa: E402

REPO = os.environ.get('TEXSOUP_REPO', '/repo')


class TranslationError(Exception):
    pass


def need(cond, msg):
    if not cond:
        raise TranslationError(msg)


def where(n):
    return 'line %s' % getattr(n, 'lineno', '?')


def shape(n):
    return ast.dump(n)[:120]


def is_name(n, ident):
    return isinstance(n, ast.Name) and n.id == ident


def strip_doc(body):
    if body and isinstance(body[0], ast.Expr) and isinstance(body[0].value, ast.Constant) \
            and isinstance(body[0].value.value, str):
        return body[1:]
    return body


# python name -> (Coq constructor of TokenDSL.meth, name of the generated definition)
METHODS = [
    ('__new__', 'M_new', 'gen_new'), ('__repr__', 'M_repr', 'gen_repr'), ('__str__', 'M_str', 'gen_str'),
    ('__getattr__', 'M_getattr', 'gen_getattr'), ('__eq__', 'M_eq', 'gen_eq'),
    ('__hash__', 'M_hash', 'gen_hash'), ('__add__', 'M_add', 'gen_add'), ('__radd__', 'M_radd', 'gen_radd'),
    ('__iadd__', 'M_iadd', 'gen_iadd'), ('join', 'M_join', 'gen_join'), ('__bool__', 'M_bool', 'gen_bool'),
    ('__contains__', 'M_contains', 'gen_contains'), ('__iter__', 'M_iter', 'gen_iter'),
    ('__iter', 'M_priv_iter', 'gen_priv_iter'), ('__getitem__', 'M_getitem', 'gen_getitem'),
    ('strip', 'M_strip', 'gen_strip'), ('lstrip', 'M_lstrip', 'gen_lstrip'), ('rstrip', 'M_rstrip', 'gen_rstrip'),
]
METHOD_NAMES = [m[0] for m in METHODS]
BUILTINS = ('Token', 'str', 'int', 'isinstance', 'len', 'bool', 'repr', 'hash', 'iter', 'getattr',
            'enumerate')
UNARY_BUILTINS = {'bool': 'EBoolOf', 'len': 'ELen', 'str': 'EStrOf', 'repr': 'EReprOf',
                  'hash': 'EHashOf', 'iter': 'EIterOf', 'enumerate': 'EEnumerate'}
CLASSES = {'Token': 'KToken', 'int': 'KInt', 'str': 'KStr'}
CMP = {ast.Eq: 'CEq', ast.NotEq: 'CNe', ast.Lt: 'CLt', ast.LtE: 'CLe', ast.Gt: 'CGt', ast.GtE: 'CGe',
       ast.In: 'CIn', ast.NotIn: 'CNotIn'}
SAFE = set('abcdefghijklmnopqrstuvwxyzABCDEFGHIJKLMNOPQRSTUVWXYZ0123456789_ -.,:;!?()[]{}<>=+*/%#@&|^~$')


def zlit(v):
    return '%d%%Z' % v if v >= 0 else '(%d)%%Z' % v


def pystr(s):
    """a Python str as a Coq term of type Base.str"""
    if all(c in SAFE for c in s):
        return '(py "%s")' % s
    return '[%s]%%N' % '; '.join(str(ord(c)) for c in s)


def const_value(n, what):
    """a constant default value as a TokenDSL.value"""
    if isinstance(n, ast.Constant):
        v = n.value
        if v is None:
            return 'VNone'
        if v is True or v is False:
            return 'VBool %s' % ('true' if v else 'false')
        if type(v) is int:
            return 'VInt %s' % zlit(v)
        if type(v) is str:
            return 'VStr %s' % pystr(v)
    raise TranslationError('%s: unsupported default %s' % (what, shape(n)))


def const_expr(n, what):
    """the same constant as a TokenDSL.expr"""
    v = n.value
    if v is None:
        return 'ENone'
    if v is True or v is False:
        return 'EBool %s' % ('true' if v else 'false')
    if type(v) is int:
        return 'EInt %s' % zlit(v)
    if type(v) is str:
        return 'EStr %s' % pystr(v)
    raise TranslationError('%s: unsupported constant %s' % (what, shape(n)))


# --------------------------------------------------------------------- module

def check_package():
    """nobody outside utils.py patches the class"""
    for path in sorted(glob.glob(os.path.join(REPO, 'TexSoup', '*.py'))):
        if os.path.basename(path) == 'utils.py':
            continue
        with open(path) as f:
            tree = ast.parse(f.read())
        for n in ast.walk(tree):
            if isinstance(n, (ast.Assign, ast.AugAssign, ast.AnnAssign, ast.Delete)):
                tg = n.targets if isinstance(n, (ast.Assign, ast.Delete)) else [n.target]
                for t in tg:
                    for x in ast.walk(t):
                        need(not (isinstance(x, ast.Attribute) and is_name(x.value, 'Token')),
                             '%s assigns an attribute of Token at %s' % (os.path.basename(path), where(n)))
            if isinstance(n, ast.Call) and isinstance(n.func, ast.Name) and n.func.id in ('setattr', 'delattr') \
                    and n.args and is_name(n.args[0], 'Token'):
                raise TranslationError('%s: %s(Token, ...) at %s' % (os.path.basename(path), n.func.id, where(n)))


def check_module(tree):
    """Everything outside the def bodies that the translation relies on.
    Returns (ClassDef of Token, the value expression of Token.Empty = ...)."""
    need(isinstance(tree, ast.Module), 'not a module')
    bound = {}
    empty = []

    def bind(name, how):
        bound.setdefault(name, []).append(how)

    for st in tree.body:
        if isinstance(st, ast.ImportFrom):
            for a in st.names:
                need(a.name != '*', 'star import at %s' % where(st))
                bind(a.asname or a.name, 'import')
        elif isinstance(st, ast.Import):
            for a in st.names:
                bind((a.asname or a.name).split('.')[0], 'import')
        elif isinstance(st, ast.FunctionDef):
            bind(st.name, 'def')
        elif isinstance(st, ast.ClassDef):
            bind(st.name, 'class')
        elif isinstance(st, (ast.Assign, ast.AnnAssign)):
            tg = st.targets if isinstance(st, ast.Assign) else [st.target]
            for t in tg:
                if isinstance(t, ast.Attribute) and is_name(t.value, 'Token'):
                    need(t.attr == 'Empty' and len(tg) == 1 and st.value is not None,
                         'assignment to Token.%s at %s' % (t.attr, where(st)))
                    empty.append(st.value)
                    continue
                for x in ast.walk(t):
                    if isinstance(x, ast.Name):
                        bind(x.id, 'assign')
                    elif isinstance(x, ast.Attribute):
                        raise TranslationError('module-level attribute assignment at %s' % where(st))
        elif isinstance(st, ast.Expr) and isinstance(st.value, ast.Constant):
            pass
        else:
            raise TranslationError('unexpected module-level statement at %s: %s' % (where(st), shape(st)))
    need(bound.get('Token') == ['class'], 'module-level binding of Token changed: %s' % bound.get('Token'))
    need(len(empty) == 1, '`Token.Empty = ...` is missing or repeated')
    for nm in BUILTINS:
        need(nm == 'Token' or nm not in bound, 'builtin %s is rebound at module level' % nm)
    cl = [st for st in tree.body if isinstance(st, ast.ClassDef) and st.name == 'Token'][0]
    need(len(cl.bases) == 1 and is_name(cl.bases[0], 'str') and not cl.keywords and not cl.decorator_list,
         'bases/decorators of Token changed')
    inside = set(id(x) for x in ast.walk(cl))
    for n in ast.walk(tree):
        need(not isinstance(n, (ast.Global, ast.Nonlocal, ast.Delete)),
             'global/nonlocal/del at %s' % where(n))
        if isinstance(n, ast.Call) and isinstance(n.func, ast.Name) \
                and n.func.id in ('setattr', 'delattr', 'exec', 'eval', '__import__'):
            raise TranslationError('%s(...) at %s' % (n.func.id, where(n)))
        # the only assignment to an attribute of the class object is Token.Empty
        if isinstance(n, ast.Attribute) and is_name(n.value, 'Token') and not isinstance(n.ctx, ast.Load):
            need(n.attr == 'Empty' and id(n) not in inside,
                 'assignment to Token.%s at %s' % (n.attr, where(n)))
    return cl, empty[0]


def class_methods(cl, complete=True):
    """name -> (FunctionDef, kind).  complete=False (used by gen_buffer.py to read
    only the defs its interpreter builds in) skips the check of the set of defs."""
    meths = {}
    for st in strip_doc(cl.body):
        need(isinstance(st, ast.FunctionDef),
             'unexpected statement in class Token at %s: %s' % (where(st), shape(st)))
        need(st.name not in meths, 'Token.%s is defined twice' % st.name)
        if len(st.decorator_list) == 1 and is_name(st.decorator_list[0], 'classmethod'):
            need(st.name != '__new__', 'Token.__new__ is a classmethod')
            kind = 'KClassmethod'
        else:
            need(not st.decorator_list, 'Token.%s has an unsupported decorator' % st.name)
            kind = 'KStaticNew' if st.name == '__new__' else 'KInstance'
        meths[st.name] = (st, kind)
    need(not complete or sorted(meths) == sorted(METHOD_NAMES),
         'the defs of class Token changed: %s' % sorted(meths))
    return meths


def reading_of(tree, names):
    """The translation of the defs `names` of class Token in `tree` and of the
    right-hand side of `Token.Empty = ...`, as comparable text: what another
    translator pins when its interpreter builds in the meaning of these defs
    (the theorems of Props/C13token.v are about exactly these terms)."""
    cl, empty = check_module(tree)
    meths = class_methods(cl, complete=False)
    need('__new__' in meths, 'Token.__new__ is missing')
    ctx = Ctx(meths['__new__'][0])
    helpers = norm_utils.helper_table(tree)
    out = {}
    for nm in names:
        need(nm in meths, 'Token.%s is missing' % nm)
        fn, kind = meths[nm]
        head, prog = translate_def(fn, kind, ctx, helpers)
        out[nm] = head + '\n' + '\n'.join(pp_block(prog, 0))
    out['Token.Empty'] = Scope('Token.Empty', ctx).ex(empty)
    return out


# -------------------------------------------------------------------- bodies

class Ctx(object):
    """what a body needs to know about the class: the parameters of __new__"""

    def __init__(self, new_fn):
        a = new_fn.args
        need(not a.vararg and not a.kwarg and not a.kwonlyargs and not getattr(a, 'posonlyargs', [])
             and len(a.args) >= 1, '__new__: unsupported parameter list')
        self.new_params = [x.arg for x in a.args[1:]]
        nd = len(a.defaults)
        need(nd <= len(self.new_params), '__new__: default for cls')
        self.new_defaults = [None] * (len(self.new_params) - nd) + list(a.defaults)


class Scope(object):
    """Translation of one def body (or of the module-level expression)."""

    def __init__(self, owner, ctx, params=(), vararg=None, kwarg=None):
        self.owner = owner
        self.ctx = ctx
        self.vars = {}
        self.nslots = 0
        for p in list(params) + [x for x in (vararg, kwarg) if x is not None]:
            need(p not in self.vars, '%s: repeated parameter %s' % (owner, p))
            self.vars[p] = self.nslots
            self.nslots += 1
        self.objvars = set()      # locals holding the object made by str.__new__

    def err(self, n, what):
        raise TranslationError('%s, %s: %s: %s' % (self.owner, where(n), what, shape(n)))

    def glob(self, n, ident):
        return is_name(n, ident) and ident not in self.vars

    def declare(self, node):
        if not isinstance(node, ast.Name):
            self.err(node, 'assignment target')
        nm = node.id
        need(nm not in BUILTINS, '%s: assignment to %s' % (self.owner, nm))
        if nm not in self.vars:
            self.vars[nm] = self.nslots
            self.nslots += 1
        return self.vars[nm]

    def attr_name(self, a):
        """name mangling of private names inside the class body"""
        if a.startswith('__') and not a.endswith('__') and a not in METHOD_NAMES:
            return '_Token' + a
        return a

    # ---- expressions
    def args(self, lst):
        return '(args_of [%s])' % '; '.join(self.ex(a) for a in lst)

    def token_call(self, n):
        """Token(...): keywords into positions, by the parameter list of __new__"""
        ps, ds = self.ctx.new_params, self.ctx.new_defaults
        for a in n.args:
            if isinstance(a, ast.Starred):
                self.err(n, 'starred argument of Token(...)')
        need(len(n.args) <= len(ps), '%s: too many arguments of Token(...) at %s' % (self.owner, where(n)))
        slots = [self.ex(a) for a in n.args] + [None] * (len(ps) - len(n.args))
        for k in n.keywords:
            need(k.arg is not None and k.arg in ps, '%s: keyword %s of Token(...) at %s' % (self.owner, k.arg, where(n)))
            i = ps.index(k.arg)
            need(slots[i] is None, '%s: argument %s of Token(...) given twice at %s' % (self.owner, k.arg, where(n)))
            slots[i] = ('kw', k.value)
        # Python evaluates positional arguments, then keyword values in source order
        order = [k.arg for k in n.keywords]
        need(order == sorted(order, key=ps.index), '%s: keywords of Token(...) out of parameter order at %s'
             % (self.owner, where(n)))
        while slots and slots[-1] is None:
            slots.pop()
        out = []
        for i, s in enumerate(slots):
            if s is None:
                need(ds[i] is not None, '%s: missing argument %s of Token(...) at %s' % (self.owner, ps[i], where(n)))
                need(isinstance(ds[i], ast.Constant), '__new__: default of %s is not a constant' % ps[i])
                out.append(const_expr(ds[i], '__new__'))
            elif isinstance(s, tuple):
                out.append(self.ex(s[1]))
            else:
                out.append(s)
        return 'ECallCls (args_of [%s])' % '; '.join(out)

    def ex(self, n):
        if isinstance(n, ast.Constant):
            if n.value is None or type(n.value) in (bool, int, str):
                return const_expr(n, self.owner)
            self.err(n, 'unsupported constant')
        if isinstance(n, ast.Name):
            need(isinstance(n.ctx, ast.Load), 'name context')
            if n.id in self.vars:
                need(n.id not in self.objvars, '%s: the object under construction %s is used as a value at %s'
                     % (self.owner, n.id, where(n)))
                return 'EVar %d%%nat' % self.vars[n.id]
            if n.id == 'Token':
                return 'ECls'
            self.err(n, 'name that is neither a parameter, a local nor Token')
        if isinstance(n, ast.Attribute):
            need(isinstance(n.ctx, ast.Load), 'attribute context')
            if isinstance(n.value, ast.Name) and n.value.id in self.objvars:
                base = 'EVar %d%%nat' % self.vars[n.value.id]
            else:
                base = self.ex(n.value)
            return 'EAttr (%s) %s' % (base, pystr(self.attr_name(n.attr)))
        if isinstance(n, ast.UnaryOp):
            if isinstance(n.op, ast.Not):
                return 'ENot (%s)' % self.ex(n.operand)
            if isinstance(n.op, ast.USub) and isinstance(n.operand, ast.Constant) \
                    and type(n.operand.value) is int:
                return 'EInt %s' % zlit(-n.operand.value)
            self.err(n, 'unsupported unary operator')
        if isinstance(n, ast.BinOp):
            if isinstance(n.op, ast.Add):
                return 'EAdd (%s) (%s)' % (self.ex(n.left), self.ex(n.right))
            if isinstance(n.op, ast.Sub):
                return 'ESub (%s) (%s)' % (self.ex(n.left), self.ex(n.right))
            self.err(n, 'unsupported binary operator')
        if isinstance(n, ast.BoolOp):
            ctor = {ast.And: 'EAnd', ast.Or: 'EOr'}.get(type(n.op))
            need(ctor is not None and len(n.values) >= 2, 'boolean operator')
            parts = [self.ex(v) for v in n.values]
            out = parts[-1]
            for p in reversed(parts[:-1]):
                out = '%s (%s) (%s)' % (ctor, p, out)
            return out
        if isinstance(n, ast.Compare):
            if len(n.ops) != 1 or len(n.comparators) != 1:
                self.err(n, 'chained comparison')
            op, lhs, rhs = type(n.ops[0]), n.left, n.comparators[0]
            if op in (ast.Is, ast.IsNot):
                need(isinstance(rhs, ast.Constant) and rhs.value is None,
                     '%s: `is` with something other than None at %s' % (self.owner, where(n)))
                t = 'EIsNone (%s)' % self.ex(lhs)
                return t if op is ast.Is else 'ENot (%s)' % t
            if op in CMP:
                return 'ECmp %s (%s) (%s)' % (CMP[op], self.ex(lhs), self.ex(rhs))
            self.err(n, 'unsupported comparison')
        if isinstance(n, ast.Subscript):
            need(isinstance(n.ctx, ast.Load), 'subscript context')
            idx = n.slice
            if isinstance(idx, (ast.Slice, ast.Tuple, ast.Starred)):
                self.err(n, 'unsupported subscript (literal slice / tuple)')
            return 'EIndex (%s) (%s)' % (self.ex(n.value), self.ex(idx))
        if isinstance(n, ast.GeneratorExp):
            g = n.generators
            need(len(g) == 1 and not g[0].is_async and not g[0].ifs and isinstance(g[0].target, ast.Name),
                 '%s: unsupported generator expression at %s' % (self.owner, where(n)))
            it = self.ex(g[0].iter)                 # evaluated in the enclosing scope
            nm = g[0].target.id
            need(nm not in BUILTINS, '%s: comprehension variable %s' % (self.owner, nm))
            slot = self.nslots
            self.nslots += 1
            saved = self.vars.get(nm)
            was_obj = nm in self.objvars
            self.objvars.discard(nm)
            self.vars[nm] = slot
            elt = self.ex(n.elt)
            if saved is None:
                del self.vars[nm]
            else:
                self.vars[nm] = saved
            if was_obj:
                self.objvars.add(nm)
            return 'EGenExp %d%%nat (%s) (%s)' % (slot, elt, it)
        if isinstance(n, ast.Call):
            f, a = n.func, n.args
            if isinstance(f, ast.Name) and f.id not in self.vars:
                if f.id == 'Token':
                    return self.token_call(n)
                need(not n.keywords and not any(isinstance(x, ast.Starred) for x in a),
                     '%s: keyword/starred argument of %s(...) at %s' % (self.owner, f.id, where(n)))
                if f.id == 'isinstance' and len(a) == 2 and isinstance(a[1], ast.Name) \
                        and a[1].id in CLASSES and a[1].id not in self.vars:
                    return 'EIsInstance (%s) %s' % (self.ex(a[0]), CLASSES[a[1].id])
                if f.id in UNARY_BUILTINS and len(a) == 1:
                    return '%s (%s)' % (UNARY_BUILTINS[f.id], self.ex(a[0]))
                if f.id == 'getattr' and len(a) == 2:
                    return 'EGetattr (%s) (%s)' % (self.ex(a[0]), self.ex(a[1]))
                self.err(n, 'unsupported call')
            if isinstance(f, ast.Attribute):
                if self.glob(f.value, 'str') and f.attr == '__new__':
                    need(len(a) == 2 and not n.keywords and not any(isinstance(x, ast.Starred) for x in a),
                         '%s: str.__new__ arity at %s' % (self.owner, where(n)))
                    return 'ENewStr (%s) (%s)' % (self.ex(a[0]), self.ex(a[1]))
                need(not (isinstance(f.value, ast.Name) and f.value.id in self.objvars),
                     '%s: method call on the object under construction at %s' % (self.owner, where(n)))
                recv = self.ex(f.value)
                m = pystr(self.attr_name(f.attr))
                star = [x for x in a if isinstance(x, ast.Starred)]
                kws = n.keywords
                if not star and not kws:
                    return 'ECallMeth (%s) %s %s' % (recv, m, self.args(a))
                need(len(star) == 1 and a[-1] is star[0] and len(kws) == 1 and kws[0].arg is None,
                     '%s: only e.m(args, *s, **k) is supported at %s' % (self.owner, where(n)))
                return 'ECallMethSK (%s) %s %s (%s) (%s)' % (recv, m, self.args(a[:-1]),
                                                              self.ex(star[0].value), self.ex(kws[0].value))
            self.err(n, 'unsupported call')
        self.err(n, 'unsupported expression')

    # ---- statements -> ('atom', text) | ('if', c, a, b) | ('for', targets, it, b)
    def stmt(self, s):
        if isinstance(s, ast.Pass):
            return None
        if isinstance(s, ast.Expr):
            v = s.value
            if isinstance(v, ast.Yield):
                need(v.value is not None, '%s: bare yield' % self.owner)
                return ('atom', 'SYield (%s)' % self.ex(v.value))
            if isinstance(v, ast.Constant):
                self.err(s, 'constant expression statement')
            return ('atom', 'SExpr (%s)' % self.ex(v))
        if isinstance(s, (ast.Assign, ast.AnnAssign)):
            if isinstance(s, ast.Assign):
                need(len(s.targets) == 1, '%s: chained assignment at %s' % (self.owner, where(s)))
                t, v = s.targets[0], s.value
            else:
                t, v = s.target, s.value
                need(v is not None, '%s: annotation without a value at %s' % (self.owner, where(s)))
            if isinstance(t, ast.Attribute):
                need(isinstance(t.value, ast.Name) and t.value.id in self.objvars,
                     '%s: attribute assignment on something other than the object under construction at %s'
                     % (self.owner, where(s)))
                return ('atom', 'SSetAttr %d%%nat %s (%s)' % (self.vars[t.value.id],
                                                             pystr(self.attr_name(t.attr)), self.ex(v)))
            val = self.ex(v)
            x = self.declare(t)
            need(t.id not in self.objvars, '%s: the object under construction is re-bound at %s'
                 % (self.owner, where(s)))
            if val.startswith('ENewStr '):
                need(t.id in self.fresh_ok, '%s: %s holds the new object but is also used otherwise'
                     % (self.owner, t.id))
                self.objvars.add(t.id)
            return ('atom', 'SAssign %d%%nat (%s)' % (x, val))
        if isinstance(s, ast.Return):
            if isinstance(s.value, ast.Name) and s.value.id in self.objvars:
                return ('atom', 'SReturn (EVar %d%%nat)' % self.vars[s.value.id])
            return ('atom', 'SReturn (%s)' % (self.ex(s.value) if s.value is not None else 'ENone'))
        if isinstance(s, ast.If):
            c = self.ex(s.test)
            return ('if', c, self.block(s.body), self.block(s.orelse))
        if isinstance(s, ast.For):
            need(not s.orelse, '%s: for-else' % self.owner)
            it = self.ex(s.iter)
            if isinstance(s.target, ast.Tuple):
                need(len(s.target.elts) >= 2, '%s: for target' % self.owner)
                ids = [self.declare(e) for e in s.target.elts]
                need(len(set(ids)) == len(ids), '%s: repeated loop target at %s' % (self.owner, where(s)))
            else:
                ids = [self.declare(s.target)]
            for e in (s.target.elts if isinstance(s.target, ast.Tuple) else [s.target]):
                need(e.id not in self.objvars, '%s: loop target is the object under construction' % self.owner)
            return ('for', ids, it, self.block(s.body))
        self.err(s, 'unsupported statement')

    def block(self, body):
        return [x for x in (self.stmt(s) for s in body) if x is not None]


def object_vars(fn):
    """locals that may hold the object made by str.__new__: bound exactly once,
    by `x = str.__new__(..)`, and otherwise used only as `x.a`, `x.a = ..` and
    `return x` -- so no second reference to the object exists while the body
    assigns its attributes"""
    uses = {}
    parent = {}
    for p in ast.walk(fn):
        for c in ast.iter_child_nodes(p):
            parent[id(c)] = p
    for n in ast.walk(fn):
        if isinstance(n, ast.Name):
            p = parent.get(id(n))
            if isinstance(n.ctx, ast.Store):
                ok = isinstance(p, ast.Assign) and len(p.targets) == 1 and p.targets[0] is n \
                    and isinstance(p.value, ast.Call) and isinstance(p.value.func, ast.Attribute) \
                    and is_name(p.value.func.value, 'str') and p.value.func.attr == '__new__'
                kind = 'bind' if ok else 'bad'
            elif isinstance(p, ast.Attribute) and p.value is n:
                pp = parent.get(id(p))
                # x.a(...) would hand the object to a method: not allowed
                kind = 'bad' if (isinstance(pp, ast.Call) and pp.func is p) else 'attr'
            elif isinstance(p, ast.Return) and p.value is n:
                kind = 'return'
            else:
                kind = 'bad'
            uses.setdefault(n.id, []).append(kind)
    params = set(x.arg for x in fn.args.args)
    if fn.args.vararg:
        params.add(fn.args.vararg.arg)
    if fn.args.kwarg:
        params.add(fn.args.kwarg.arg)
    return set(nm for nm, ks in uses.items()
               if nm not in params and ks.count('bind') == 1 and 'bad' not in ks)


def default_values(fn):
    a = fn.args
    nd = len(a.defaults)
    need(nd <= len(a.args) - 1, '%s: default for the first parameter' % fn.name)
    return ['None'] * (len(a.args) - nd) + ['Some (%s)' % const_value(d, fn.name) for d in a.defaults]


def total_test(e):
    """a condition that cannot fail and has no effect: isinstance(name, Token/int/str),
    `name is None`, `name is not None`, `not` of one"""
    if isinstance(e, ast.UnaryOp) and isinstance(e.op, ast.Not):
        return total_test(e.operand)
    if isinstance(e, ast.Call) and is_name(e.func, 'isinstance') and len(e.args) == 2 and not e.keywords:
        return isinstance(e.args[0], ast.Name) and isinstance(e.args[1], ast.Name) and e.args[1].id in CLASSES
    if isinstance(e, ast.Compare) and len(e.ops) == 1 and isinstance(e.ops[0], (ast.Is, ast.IsNot)):
        return isinstance(e.left, ast.Name) and isinstance(e.comparators[0], ast.Constant) \
            and e.comparators[0].value is None
    return False


def normalise(fn, helpers):
    """The def with the behaviour-preserving rewrites of norm_utils applied, so
    that equivalent ways of writing it give the same program: annotations
    dropped; small module-level helper functions inlined; `return E[a if c
    else b]` written as an if statement (c an isinstance / `is None` test of a
    name, nothing but names and attribute reads evaluated before it); early
    `return`s written as else branches; a result variable assigned in every
    branch and returned at the end written as a return in every branch."""
    try:
        fn = norm_utils.strip_annotations(fn)
    except norm_utils.NormError as e:
        raise TranslationError(str(e))
    fn.body = strip_doc(fn.body)
    need(fn.body, '%s: empty body' % fn.name)
    shadow = set(n.id for n in ast.walk(fn) if isinstance(n, ast.Name) and not isinstance(n.ctx, ast.Load))
    shadow |= set(x.arg for x in fn.args.args)
    fn.body = norm_utils.inline_helpers(fn, helpers)
    if 'isinstance' not in shadow and not (shadow & set(CLASSES)):
        fn.body = norm_utils.hoist_ifexp(fn.body, total_test)
    fn.body = norm_utils.else_nest(fn.body)
    fn.body = norm_utils.sink_tail_return(fn.body)
    return fn


def translate_def(fn, kind, ctx, helpers=None):
    fn = normalise(fn, helpers or {})
    a = fn.args
    need(not a.kwonlyargs and not a.kw_defaults and not getattr(a, 'posonlyargs', []) and len(a.args) >= 1,
         '%s: unsupported parameter list' % fn.name)
    for n in ast.walk(fn):
        need(not isinstance(n, (ast.FunctionDef, ast.AsyncFunctionDef, ast.ClassDef, ast.Lambda,
                                ast.YieldFrom, ast.Await, ast.With, ast.Import, ast.ImportFrom,
                                ast.While, ast.Try, ast.NamedExpr, ast.ListComp, ast.SetComp,
                                ast.DictComp, ast.Raise, ast.AugAssign, ast.Assert, ast.Break,
                                ast.Continue, ast.IfExp)) or n is fn,
             '%s: unsupported construct at %s: %s' % (fn.name, where(n), type(n).__name__))
    gen = any(isinstance(n, ast.Yield) for n in ast.walk(fn))
    sc = Scope(fn.name, ctx, [x.arg for x in a.args],
               a.vararg.arg if a.vararg else None, a.kwarg.arg if a.kwarg else None)
    sc.fresh_ok = object_vars(fn)
    prog = sc.block(fn.body)
    head = 'mkM %s [%s] %s %s %s' % (kind, '; '.join(default_values(fn)),
                                     'true' if a.vararg else 'false', 'true' if a.kwarg else 'false',
                                     'true' if gen else 'false')
    return head, prog


# ------------------------------------------------------------------- printing

def pp_block(items, ind):
    pad = ' ' * ind
    if not items:
        return [pad + '(blk [])']
    out = [pad + '(blk [']
    for i, it in enumerate(items):
        lines = pp_stmt(it, ind + 2)
        if i < len(items) - 1:
            lines[-1] += ';'
        out.extend(lines)
    out[-1] += '])'
    return out


def pp_stmt(it, ind):
    pad = ' ' * ind
    if it[0] == 'atom':
        return [pad + it[1]]
    if it[0] == 'if':
        return [pad + 'SIf (%s)' % it[1]] + pp_block(it[2], ind + 2) + pp_block(it[3], ind + 2)
    if it[0] == 'for':
        return [pad + 'SFor [%s] (%s)' % ('; '.join('%d%%nat' % i for i in it[1]), it[2])] \
            + pp_block(it[3], ind + 2)
    raise TranslationError('internal: %r' % (it,))


def generate():
    path = os.path.join(REPO, 'TexSoup', 'utils.py')
    with open(path) as f:
        tree = ast.parse(f.read())
    check_package()
    cl, empty = check_module(tree)
    meths = class_methods(cl)
    ctx = Ctx(meths['__new__'][0])
    helpers = norm_utils.helper_table(tree)
    out = []
    w = out.append
    w('(* GENERATED by harness/gen_token.py from class Token of TexSoup/utils.py -- do not edit.')
    w('   One TokenDSL.mdef per def, constructor by constructor from the Python')
    w('   abstract syntax; see TokenDSL.v for the meaning. *)')
    w('From Coq Require Import String.')
    w('From Coq Require Import List NArith ZArith.')
    w('From TexModel Require Import Base TokenDSL.')
    w('Import ListNotations.')
    w('Local Open Scope string_scope.')
    w('')
    for name, _, coq in METHODS:
        fn, kind = meths[name]
        head, prog = translate_def(fn, kind, ctx, helpers)
        w('(* def %s *)' % name)
        w('Definition %s : mdef :=' % coq)
        w('  %s' % head)
        lines = pp_block(prog, 4)
        lines[-1] += '.'
        out.extend(lines)
        w('')
    w('(* Token.Empty = ... *)')
    w('Definition gen_empty : expr :=')
    w('  %s.' % Scope('Token.Empty', ctx).ex(empty))
    w('')
    w('Definition gen_meth (m : meth) : mdef :=\n  match m with')
    for _, ctor, coq in METHODS:
        w('  | %s => %s' % (ctor, coq))
    w('  end.')
    w('')
    w('Definition gen_token_cls : cls := mkC gen_meth gen_empty.')
    return '\n'.join(out) + '\n'


def main():
    outp = sys.argv[1]
    try:
        txt = generate()
    except TranslationError as e:
        sys.stderr.write('TRANSLATION-FAILED: %s\n' % e)
        return 2
    except Exception as e:   # noqa
        sys.stderr.write('TRANSLATION-FAILED: %s: %s\n' % (type(e).__name__, e))
        return 2
    old = None
    if os.path.exists(outp):
        with open(outp) as f:
            old = f.read()
    if old != txt:
        with open(outp, 'w') as f:
            f.write(txt)
        print('TokenGen.v rewritten')
    else:
        print('TokenGen.v unchanged')
    return 0


if __name__ == '__main__':
    sys.exit(main())
