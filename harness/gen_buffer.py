#!/venv/bin/python
"""Translator: regenerate coq/theories/Model/BufGen.v from class `Buffer` of
$TEXSOUP_REPO/TexSoup/utils.py (default /repo).

Every method of the class (__init__, hasNext, startswith, endswith, forward,
num_forward_until, forward_until, backward, peek, __next__, __getitem__,
__iter__, the `position` property) is read with the Python `ast` module only
(nothing is imported or executed) and written as a term of the language of
coq/theories/Model/BufDSL.v, one Coq constructor per Python construct.
Proofs/BufGenProofs.v then proves that interpreting each generated term is the
hand-written operation of Model/Buffer.v.

Normalised before translation (behaviour-preserving, norm_utils.py):
annotations are dropped; `while A: if B: break; ...` is read as
`while A and not B: ...`.  A local may be assigned inside `try` when the handler
does not mention it and always returns.  `isinstance(x, Buffer)` and the
private attributes `x.__iterator` / `x.__i` of ANOTHER Buffer (the constructor
argument) are translated (EIsBuffer, EOtherField); __init__ may contain `if`.

Fail-closed: any statement or expression shape that is not listed in BufDSL.v
raises TranslationError, and so does everything around the class that the
interpreter's reading relies on: the set of methods and their decorators, the
bases of the class, a rebinding of Token / isinstance / int / len / next /
iter / bool / hasattr, any use of the mangled private attributes outside the
class, and the source of the Token methods whose meaning BufDSL.v builds in
(__new__, __eq__, __add__, __radd__, __iadd__, __bool__, join, __getattr__,
Token.Empty), which is pinned to the reference text below.  The comparison is
made on the TRANSLATION of these defs by gen_token.py (the terms that
Props/C13token.v proves the built-in reading of), so a rewrite of class Token
that gen_token.py normalises away (helper functions, a conditional expression
for an if statement, a result variable, annotations, keyword for positional
arguments of Token(...)) does not make this translator give up, and any
change that alters the translated terms still does.

The output depends on the abstract syntax only: comments, docstrings, layout,
annotations and the names of parameters and local variables do not change it
(locals are numbered: parameters first, then in order of first binding).

Usage: gen_buffer.py <out.v>      exit 0 = written (only if content changed)
                                  exit 2 = translation failed (message on stderr)
"""
import ast
import os
import sys

sys.path.insert(0, os.path.dirname(os.path.abspath(__file__)))
import norm_utils  # noqa: E402
import gen_token  # noqa: E402

REPO = os.environ.get('TEXSOUP_REPO', '/repo')


class TranslationError(Exception):
    pass


def need(cond, msg):
    if not cond:
        raise TranslationError(msg)


def where(n):
    return 'line %s' % getattr(n, 'lineno', '?')


def shape(n):
    return ast.dump(n)[:120]


def is_name(n, ident):
    return isinstance(n, ast.Name) and n.id == ident


def strip_doc(body):
    if body and isinstance(body[0], ast.Expr) and isinstance(body[0].value, ast.Constant) \
            and isinstance(body[0].value.value, str):
        return body[1:]
    return body


def norm_fn(fn):
    """ast.dump of a function without its docstring"""
    return (ast.dump(fn.args), [ast.dump(x) for x in strip_doc(fn.body)],
            [ast.dump(d) for d in fn.decorator_list])


METHODS = ['__init__', 'hasNext', 'startswith', 'endswith', 'forward', 'num_forward_until',
           'forward_until', 'backward', 'peek', '__next__', '__getitem__', '__iter__', 'position']
COQ_METH = {'__init__': 'M_init', '__next__': 'M_next', '__getitem__': 'M_getitem',
            '__iter__': 'M_iter'}
for _m in METHODS:
    COQ_METH.setdefault(_m, 'M_' + _m)
GEN_NAME = {'__init__': 'gen_init', '__next__': 'gen_next', '__getitem__': 'gen_getitem',
            '__iter__': 'gen_iter'}
for _m in METHODS:
    GEN_NAME.setdefault(_m, 'gen_' + _m)
FIELDS = {'__iterator': 'F_iterator', '__queue': 'F_queue', '__i': 'F_i',
          '__join': 'F_join', '__init': 'F_init', '__empty': 'F_empty'}
BUILTINS = ('isinstance', 'int', 'len', 'next', 'iter', 'bool', 'hasattr',
            'IndexError', 'StopIteration')
EXNS = {'IndexError': 'IndexError', 'StopIteration': 'StopIteration',
        'AssertionError': 'AssertionError', 'AttributeError': 'AttributeError'}
CMP = {ast.Lt: 'CLt', ast.LtE: 'CLe', ast.Gt: 'CGt', ast.GtE: 'CGe', ast.Eq: 'CEq',
       ast.NotEq: 'CNe'}

# The Token methods whose meaning the interpreter of BufDSL.v builds in
# (string concatenation, comparison by text, truth value, join, the copy made
# by Token(tok, ...)).  Compared as abstract syntax, docstrings removed.
TOKEN_PINNED = '''
class Token(str):
    def __new__(cls, text='', position=None, category=None):
        self = str.__new__(cls, text)
        if isinstance(text, Token):
            self.text = text.text
            self.position = text.position
            self.category = category or text.category
        else:
            self.text = text
            self.position = position
            self.category = category
        return self

    def __eq__(self, other):
        if isinstance(other, Token):
            return self.text == other.text
        else:
            return self.text == other

    def __add__(self, other):
        if isinstance(other, Token):
            return Token(self.text + other.text, self.position, self.category)
        else:
            return Token(self.text + other, self.position, self.category)

    def __radd__(self, other):
        return Token(
            other + self.text, self.position - len(other), self.category)

    def __iadd__(self, other):
        if isinstance(other, Token):
            new = Token(self.text + other.text, self.position, self.category)
        else:
            new = Token(self.text + other, self.position, self.category)
        return new

    @classmethod
    def join(cls, tokens, glue=''):
        if len(tokens) > 0:
            return Token(
                glue.join(t.text for t in tokens),
                tokens[0].position,
                tokens[0].category)
        else:
            return Token.Empty

    def __bool__(self):
        return bool(self.text)

    def __getattr__(self, name):
        return getattr(self.text, name)
'''
TOKEN_EMPTY = "Token.Empty = Token('', position=0)"


# --------------------------------------------------------------------- module

def check_module(tree):
    """Everything outside the method bodies that the translation relies on.
    Returns the ClassDef of Buffer."""
    need(isinstance(tree, ast.Module), 'not a module')
    bound = {}

    def bind(name, how):
        bound.setdefault(name, []).append(how)

    for st in tree.body:
        if isinstance(st, ast.ImportFrom):
            for a in st.names:
                need(a.name != '*', 'star import at %s' % where(st))
                bind(a.asname or a.name, 'import')
        elif isinstance(st, ast.Import):
            for a in st.names:
                bind((a.asname or a.name).split('.')[0], 'import')
        elif isinstance(st, ast.FunctionDef):
            bind(st.name, 'def')
        elif isinstance(st, ast.ClassDef):
            bind(st.name, 'class')
        elif isinstance(st, (ast.Assign, ast.AnnAssign)):
            tg = st.targets if isinstance(st, ast.Assign) else [st.target]
            for t in tg:
                if isinstance(t, ast.Attribute) and is_name(t.value, 'Token'):
                    # its value is compared with the pinned one below (after translation)
                    need(t.attr == 'Empty' and len(tg) == 1 and st.value is not None,
                         'assignment to an attribute of Token at %s is not `Token.Empty = ...`' % where(st))
                    bind('Token.Empty', 'assign')
                    continue
                for x in ast.walk(t):
                    if isinstance(x, ast.Name):
                        bind(x.id, 'assign')
                    elif isinstance(x, ast.Attribute):
                        raise TranslationError('module-level attribute assignment at %s' % where(st))
        elif isinstance(st, ast.Expr) and isinstance(st.value, ast.Constant):
            pass
        else:
            raise TranslationError('unexpected module-level statement at %s: %s' % (where(st), shape(st)))
    need(bound.get('Token') == ['class'], 'module-level binding of Token changed: %s' % bound.get('Token'))
    need(bound.get('Token.Empty') == ['assign'], '`%s` is missing or repeated' % TOKEN_EMPTY)
    need(bound.get('Buffer') == ['class'], 'module-level binding of Buffer changed: %s' % bound.get('Buffer'))
    for nm in BUILTINS:
        need(nm not in bound, 'builtin %s is rebound at module level' % nm)
    for n in ast.walk(tree):
        need(not isinstance(n, (ast.Global, ast.Nonlocal, ast.Delete)),
             'global/nonlocal/del at %s' % where(n))
        # the mangled private attributes must not be reachable from outside the class
        if isinstance(n, ast.Attribute):
            need(not n.attr.startswith('_Buffer__'), 'use of %s at %s' % (n.attr, where(n)))
        if isinstance(n, ast.Constant) and isinstance(n.value, str):
            need('_Buffer__' not in n.value, 'string mentioning _Buffer__ at %s' % where(n))
        if isinstance(n, ast.Call) and isinstance(n.func, ast.Name) \
                and n.func.id in ('setattr', 'delattr', 'exec', 'eval', '__import__'):
            raise TranslationError('%s(...) at %s' % (n.func.id, where(n)))
    # ---- the pinned part of Token: compared AFTER translation by gen_token.py (which
    # normalises helper functions, conditional expressions, result variables, ...), so
    # the reading is pinned to what Props/C13token.v proves the assumptions about
    tok = [st for st in tree.body if isinstance(st, ast.ClassDef) and st.name == 'Token'][0]
    ref_tree = ast.parse(TOKEN_PINNED + '\n' + TOKEN_EMPTY + '\n')
    ref = ref_tree.body[0]
    need([ast.dump(b) for b in tok.bases] == [ast.dump(b) for b in ref.bases]
         and not tok.keywords and not tok.decorator_list, 'bases/decorators of Token changed')
    names = [r.name for r in ref.body]
    try:
        want = gen_token.reading_of(ref_tree, names)
    except gen_token.TranslationError as e:
        raise TranslationError('internal: the reference source of Token is not translatable: %s' % e)
    try:
        have = gen_token.reading_of(tree, names)
    except gen_token.TranslationError as e:
        raise TranslationError('class Token cannot be read (gen_token: %s)' % e)
    for nm in names + ['Token.Empty']:
        need(have[nm] == want[nm],
             '%s%s differs from the source the interpreter\'s reading is pinned to'
             % ('' if nm == 'Token.Empty' else 'Token.', nm))
    # ---- the class itself
    cl = [st for st in tree.body if isinstance(st, ast.ClassDef) and st.name == 'Buffer'][0]
    need(not cl.bases and not cl.keywords and not cl.decorator_list, 'Buffer has bases/decorators')
    # nobody else may assign attributes on Buffer or patch it
    for n in ast.walk(tree):
        if isinstance(n, (ast.Assign, ast.AugAssign, ast.AnnAssign)):
            tg = n.targets if isinstance(n, ast.Assign) else [n.target]
            for t in tg:
                for x in ast.walk(t):
                    need(not (isinstance(x, ast.Attribute) and is_name(x.value, 'Buffer')),
                         'assignment to an attribute of Buffer at %s' % where(n))
    return cl


def class_methods(cl):
    meths = {}
    for st in strip_doc(cl.body):
        need(isinstance(st, ast.FunctionDef),
             'unexpected statement in class Buffer at %s: %s' % (where(st), shape(st)))
        need(st.name not in meths, 'Buffer.%s is defined twice' % st.name)
        if st.name == 'position':
            need(len(st.decorator_list) == 1 and is_name(st.decorator_list[0], 'property'),
                 'Buffer.position is not a plain @property')
        else:
            need(not st.decorator_list, 'Buffer.%s has a decorator' % st.name)
        meths[st.name] = st
    need(sorted(meths) == sorted(METHODS), 'the methods of Buffer changed: %s' % sorted(meths))
    return [(nm, meths[nm]) for nm in [s.name for s in strip_doc(cl.body)]]


# -------------------------------------------------------------------- methods

def zlit(v):
    return '%d%%Z' % v if v >= 0 else '(%d)%%Z' % v


class Lambdas(object):
    def __init__(self):
        self.items = []      # (arity, coq expr)

    def add(self, arity, body):
        self.items.append((arity, body))
        return len(self.items) - 1


class Scope(object):
    """Translation of one function body (a method, or a lambda)."""

    def __init__(self, owner, params, self_name, lambdas, in_init=False):
        self.owner = owner
        self.self_name = self_name
        self.vars = {}
        for p in params:
            need(p not in self.vars and p != self_name, '%s: repeated parameter %s' % (owner, p))
            self.vars[p] = len(self.vars)
        self.lambdas = lambdas
        self.in_init = in_init
        self.in_try = 0
        self.try_assigned = []
        self.in_loop = 0

    def err(self, n, what):
        raise TranslationError('%s, %s: %s: %s' % (self.owner, where(n), what, shape(n)))

    # ---- names
    def is_self(self, n):
        return self.self_name is not None and is_name(n, self.self_name)

    def field(self, n):
        """self.__f -> coq field name, else None"""
        if isinstance(n, ast.Attribute) and self.is_self(n.value) and n.attr in FIELDS:
            return FIELDS[n.attr]
        return None

    def declare(self, node):
        if not isinstance(node, ast.Name):
            self.err(node, 'assignment target')
        nm = node.id
        need(nm != self.self_name, '%s: assignment to self' % self.owner)
        need(nm not in BUILTINS and nm not in ('Token', 'Buffer'), '%s: assignment to %s' % (self.owner, nm))
        if self.in_try:
            self.try_assigned[-1].add(nm)       # checked when the try statement is complete
        if nm not in self.vars:
            self.vars[nm] = len(self.vars)
        return self.vars[nm]

    # ---- expressions
    def args(self, lst):
        return '(args_of [%s])' % '; '.join(self.ex(a) for a in lst)

    def plain_call(self, n):
        if n.keywords:
            self.err(n, 'keyword arguments')
        for a in n.args:
            if isinstance(a, ast.Starred):
                self.err(n, 'starred argument')

    def ex(self, n, ctx=None):
        """ctx = 'consume' where a list value is used up on the spot (len, subscript)"""
        if isinstance(n, ast.Constant):
            v = n.value
            if v is None:
                return 'ENone'
            if v is True or v is False:
                return 'EBool %s' % ('true' if v else 'false')
            if type(v) is int:
                return 'EInt %s' % zlit(v)
            if type(v) is str and v == '':
                return 'EEmptyStr'
            self.err(n, 'unsupported constant')
        if isinstance(n, ast.List):
            if n.elts == [] and isinstance(n.ctx, ast.Load):
                return 'EEmptyList'
            self.err(n, 'unsupported list display')
        if isinstance(n, ast.Tuple):
            need(isinstance(n.ctx, ast.Load) and len(n.elts) >= 1, 'tuple context')
            return 'ETuple %s' % self.args(n.elts)
        if isinstance(n, ast.Name):
            need(isinstance(n.ctx, ast.Load), 'name context')
            if self.is_self(n):
                return 'ESelf'
            if n.id in self.vars:
                return 'EVar %d%%nat' % self.vars[n.id]
            self.err(n, 'name that is neither a parameter nor a local')
        if isinstance(n, ast.Attribute):
            need(isinstance(n.ctx, ast.Load), 'attribute context')
            f = self.field(n)
            if f is not None:
                need(not self.in_init, '%s: __init__ reads self.%s' % (self.owner, n.attr))
                if f == 'F_iterator':
                    self.err(n, 'self.__iterator outside next(...)')
                if f == 'F_queue' and ctx != 'consume':
                    self.err(n, 'self.__queue used other than under len(...) / [...] / .append')
                return 'EField %s' % f
            if is_name(n.value, 'Token') and n.attr == 'join' and 'Token' not in self.vars:
                return 'ETokenJoin'
            if self.is_self(n.value):
                self.err(n, 'unsupported attribute of self')
            if n.attr in ('__iterator', '__i'):
                # inside the class body the name is mangled: the private attribute of
                # ANOTHER Buffer object
                return 'EOtherField (%s) %s' % (self.ex(n.value), FIELDS[n.attr])
            if n.attr == 'stop':
                return 'EStop (%s)' % self.ex(n.value)
            if n.attr == 'position':
                return 'EPosition (%s)' % self.ex(n.value)
            self.err(n, 'unsupported attribute')
        if isinstance(n, ast.Lambda):
            a = n.args
            need(not a.vararg and not a.kwonlyargs and not a.kwarg and not a.defaults
                 and not a.kw_defaults and not getattr(a, 'posonlyargs', []),
                 '%s: lambda parameters' % self.owner)
            sub = Scope(self.owner + '.<lambda>', [x.arg for x in a.args], None, self.lambdas)
            body = sub.ex(n.body)
            return 'ELam %d%%nat' % self.lambdas.add(len(a.args), body)
        if isinstance(n, ast.UnaryOp):
            if isinstance(n.op, ast.USub):
                return 'ENeg (%s)' % self.ex(n.operand)
            if isinstance(n.op, ast.Not):
                return 'ENot (%s)' % self.ex(n.operand)
            self.err(n, 'unsupported unary operator')
        if isinstance(n, ast.BinOp):
            if isinstance(n.op, ast.Add):
                return 'EAdd (%s) (%s)' % (self.ex(n.left), self.ex(n.right))
            if isinstance(n.op, ast.Sub):
                return 'ESub (%s) (%s)' % (self.ex(n.left), self.ex(n.right))
            self.err(n, 'unsupported binary operator')
        if isinstance(n, ast.BoolOp):
            ctor = {ast.And: 'EAnd', ast.Or: 'EOr'}.get(type(n.op))
            need(ctor is not None and len(n.values) >= 2, 'boolean operator')
            parts = [self.ex(v) for v in n.values]
            out = parts[-1]
            for p in reversed(parts[:-1]):
                out = '%s (%s) (%s)' % (ctor, p, out)
            return out
        if isinstance(n, ast.IfExp):
            return 'EIfExp (%s) (%s) (%s)' % (self.ex(n.test), self.ex(n.body), self.ex(n.orelse))
        if isinstance(n, ast.Compare):
            if len(n.ops) != 1 or len(n.comparators) != 1:
                self.err(n, 'chained comparison')
            op, lhs, rhs = type(n.ops[0]), n.left, n.comparators[0]
            if op in CMP:
                return 'ECmp %s (%s) (%s)' % (CMP[op], self.ex(lhs), self.ex(rhs))
            if op in (ast.Is, ast.IsNot) and isinstance(rhs, ast.Constant) and rhs.value is None:
                t = 'EIsNone (%s)' % self.ex(lhs)
                return t if op is ast.Is else 'ENot (%s)' % t
            self.err(n, 'unsupported comparison')
        if isinstance(n, ast.Subscript):
            need(isinstance(n.ctx, ast.Load), 'subscript context')
            idx = n.slice
            if isinstance(idx, getattr(ast, 'Index', ())):          # python < 3.9
                idx = idx.value
            if isinstance(idx, ast.Slice):
                if idx.step is not None:
                    self.err(n, 'slice with a step')
                i = 'ESliceObj (%s) (%s)' % (self.ex(idx.lower) if idx.lower is not None else 'ENone',
                                             self.ex(idx.upper) if idx.upper is not None else 'ENone')
            elif isinstance(idx, (ast.Tuple, ast.Starred)):
                self.err(n, 'unsupported subscript')
            else:
                i = self.ex(idx)
            if self.is_self(n.value):
                need(not self.in_init, '%s: __init__ uses self[...]' % self.owner)
                return 'ECallMeth M_getitem (args_of [%s])' % i
            return 'EIndex (%s) (%s)' % (self.ex(n.value, 'consume'), i)
        if isinstance(n, ast.Call):
            self.plain_call(n)
            f, a = n.func, n.args
            if isinstance(f, ast.Name) and f.id not in self.vars and not self.is_self(f):
                if f.id == 'isinstance' and len(a) == 2 and is_name(a[1], 'int') and 'int' not in self.vars:
                    return 'EIsInt (%s)' % self.ex(a[0])
                if f.id == 'isinstance' and len(a) == 2 and is_name(a[1], 'Buffer') \
                        and 'Buffer' not in self.vars:
                    # check_module: Buffer is bound once, to this class
                    return 'EIsBuffer (%s)' % self.ex(a[0])
                if f.id == 'bool' and len(a) == 1:
                    return 'EBoolOf (%s)' % self.ex(a[0])
                if f.id == 'len' and len(a) == 1:
                    return 'ELen (%s)' % self.ex(a[0], 'consume')
                if f.id == 'next' and len(a) == 1:
                    if self.is_self(a[0]):
                        need(not self.in_init, '%s: __init__ uses next(self)' % self.owner)
                        return 'ECallMeth M_next (args_of [])'
                    if isinstance(a[0], ast.Attribute) and self.field(a[0]) is not None:
                        need(not self.in_init, '%s: __init__ reads an attribute' % self.owner)
                        return 'ENextField %s' % self.field(a[0])
                    self.err(n, 'unsupported argument of next')
                if f.id == 'iter' and len(a) == 1:
                    return 'EIter (%s)' % self.ex(a[0])
                if f.id == 'hasattr' and len(a) == 2 and isinstance(a[1], ast.Constant) \
                        and a[1].value == '__iter__':
                    return 'EHasIter (%s)' % self.ex(a[0])
                if f.id == 'Token' and len(a) == 2:
                    return 'EToken (%s) (%s)' % (self.ex(a[0]), self.ex(a[1]))
                self.err(n, 'unsupported call')
            if isinstance(f, ast.Name) and f.id in self.vars:
                return 'ECallVal (EVar %d%%nat) %s' % (self.vars[f.id], self.args(a))
            if isinstance(f, ast.Attribute):
                fl = self.field(f)
                if fl is not None:
                    need(not self.in_init, '%s: __init__ reads self.%s' % (self.owner, f.attr))
                    need(fl in ('F_join', 'F_init', 'F_empty'), '%s: call of self.%s' % (self.owner, f.attr))
                    return 'ECallVal (EField %s) %s' % (fl, self.args(a))
                if self.is_self(f.value):
                    need(not self.in_init, '%s: __init__ calls self.%s' % (self.owner, f.attr))
                    if f.attr in METHODS and f.attr != 'position' and not f.attr.startswith('__'):
                        return 'ECallMeth %s %s' % (COQ_METH[f.attr], self.args(a))
                    self.err(n, 'call of an unknown method of self')
                if f.attr in ('startswith', 'endswith') and len(a) == 1:
                    return '%s (%s) (%s)' % ('EStartswith' if f.attr == 'startswith' else 'EEndswith',
                                             self.ex(f.value), self.ex(a[0]))
                self.err(n, 'unsupported method call')
            self.err(n, 'unsupported call')
        self.err(n, 'unsupported expression')

    # ---- statements -> nested ('atom', text) | ('if', c, a, b) | ('while', c, b) | ('try', b, exn, h)
    def stmt(self, s):
        if isinstance(s, ast.Expr):
            v = s.value
            if isinstance(v, ast.Call) and isinstance(v.func, ast.Attribute) and v.func.attr == 'append' \
                    and self.field(v.func.value) is not None:
                self.plain_call(v)
                need(len(v.args) == 1, '%s: append arity' % self.owner)
                need(not self.in_init, '%s: __init__ reads an attribute' % self.owner)
                return ('atom', 'SAppend %s (%s)' % (self.field(v.func.value), self.ex(v.args[0])))
            if isinstance(v, ast.Constant):
                self.err(s, 'constant expression statement')
            return ('atom', 'SExpr (%s)' % self.ex(v))
        if isinstance(s, ast.Assign):
            need(len(s.targets) == 1, '%s: chained assignment at %s' % (self.owner, where(s)))
            t, v = s.targets[0], s.value
            if isinstance(t, ast.Attribute):
                f = self.field(t)
                if f is None:
                    self.err(s, 'unsupported attribute assignment')
                return ('atom', 'SSetField %s (%s)' % (f, self.ex(v)))
            if isinstance(t, ast.Tuple):
                need(isinstance(v, ast.Tuple) and len(v.elts) == len(t.elts) and len(t.elts) >= 2,
                     '%s: tuple assignment from a non-tuple at %s' % (self.owner, where(s)))
                vals = [self.ex(e) for e in v.elts]          # right-hand sides first
                ids = [self.declare(e) for e in t.elts]
                need(len(set(ids)) == len(ids), '%s: repeated target at %s' % (self.owner, where(s)))
                return ('atom', 'SAssign [%s] (args_of [%s])' % ('; '.join('%d%%nat' % i for i in ids), '; '.join(vals)))
            val = self.ex(v)
            return ('atom', 'SAssign [%d%%nat] (args_of [%s])' % (self.declare(t), val))
        if isinstance(s, ast.AugAssign):
            op = {ast.Add: 'AugAdd', ast.Sub: 'AugSub'}.get(type(s.op))
            if op is None:
                self.err(s, 'unsupported augmented assignment')
            if isinstance(s.target, ast.Attribute):
                f = self.field(s.target)
                if f is None:
                    self.err(s, 'unsupported attribute assignment')
                need(not self.in_init, '%s: __init__ reads an attribute' % self.owner)
                return ('atom', 'SAugField %s %s (%s)' % (f, op, self.ex(s.value)))
            if isinstance(s.target, ast.Name) and s.target.id in self.vars:
                if self.in_try:
                    self.try_assigned[-1].add(s.target.id)
                return ('atom', 'SAugVar %d%%nat %s (%s)' % (self.vars[s.target.id], op, self.ex(s.value)))
            self.err(s, 'unsupported augmented assignment')
        if isinstance(s, ast.Assert):
            m = s.msg
            ok = m is None or (isinstance(m, ast.Constant) and isinstance(m.value, str)) or (
                isinstance(m, ast.BinOp) and isinstance(m.op, ast.Mod)
                and isinstance(m.left, ast.Constant) and isinstance(m.left.value, str)
                and not any(isinstance(x, (ast.Call, ast.Subscript, ast.Lambda)) for x in ast.walk(m.right)))
            need(ok, '%s: assert message at %s' % (self.owner, where(s)))
            return ('atom', 'SAssert (%s)' % self.ex(s.test))
        if isinstance(s, ast.Return):
            return ('atom', 'SReturn (%s)' % (self.ex(s.value) if s.value is not None else 'ENone'))
        if isinstance(s, ast.Break):
            need(self.in_loop, '%s: break outside a loop' % self.owner)
            return ('atom', 'SBreak')
        if isinstance(s, ast.If):
            c = self.ex(s.test)
            return ('if', c, self.block(s.body), self.block(s.orelse))
        if isinstance(s, ast.While):
            need(not s.orelse, '%s: while-else' % self.owner)
            c = self.ex(s.test)
            self.in_loop += 1
            b = self.block(s.body)
            self.in_loop -= 1
            return ('while', c, b)
        if isinstance(s, ast.Try):
            need(not s.orelse and not s.finalbody and len(s.handlers) == 1,
                 '%s: try with else/finally/several handlers at %s' % (self.owner, where(s)))
            h = s.handlers[0]
            need(h.name is None and isinstance(h.type, ast.Name) and h.type.id in EXNS
                 and h.type.id not in self.vars, '%s: except clause at %s' % (self.owner, where(s)))
            self.in_try += 1
            self.try_assigned.append(set())
            b = self.block(s.body)
            self.in_try -= 1
            assigned = self.try_assigned.pop()
            if self.try_assigned:
                self.try_assigned[-1] |= assigned
            # the interpreter runs the handler from the locals at ENTRY of the try: that is
            # what Python does as far as anyone can tell if the handler does not mention the
            # locals assigned in the body and always returns (nothing after the try statement
            # is reached through the handler)
            if assigned:
                used = set(x.id for st in h.body for x in ast.walk(st) if isinstance(x, ast.Name))
                need(not (assigned & used) and norm_utils.always_returns(h.body),
                     '%s: locals %s are assigned inside try and the handler may see them at %s'
                     % (self.owner, sorted(assigned), where(s)))
            return ('try', b, EXNS[h.type.id], self.block(h.body))
        self.err(s, 'unsupported statement')

    def block(self, body):
        return [self.stmt(s) for s in body]


def default_value(fn, n, lambdas):
    if isinstance(n, ast.Constant):
        v = n.value
        if v is None:
            return 'VNone'
        if v is True or v is False:
            return 'VBool %s' % ('true' if v else 'false')
        if type(v) is int:
            return 'VInt %s' % zlit(v)
    if isinstance(n, ast.Attribute) and is_name(n.value, 'Token') and n.attr == 'join':
        return 'VFn FTokenJoin'
    if isinstance(n, ast.Lambda):
        t = Scope(fn.name + '.<default>', [], None, lambdas).ex(n)
        return 'VFn (FLam %s)' % t.split()[1]
    raise TranslationError('%s: unsupported default %s' % (fn.name, shape(n)))


def translate_method(fn, lambdas):
    try:
        fn = norm_utils.strip_annotations(fn)      # annotations are never evaluated in a def body
    except norm_utils.NormError as e:
        raise TranslationError(str(e))
    fn.body = norm_utils.loop_break_to_cond(fn.body)   # while A: if B: break; .. = while A and not B: ..
    a = fn.args
    need(not a.vararg and not a.kwonlyargs and not a.kwarg and not a.kw_defaults
         and not getattr(a, 'posonlyargs', []) and len(a.args) >= 1,
         '%s: unsupported parameter list' % fn.name)
    names = [x.arg for x in a.args]
    for n in ast.walk(fn):
        need(not isinstance(n, (ast.FunctionDef, ast.AsyncFunctionDef, ast.ClassDef, ast.Yield,
                                ast.YieldFrom, ast.Await, ast.With, ast.Import, ast.ImportFrom,
                                ast.For, ast.NamedExpr, ast.ListComp, ast.GeneratorExp, ast.SetComp,
                                ast.DictComp, ast.Raise, ast.Starred)) or n is fn,
             '%s: unsupported construct at %s: %s' % (fn.name, where(n), type(n).__name__))
    # defaults are evaluated at definition time, left to right, before the body
    nd = len(a.defaults)
    params = ['None'] * (len(names) - 1 - nd) + \
             ['Some (%s)' % default_value(fn, d, lambdas) for d in a.defaults]
    need(nd <= len(names) - 1, '%s: default for self' % fn.name)
    sc = Scope(fn.name, names[1:], names[0], lambdas, in_init=(fn.name == '__init__'))
    body = strip_doc(fn.body)
    need(body, '%s: empty body' % fn.name)
    prog = sc.block(body)
    if fn.name == '__init__':
        def flat(items):
            for it in items:
                need(it[0] in ('atom', 'if'), '__init__: loop / try statement')
                if it[0] == 'if':
                    flat(it[2])
                    flat(it[3])
        flat(prog)
    return params, prog


# ------------------------------------------------------------------- printing

def pp_block(items, ind):
    pad = ' ' * ind
    if not items:
        return [pad + '(blk [])']
    out = [pad + '(blk [']
    for i, it in enumerate(items):
        lines = pp_stmt(it, ind + 2)
        if i < len(items) - 1:
            lines[-1] += ';'
        out.extend(lines)
    out[-1] += '])'
    return out


def pp_stmt(it, ind):
    pad = ' ' * ind
    if it[0] == 'atom':
        return [pad + it[1]]
    if it[0] == 'if':
        return [pad + 'SIf (%s)' % it[1]] + pp_block(it[2], ind + 2) + pp_block(it[3], ind + 2)
    if it[0] == 'while':
        return [pad + 'SWhile (%s)' % it[1]] + pp_block(it[2], ind + 2)
    if it[0] == 'try':
        lines = [pad + 'STry'] + pp_block(it[1], ind + 2)
        lines.append(pad + '  ' + it[2])
        return lines + pp_block(it[3], ind + 2)
    raise TranslationError('internal: %r' % (it,))


def generate():
    path = os.path.join(REPO, 'TexSoup', 'utils.py')
    with open(path) as f:
        tree = ast.parse(f.read())
    cl = check_module(tree)
    meths = class_methods(cl)
    lambdas = Lambdas()
    out = []
    w = out.append
    w('(* GENERATED by harness/gen_buffer.py from class Buffer of TexSoup/utils.py -- do not edit.')
    w('   One BufDSL.mdef per method, constructor by constructor from the Python')
    w('   abstract syntax; see BufDSL.v for the meaning. *)')
    w('From Coq Require Import List ZArith.')
    w('From TexModel Require Import Buffer BufDSL.')
    w('Import ListNotations.')
    w('')
    for name, fn in meths:
        params, prog = translate_method(fn, lambdas)
        w('(* def %s *)' % name)
        w('Definition %s : mdef :=' % GEN_NAME[name])
        w('  mkM [%s]' % '; '.join(params))
        lines = pp_block(prog, 4)
        lines[-1] += '.'
        out.extend(lines)
        w('')
    w('(* the lambda expressions of the class, in source order: arity, body *)')
    w('Definition gen_lam (k : nat) : option (nat * expr) :=\n  match k with')
    for i, (ar, body) in enumerate(lambdas.items):
        w('  | %d%%nat => Some (%d%%nat, %s)' % (i, ar, body))
    w('  | _ => None\n  end.')
    w('')
    w('Definition gen_meth (m : meth) : mdef :=\n  match m with')
    for n in METHODS:
        w('  | %s => %s' % (COQ_METH[n], GEN_NAME[n]))
    w('  end.')
    w('')
    w('Definition gen_cls : cls := mkC gen_meth gen_lam.')
    return '\n'.join(out) + '\n'


def main():
    outp = sys.argv[1]
    try:
        txt = generate()
    except TranslationError as e:
        sys.stderr.write('TRANSLATION-FAILED: %s\n' % e)
        return 2
    except Exception as e:   # noqa
        sys.stderr.write('TRANSLATION-FAILED: %s: %s\n' % (type(e).__name__, e))
        return 2
    old = None
    if os.path.exists(outp):
        with open(outp) as f:
            old = f.read()
    if old != txt:
        with open(outp, 'w') as f:
            f.write(txt)
        print('BufGen.v rewritten')
    else:
        print('BufGen.v unchanged')
    return 0


if __name__ == '__main__':
    sys.exit(main())
