"""Run the implementation under /repo and canonicalise what it returns.

Everything the correspondence checks and the oracles observe of TexSoup goes
through this module, so that the canonical forms are written once and are the
same text the OCaml driver of the extracted model prints.
"""
import os
import signal
import sys

REPO = os.environ.get('TEXSOUP_REPO', '/repo')
if REPO not in sys.path:
    sys.path.insert(0, REPO)

import TexSoup as _pkg                                    # noqa: E402
from TexSoup import TexSoup                               # noqa: E402
from TexSoup.category import categorize                   # noqa: E402
from TexSoup.tokens import tokenize                       # noqa: E402
from TexSoup.utils import Token, Buffer, CharToLineOffset  # noqa: E402
from TexSoup import data as D                             # noqa: E402

assert os.path.realpath(_pkg.__file__).startswith(os.path.realpath(REPO)), \
    'TexSoup imported from %s, not from %s' % (_pkg.__file__, REPO)


class Watchdog(Exception):
    pass


def _alarm(signum, frame):
    raise Watchdog()


signal.signal(signal.SIGALRM, _alarm)


def with_watchdog(seconds, f, *a, **k):
    """Run f under a wall-clock watchdog (seconds may be fractional)."""
    signal.setitimer(signal.ITIMER_REAL, seconds)
    try:
        return f(*a, **k)
    finally:
        signal.setitimer(signal.ITIMER_REAL, 0)


def cps(s):
    """Code points of a str, '.'-joined; '-' when empty."""
    s = str.__str__(s) if not isinstance(s, (Token, D.TexText)) else str(s)
    return '.'.join(str(ord(c)) for c in s) if s else '-'


def catname(c):
    return c.name if c is not None else 'None'


# ---------------------------------------------------------------- categorize

def cat_of(ch):
    t = list(categorize(ch))
    assert len(t) == 1
    return t[0].category.name


# ------------------------------------------------------------------ tokenize

class NonTerminating(Exception):
    pass


def tokens_of(s, limit=None):
    """[(text, position, category name)] or raises.  A correct tokenizer
    yields at most len(s) tokens (none is empty); more than that means it no
    longer makes progress - stop instead of exhausting memory."""
    out = []
    cap = (len(s) + 2) if limit is None else limit
    for t in tokenize(categorize(s)):
        out.append((str(t), t.position, catname(t.category)))
        if len(out) > cap:
            raise NonTerminating()
    return out


def canon_tokens(s):
    try:
        toks = with_watchdog(20, tokens_of, s)
    except Watchdog:
        return 'ERR Watchdog'
    except BaseException as e:      # noqa
        return 'ERR ' + type(e).__name__
    return 'OK ' + ' '.join('(%s %d %s)' % (c, p, cps(t)) for t, p, c in toks)


# --------------------------------------------------------------------- trees

MATH_KIND = {'TexMathModeEnv': 'Inline', 'TexDisplayMathModeEnv': 'Display',
             'TexMathEnv': 'Paren', 'TexDisplayMathEnv': 'Bracket'}
GROUP_KIND = {'BraceGroup': 'Brace', 'BracketGroup': 'Bracket'}


def canon_expr(e):
    if isinstance(e, D.TexText):
        t = e._text
        if isinstance(t, Token):
            return '(T %s %d %s)' % (catname(t.category), t.position, cps(t))
        return '(X %s)' % cps(t)
    if isinstance(e, Token):
        return '(R %s %s)' % (e.position, cps(e))
    if isinstance(e, str):
        return '(S %s)' % cps(e)
    if isinstance(e, D.TexNode):
        return '(W %s)' % canon_expr(e.expr)
    cls = type(e).__name__
    args = ' '.join(canon_expr(a) for a in e.args)
    body = ' '.join(canon_expr(c) for c in e._contents)
    if cls == 'TexCmd':
        return '(C %s %d [%s] [%s])' % (cps(e.name), e.position, args, body)
    if cls == 'TexNamedEnv':
        return '(N %s %d [%s] [%s])' % (cps(e.name), e.position, args, body)
    if cls in MATH_KIND:
        assert not e.args
        return '(M %s %d [%s])' % (MATH_KIND[cls], e.position, body)
    if cls in GROUP_KIND:
        assert not e.args
        return '(G %s %d [%s])' % (GROUP_KIND[cls], e.position, body)
    if cls == 'TexEnv' and e.name == '[tex]':
        return '(ROOT [%s])' % body
    return '(? %s)' % cls


def parse(s, tol=0, skip=()):
    return TexSoup(s, skip_envs=tuple(skip), tolerance=tol)


def canon_parse(s, tol=0, skip=(), watchdog=None):
    """'OK <tree> | <str>' or 'ERR <ExceptionClass>'."""
    try:
        if watchdog:
            soup = with_watchdog(watchdog, parse, s, tol, skip)
        else:
            soup = parse(s, tol, skip)
    except Watchdog:
        return 'ERR Watchdog'
    except RecursionError:
        return 'ERR RecursionError'
    except BaseException as e:   # noqa
        return 'ERR ' + type(e).__name__
    return 'OK %s | %s' % (canon_expr(soup.expr), cps(str(soup)))


# ---------------------------------------------------- independent tree walks

def is_node_expr(x):
    return isinstance(x, D.TexExpr) and not isinstance(x, D.TexText)


def walk_exprs(e):
    """All TexExpr objects (not text) reachable from e through argument
    groups and content lists, e excluded, in document order.  Independent of
    the library's own views: looks only at .args and ._contents."""
    out = []
    for a in e.args:
        if is_node_expr(a):
            out.append(a)
            out.extend(walk_exprs(a))
    for c in e._contents:
        if is_node_expr(c):
            out.append(c)
            out.extend(walk_exprs(c))
    return out



def exercise_library():
    """Use the library the way an earlier part of a long-running process would
    have, BEFORE any check runs (called once in the main process; the worker
    processes are forked from it and inherit the module state): parses with
    options, parses that fail, and every kind of edit on throw-away trees.
    By C17 none of this may influence a later parse; with it in place every
    check also notices state that leaks from one call into the next (a
    module-level table extended in place, a shared default list, a cached
    coerced group, a singleton token that ends up in a tree)."""
    from TexSoup.data import TexArgs, BraceGroup
    try:
        from TexSoup.tokens import MATH_ENV_NAMES, SKIP_ENV_NAMES
        names = tuple(MATH_ENV_NAMES) + ('itemize', 'document', 'center', 'a', 'b', 'code', 'zz', 'quote')
    except Exception:      # noqa
        names = ('align', 'equation', 'a')
    docs = [r'\begin{align} \textbf{unfinished [ \end{align} t \begin{code}x{\end{code}',
            r'\begin{document}\begin{a}$x \in S$ \item u\end{a}\begin{verbatim}\end{verbatim}\end{document}',
            r'\section{A} text \textbf x \def\foo{1} $a \cup b$ \noindent more \alpha\beta',
            r'\begin{itemize}\bullet one \alpha two\item[x] {y} b\end{itemize} and \beta{x} \gamma',
            r'\newcommand{\eeq}{\end{equation}} \cmd{a}{a}{b} \begin{lstlisting}\end{lstlisting}',
            # a "style file": redefinitions of operators, of commands with a
            # fixed signature and of the reader's keywords must stay local to
            # the document that contains them
            r'\renewcommand{\cup}[2]{#1 \sqcup #2}\renewcommand{\in}[1]{\ni #1}\newcommand{\textbf}[3]{#1}'
            r'\providecommand{\infty}[1]{x}\newcommand{\foo}[2][d]{#1#2}\renewcommand{\item}[1]{#1}\def\begin{b}',
            '{', r'\begin{a}', '$', r'\item', r'\begin{equation}\item x\end{equation}', 'a\x00b\\']
    for d in docs:
        for tol in (0, 1):
            for sk in ((), names):
                try:
                    soup = _pkg.TexSoup(d, skip_envs=sk, tolerance=tol)
                    str(soup), repr(soup.expr), list(soup.descendants), list(soup.text)
                except BaseException:      # noqa
                    pass
    edits = [
        lambda s: s.find('bullet').__setattr__('name', 'item') or s.find('item').append(' first'),
        lambda s: s.find('in').args.append('{z}'),
        lambda s: s.find('noindent').args.extend(['{q}', '[r]']),
        lambda s: s.find('cmd').args.insert(1, '{n}') or s.find('cmd').args.pop(),
        lambda s: s.find('section').args.reverse(),
        lambda s: s.find('alpha').delete(),
        lambda s: s.find('beta').replace_with('R', s.find('gamma').copy()),
        lambda s: setattr(s.find('section'), 'string', 'S'),
        lambda s: setattr(s.find('a'), 'name', 'renamed'),
        lambda s: s.find('verbatim').contents and setattr(list(s.find('verbatim').contents)[0], 'text', 'EDITED'),
        lambda s: s.find('lstlisting').append('APP'),
        lambda s: s.insert(0, 'lead ', s.find('textbf').copy()),
        lambda s: list(s.search_regex('[a-z]+')),
    ]
    for e in edits:
        for d in docs[:5]:
            try:
                e(_pkg.TexSoup(d))
            except BaseException:      # noqa
                pass
    try:
        a = TexArgs(['{a}', '[b]', '{a}'])
        a.append('{c}'), a.insert(-1, '[d]'), a.remove('{a}'), a.pop(0), a.reverse(), a.extend(['{e}'])
        a.append(BraceGroup('g'))
        a.clear()
    except BaseException:      # noqa
        pass
    try:
        from TexSoup.utils import Buffer
        from TexSoup.category import categorize
        from TexSoup.tokens import tokenize
        t = tokenize(categorize(r'\ab cd{e}'))
        t.peek(), t.forward(1), t.backward(1), list(Buffer(t))
        b = Buffer('abc')
        next(b), b.peek((-1, 2)), b.forward_until(lambda c: c == 'z'), b.hasNext()
    except BaseException:      # noqa
        pass
