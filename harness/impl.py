"""Run the implementation under /repo and canonicalise what it returns.

Everything the correspondence checks and the oracles observe of TexSoup goes
through this module, so that the canonical forms are written once and are the
same text the OCaml driver of the extracted model prints.
"""
import os
import signal
import sys

REPO = os.environ.get('TEXSOUP_REPO', '/repo')
if REPO not in sys.path:
    sys.path.insert(0, REPO)

import TexSoup as _pkg                                    # noqa: E402
from TexSoup import TexSoup                               # noqa: E402
from TexSoup.category import categorize                   # noqa: E402
from TexSoup.tokens import tokenize                       # noqa: E402
from TexSoup.utils import Token, Buffer, CharToLineOffset  # noqa: E402
from TexSoup import data as D                             # noqa: E402

assert os.path.realpath(_pkg.__file__).startswith(os.path.realpath(REPO)), \
    'TexSoup imported from %s, not from %s' % (_pkg.__file__, REPO)


class Watchdog(Exception):
    pass


def _alarm(signum, frame):
    raise Watchdog()


signal.signal(signal.SIGALRM, _alarm)


def with_watchdog(seconds, f, *a, **k):
    """Run f under a wall-clock watchdog (seconds may be fractional)."""
    signal.setitimer(signal.ITIMER_REAL, seconds)
    try:
        return f(*a, **k)
    finally:
        signal.setitimer(signal.ITIMER_REAL, 0)


def cps(s):
    """Code points of a str, '.'-joined; '-' when empty."""
    s = str.__str__(s) if not isinstance(s, (Token, D.TexText)) else str(s)
    return '.'.join(str(ord(c)) for c in s) if s else '-'


def catname(c):
    return c.name if c is not None else 'None'


# ---------------------------------------------------------------- categorize

def cat_of(ch):
    t = list(categorize(ch))
    assert len(t) == 1
    return t[0].category.name


# ------------------------------------------------------------------ tokenize

class NonTerminating(Exception):
    pass


def tokens_of(s, limit=None):
    """[(text, position, category name)] or raises.  A correct tokenizer
    yields at most len(s) tokens (none is empty); more than that means it no
    longer makes progress - stop instead of exhausting memory."""
    out = []
    cap = (len(s) + 2) if limit is None else limit
    for t in tokenize(categorize(s)):
        out.append((str(t), t.position, catname(t.category)))
        if len(out) > cap:
            raise NonTerminating()
    return out


def canon_tokens(s):
    try:
        toks = with_watchdog(20, tokens_of, s)
    except Watchdog:
        return 'ERR Watchdog'
    except BaseException as e:      # noqa
        return 'ERR ' + type(e).__name__
    return 'OK ' + ' '.join('(%s %d %s)' % (c, p, cps(t)) for t, p, c in toks)


# --------------------------------------------------------------------- trees

MATH_KIND = {'TexMathModeEnv': 'Inline', 'TexDisplayMathModeEnv': 'Display',
             'TexMathEnv': 'Paren', 'TexDisplayMathEnv': 'Bracket'}
GROUP_KIND = {'BraceGroup': 'Brace', 'BracketGroup': 'Bracket'}


def canon_expr(e):
    if isinstance(e, D.TexText):
        t = e._text
        if isinstance(t, Token):
            return '(T %s %d %s)' % (catname(t.category), t.position, cps(t))
        return '(X %s)' % cps(t)
    if isinstance(e, Token):
        return '(R %s %s)' % (e.position, cps(e))
    if isinstance(e, str):
        return '(S %s)' % cps(e)
    if isinstance(e, D.TexNode):
        return '(W %s)' % canon_expr(e.expr)
    cls = type(e).__name__
    args = ' '.join(canon_expr(a) for a in e.args)
    body = ' '.join(canon_expr(c) for c in e._contents)
    if cls == 'TexCmd':
        return '(C %s %d [%s] [%s])' % (cps(e.name), e.position, args, body)
    if cls == 'TexNamedEnv':
        return '(N %s %d [%s] [%s])' % (cps(e.name), e.position, args, body)
    if cls in MATH_KIND:
        assert not e.args
        return '(M %s %d [%s])' % (MATH_KIND[cls], e.position, body)
    if cls in GROUP_KIND:
        assert not e.args
        return '(G %s %d [%s])' % (GROUP_KIND[cls], e.position, body)
    if cls == 'TexEnv' and e.name == '[tex]':
        return '(ROOT [%s])' % body
    return '(? %s)' % cls


def parse(s, tol=0, skip=()):
    return TexSoup(s, skip_envs=tuple(skip), tolerance=tol)


def canon_parse(s, tol=0, skip=(), watchdog=None):
    """'OK <tree> | <str>' or 'ERR <ExceptionClass>'."""
    try:
        if watchdog:
            soup = with_watchdog(watchdog, parse, s, tol, skip)
        else:
            soup = parse(s, tol, skip)
    except Watchdog:
        return 'ERR Watchdog'
    except RecursionError:
        return 'ERR RecursionError'
    except BaseException as e:   # noqa
        return 'ERR ' + type(e).__name__
    return 'OK %s | %s' % (canon_expr(soup.expr), cps(str(soup)))


# ---------------------------------------------------- independent tree walks

def is_node_expr(x):
    return isinstance(x, D.TexExpr) and not isinstance(x, D.TexText)


def walk_exprs(e):
    """All TexExpr objects (not text) reachable from e through argument
    groups and content lists, e excluded, in document order.  Independent of
    the library's own views: looks only at .args and ._contents."""
    out = []
    for a in e.args:
        if is_node_expr(a):
            out.append(a)
            out.extend(walk_exprs(a))
    for c in e._contents:
        if is_node_expr(c):
            out.append(c)
            out.extend(walk_exprs(c))
    return out
