"""K-args: correspondence between the Coq model of TexArgs (theories/Model/Args.v,
`run_args`) and the real TexSoup.data.TexArgs.

A case is (init, ops).  `init` is the constructor argument (groups, coercible
strings and whitespace strings only: a constructor that raises leaves no object
to observe), `ops` a sequence of method calls.  After the constructor and after
every operation both sides report: the outcome (None / returned element /
returned TexArgs / bool / TypeError / ValueError / IndexError), str(args),
len(args), [str(x) for x in args], and [(is-group-or-str, str(x)) for x in
args.all].  The two reports must be identical integer lists.

Scope: groups are built from one string (BraceGroup(body) / BracketGroup(body),
as TexGroup.parse builds them); characters are ASCII except in the str.isspace
probe, which feeds single code points; slices have step 1.

Independently of the model, the implementation side also checks that the owning
command prints '\\own' + str(args) after every step.
"""
import itertools
import os
import time

from common import Failure, Result, rng_for, pmap, chunked, NPROC
import corr
import impl

corr.DRIVER = os.environ.get('VERIF_DRIVER', corr.DRIVER)
D = impl.D

KIND = 'K-args'
EXC = {'TypeError': 10, 'ValueError': 11, 'IndexError': 12}
EXC_NAME = {v: k for k, v in EXC.items()}
TAG_NAME = {0: 'None', 1: 'value', 2: 'TexArgs', 3: 'bool', 10: 'TypeError', 11: 'ValueError', 12: 'IndexError'}


# ------------------------------------------------------------------ cases

def G(s):
    """group argument written as its rendering, e.g. G('{a}')"""
    assert s[0] + s[-1] in ('{}', '[]')
    return ('g', 0 if s[0] == '{' else 1, s[1:-1])


def S(s):
    return ('s', s)


def pyarg(a):
    if a[0] == 'g':
        return D.BraceGroup(a[2]) if a[1] == 0 else D.BracketGroup(a[2])
    return a[1]


def show_arg(a):
    if a[0] == 'g':
        return ('Brace(%r)' if a[1] == 0 else 'Bracket(%r)') % a[2]
    return repr(a[1])


def show_op(op):
    k = op[0]
    if k in ('append', 'remove', 'contains'):
        return '%s(%s)' % (k, show_arg(op[1]))
    if k == 'extend':
        return 'extend([%s])' % ', '.join(show_arg(a) for a in op[1])
    if k == 'insert':
        return 'insert(%d, %s)' % (op[1], show_arg(op[2]))
    if k == 'pop':
        return 'pop(%d)' % op[1]
    if k == 'pop0':
        return 'pop()'
    if k == 'get':
        return '[%d]' % op[1]
    if k == 'slice':
        return '[%s:%s]' % ('' if op[1] is None else op[1], '' if op[2] is None else op[2])
    return k + '()'


def show_case(case):
    init, ops = case
    return 'TexArgs([%s]); %s' % (', '.join(show_arg(a) for a in init),
                                 '; '.join(show_op(o) for o in ops))


def enc_s(s):
    return [len(s)] + [ord(c) for c in s]


def enc_arg(a):
    if a[0] == 'g':
        return [0, a[1]] + enc_s(a[2])
    return [1] + enc_s(a[1])


def enc_optz(v):
    return [0] if v is None else [1, v]


def enc_op(op):
    k = op[0]
    if k == 'append':
        return [0] + enc_arg(op[1])
    if k == 'extend':
        r = [1, len(op[1])]
        for a in op[1]:
            r += enc_arg(a)
        return r
    if k == 'insert':
        return [2, op[1]] + enc_arg(op[2])
    if k == 'remove':
        return [3] + enc_arg(op[1])
    if k == 'pop':
        return [4, op[1]]
    if k == 'pop0':
        return [5]
    if k == 'reverse':
        return [6]
    if k == 'clear':
        return [7]
    if k == 'get':
        return [8, op[1]]
    if k == 'slice':
        return [9] + enc_optz(op[1]) + enc_optz(op[2])
    if k == 'contains':
        return [10] + enc_arg(op[1])
    raise AssertionError(op)


def enc_case(case):
    init, ops = case
    r = [len(init)]
    for a in init:
        r += enc_arg(a)
    r.append(len(ops))
    for o in ops:
        r += enc_op(o)
    return r


# --------------------------------------------------------- implementation

def enc_elem(x):
    flag = 0 if isinstance(x, D.TexGroup) else 1 if isinstance(x, str) else 9
    return [flag] + enc_s(str(x))


def enc_state(A):
    r = enc_s(str(A)) + [len(A)]
    elems = [str(x) for x in list.__iter__(A)]
    r.append(len(elems))
    for e in elems:
        r += enc_s(e)
    r.append(len(A.all))
    for x in A.all:
        r += enc_elem(x)
    return r


def enc_out(v):
    if v is None:
        return [0]
    if isinstance(v, bool):
        return [3, 1 if v else 0]
    if isinstance(v, D.TexArgs):
        return [2] + enc_state(v)
    if isinstance(v, (D.TexGroup, str)):
        return [1] + enc_elem(v)
    return [98]


def apply_op(A, op):
    k = op[0]
    try:
        if k == 'append':
            return enc_out(A.append(pyarg(op[1])))
        if k == 'extend':
            return enc_out(A.extend([pyarg(a) for a in op[1]]))
        if k == 'insert':
            return enc_out(A.insert(op[1], pyarg(op[2])))
        if k == 'remove':
            return enc_out(A.remove(pyarg(op[1])))
        if k == 'pop':
            return enc_out(A.pop(op[1]))
        if k == 'pop0':
            return enc_out(A.pop())
        if k == 'reverse':
            return enc_out(A.reverse())
        if k == 'clear':
            return enc_out(A.clear())
        if k == 'get':
            return enc_out(A[op[1]])
        if k == 'slice':
            return enc_out(A[op[1]:op[2]])
        if k == 'contains':
            return enc_out(pyarg(op[1]) in A)
    except Exception as e:  # noqa
        return [EXC.get(type(e).__name__, 97)]
    raise AssertionError(op)


def impl_case(case):
    """returns (flat int list like the model's, owner_print_ok, outcome tags)"""
    init, ops = case
    owner = D.TexCmd('own', args=[pyarg(a) for a in init])
    A = owner.args
    assert type(A) is D.TexArgs
    out = [0] + enc_state(A)
    own_ok = str(owner) == '\\own' + str(A)
    tags = []
    for op in ops:
        o = apply_op(A, op)
        tags.append(o[0])
        out += o
        out += enc_state(A)
        own_ok = own_ok and str(owner) == '\\own' + str(A) and owner.args is A
    return out, own_ok, tags


def _impl_chunk(cases):
    return [impl_case(c) for c in cases]


# -------------------------------------------------- decoding for reports

def dec_s(xs, p):
    n = xs[p]
    return ''.join(chr(c) for c in xs[p + 1:p + 1 + n]), p + 1 + n


def dec_state(xs, p):
    s, p = dec_s(xs, p)
    ln = xs[p]
    n = xs[p + 1]
    p += 2
    lst = []
    for _ in range(n):
        e, p = dec_s(xs, p)
        lst.append(e)
    n = xs[p]
    p += 1
    al = []
    for _ in range(n):
        flag = xs[p]
        e, p = dec_s(xs, p + 1)
        al.append(('group' if flag == 0 else 'str' if flag == 1 else '?', e))
    return {'str': s, 'len': ln, 'list': lst, 'all': al}, p


def dec_out(xs, p):
    t = xs[p]
    if t == 0:
        return 'None', p + 1
    if t == 1:
        flag = xs[p + 1]
        e, p = dec_s(xs, p + 2)
        return ('value', 'group' if flag == 0 else 'str', e), p
    if t == 2:
        st, p = dec_state(xs, p + 1)
        return ('TexArgs', st), p
    if t == 3:
        return ('bool', bool(xs[p + 1])), p + 2
    if t in EXC_NAME:
        return EXC_NAME[t], p + 1
    return ('?', t), p + 1


def dec_records(xs):
    """decode a flat report into [(outcome, state)]; tolerant of garbage"""
    recs, p = [], 0
    try:
        while p < len(xs):
            o, p = dec_out(xs, p)
            st, p = dec_state(xs, p)
            recs.append((o, st))
    except (IndexError, ValueError, OverflowError):
        recs.append(('undecodable-tail', xs[p:p + 40]))
    return recs


def first_diff(a, b):
    ra, rb = dec_records(a), dec_records(b)
    for i in range(max(len(ra), len(rb))):
        x = ra[i] if i < len(ra) else None
        y = rb[i] if i < len(rb) else None
        if x != y:
            return i, x, y
    return None, None, None


# ---------------------------------------------------------- enumeration

ARGS_ALL = [G('{a}'), G('[a]'), G('{b}'), S('{a}'), S('[b]'), S(' '),
            S('{a'), S('a'), S('[a}'), S(''), S('{')]
ARGS_CORE = [G('{a}'), G('[a]'), S('{b}'), S(' '), S('{a')]
IDX = (-3, -2, -1, 0, 1, 2, 3)


def ops_full():
    ops = [('append', a) for a in ARGS_ALL]
    for i in IDX:
        for a in (G('{a}'), G('[a]'), S('{b}'), S(' '), S('[a}')):
            ops.append(('insert', i, a))
    ops += [('remove', a) for a in (G('{a}'), G('[a]'), G('{b}'), S('{a}'), S(' '), S('a'))]
    ops += [('pop', i) for i in IDX] + [('pop0',), ('reverse',), ('clear',)]
    ops += [('get', i) for i in IDX]
    ops += [('slice', lo, hi) for lo, hi in ((None, None), (0, 2), (1, None), (None, -1), (-2, 3), (2, 1))]
    ops += [('extend', (G('{a}'), S('[b]'))), ('extend', (S('{a}'), S('x'), S('{b}'))),
            ('extend', (S(' '), G('{a}'), G('{a}'))), ('extend', ())]
    ops += [('contains', a) for a in (G('{a}'), S('a'), S('{a}'))]
    return ops


def ops_core():
    ops = [('append', a) for a in ARGS_CORE]
    for i in (-3, -1, 0, 1, 2):
        for a in (G('{a}'), S('[c]'), S(' ')):
            ops.append(('insert', i, a))
    ops += [('remove', a) for a in (G('{a}'), S('[a]'), S(' '))]
    ops += [('pop', i) for i in (-2, -1, 0, 1)] + [('reverse',), ('clear',)]
    ops += [('get', -1), ('get', 1), ('slice', 1, None), ('slice', -2, 3),
            ('extend', (S(' '), G('{a}'), S('{b}'))), ('extend', (S('{a}'), S('x'))),
            ('contains', G('{a}'))]
    return ops


INITS = [(), (G('{a}'),), (G('{a}'), G('[a]'), G('{a}')), (S(' '), G('{a}'), S('{b}'), G('{a}')),
         (G('{b}'), G('{a}'), S('\n'), G('{b}'), S('[a]'))]


def ops_deep():
    """the mutating part of the core set (30 operations), for depth 4"""
    return [o for o in ops_core() if o[0] not in ('get', 'slice', 'contains') and o != ('pop', -2)]


def exhaustive_cases(tier):
    full, core = ops_full(), ops_core()
    if tier == 'quick':
        plans = [(full, 2, INITS), (core, 3, INITS[:4])]
    else:
        plans = [(full, 2, INITS), (full, 3, INITS[2:3]), (core, 3, INITS), (ops_deep(), 4, INITS[2:3])]
    notes = []
    for ops, depth, inits in plans:
        notes.append('all %d^%d operation sequences (every prefix observed) from %d initial lists'
                     % (len(ops), depth, len(inits)))

    def gen():
        for ops, depth, inits in plans:
            for init in inits:
                for seq in itertools.product(ops, repeat=depth):
                    yield (init, seq)
    return gen(), notes


def rand_arg(rng):
    r = rng.random()
    if r < 0.35:
        body = ''.join(rng.choice('ab{}[] ') for _ in range(rng.randint(0, 3)))
        return ('g', rng.randint(0, 1), body)
    if r < 0.6:
        return S(rng.choice('{[') + ''.join(rng.choice('ab ]}') for _ in range(rng.randint(0, 2)))
                 + rng.choice('}]'))
    if r < 0.75:
        return S(''.join(rng.choice(' \n\t') for _ in range(rng.randint(1, 2))))
    if r < 0.9:
        return S(''.join(rng.choice('{}[]ab \n') for _ in range(rng.randint(0, 4))))
    return rng.choice(ARGS_ALL)


def rand_op(rng):
    r = rng.random()
    i = rng.randint(-6, 6)
    if r < 0.2:
        return ('append', rand_arg(rng))
    if r < 0.4:
        return ('insert', i, rand_arg(rng))
    if r < 0.52:
        return ('remove', rand_arg(rng))
    if r < 0.64:
        return ('pop', i)
    if r < 0.66:
        return ('pop0',)
    if r < 0.72:
        return ('reverse',)
    if r < 0.74:
        return ('clear',)
    if r < 0.8:
        return ('get', i)
    if r < 0.87:
        return ('slice', rng.choice([None, i]), rng.choice([None, rng.randint(-6, 6)]))
    if r < 0.95:
        return ('extend', tuple(rand_arg(rng) for _ in range(rng.randint(0, 4))))
    return ('contains', rand_arg(rng))


def rand_init(rng):
    init = []
    for _ in range(rng.randint(0, 5)):
        a = rand_arg(rng)
        if a[0] == 's':
            s = a[1]
            ok = s.isspace() or (len(s) >= 2 and s[0] + s[-1] in ('{}', '[]'))
            if not ok:
                continue
        init.append(a)
    return tuple(init)


def random_cases(prop, tier):
    rng = rng_for(prop, KIND)
    n = 3000 if tier == 'quick' else 40000
    for _ in range(n):
        yield (rand_init(rng), tuple(rand_op(rng) for _ in range(rng.randint(1, 30))))


def isspace_cases(tier):
    """single-code-point strings: does __coerce treat them as whitespace?"""
    cps = list(range(0x3100))
    if tier != 'quick':
        cps += list(range(0x3100, 0x10000)) + list(range(0x10000, 0x110000, 97)) + [0x10FFFF]
    for cp in cps:
        yield ((), (('append', S(chr(cp))),))
    for s in (' \n', '\t ', ' a', 'a ', ' {a}', '{a} ', '\x1c\x1f', ' \x00'):
        yield ((), (('append', S(s)), ('remove', S(s))))


# ------------------------------------------------------------------- run

def _enc_chunk(cases):
    return ['X args ' + ' '.join(map(str, enc_case(c))) for c in cases]


def outcome_class(o):
    return o if isinstance(o, str) else o[0]


def _check_chunk(pairs):
    """implementation side + comparison, in a worker; returns (histogram, failures)"""
    hist, fails = {}, []
    for case, mline in pairs:
        iflat, own_ok, tags = impl_case(case)
        if ' '.join(map(str, iflat)) != mline.strip():
            try:
                mflat = [int(x) for x in mline.split()]
                step, xm, xi = first_diff(mflat, iflat)
            except ValueError:
                step, xm, xi = None, mline[:200], None
            fails.append(('mismatch', case, step, str(xi), str(xm)))
            hist['mismatch'] = hist.get('mismatch', 0) + 1
        if not own_ok:
            fails.append(('owner', case, None, None, None))
            hist['owner-print-mismatch'] = hist.get('owner-print-mismatch', 0) + 1
        for t in tags:
            hist[t] = hist.get(t, 0) + 1
    return hist, fails[:200]


def _compare(prop, r, batch, label):
    lines = []
    for part in pmap(_enc_chunk, chunked(batch, NPROC)):
        lines.extend(part)
    out_model = corr.run_driver(lines)
    for case in batch:
        r.saw((label, case), nontrivial=len(case[1]) > 0)
    r.count('cases-' + label, len(batch))
    for hist, fails in pmap(_check_chunk, chunked(list(zip(batch, out_model)), NPROC)):
        for k, v in hist.items():
            r.count(k if isinstance(k, str) else 'outcome-' + TAG_NAME.get(k, str(k)), v)
        for kind, case, step, xi, xm in fails:
            if kind == 'mismatch':
                r.fail(Failure(prop, KIND, {'case': show_case(case), 'first_differing_record': step,
                                            'encoded': enc_case(case)},
                               {'implementation': xi}, {'model': xm},
                               note='record 0 is the constructor, record k the k-th operation'))
            else:
                r.fail(Failure(prop, KIND, {'case': show_case(case)},
                               {'implementation': 'str(owner) != "\\\\own" + str(owner.args) at some step'},
                               {'model': 'cmd_str'},
                               note='owning command does not print the argument list'))


def run(prop, tier):
    t0 = time.time()
    r = Result(KIND)
    gen, notes = exhaustive_cases(tier)
    streams = [('exhaustive', gen), ('random', random_cases(prop, tier)),
               ('isspace', isspace_cases(tier))]
    bsz = 200000
    for label, g in streams:
        while True:
            batch = list(itertools.islice(g, bsz))
            if not batch:
                break
            _compare(prop, r, batch, label)
    r.exhaustive = True
    r.notes += notes
    r.notes.append('random sequences of 1..30 operations with random groups/strings/indices in -6..6; '
                   'single-code-point str.isspace probe up to %s'
                   % ('U+30FF' if tier == 'quick' else 'U+FFFF and every 97th code point up to U+10FFFF'))
    r.notes.append('compared after every step: outcome class/value, str, len, element strings, '
                   '.all element kinds and strings; owner print checked on the implementation')
    r.notes.append('wall %.1fs' % (time.time() - t0))
    return r
