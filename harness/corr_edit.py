"""K-edit: the extracted Coq model of the editing API (theories/Model/Edit.v,
`run_edit`) against TexSoup's TexNode / TexExpr editing methods.

A case is (source, [operation ...]).  Targets are addressed, on both sides, by
a path of indices through the `contents` view starting at the root; the real
code resolves it with `soup.contents[k1].contents[k2]...`, the model with its
own `resolve`.  New material: plain strings and `.copy()` of nodes of a donor
document, each from its own parse (no expression object enters a tree twice).
After every operation the outcome class and `str(soup)` are compared.

Operations (see the comment above `run_edit` in Edit.v for the encoding):
  delete, parent.remove(node), replace_with, ancestor.replace(node, ...),
  insert at any integer index, append, name / string / args setters,
  args.insert of an unparsed group.
Ill-targeted calls (remove of a node that lives in an argument, replace through
a non-parent ancestor, insert into a command without contents, string of a
multi-argument command ...) are part of the enumeration: their exception
classes and textual fall-backs are modelled too.
"""
import os
import re

import corr
import impl
import inputs
from common import Failure, Result, chunked, pmap, rng_for, NPROC
from impl import D

corr.DRIVER = os.environ.get('VERIF_DRIVER', corr.DRIVER)

TexNode = D.TexNode

# the donor document is the concatenation of these pieces; the k-th piece is the k-th item
# of the donor's top-level `contents` (asserted below), so a node of the donor can be
# produced by parsing its piece alone (a full donor parse per material node costs 5 ms)
DONOR_PIECES = [r'\new{n1}', r'\begin{q}body \emph{e}\end{q}', r'{grp}', r'$m$',
                r'\textit{it}', r'\item[z] itm']
DONOR = ''.join(DONOR_PIECES)

CODES = {'TypeError': 1, 'ValueError': 2, 'AssertionError': 3, 'IndexError': 4}

HAND_DOCS = [
    r'\a{x} mid \a{x} end',                          # twins in one body
    r'\begin{e}{\b}\b\end{e}',                       # twin of an argument child in the body
    r'\begin{e}{\a}\a\end{e}',
    r'\begin{itemize}\item a\item a\end{itemize}',   # items, twins
    r'\s{t}\s{t}\s{t}',
    r'\w{\u \u}{\u}',                                # twins across arguments
    r'{g}$m$ \[d\] t',                               # group and math as expressions
    r'\c[o]{p}{q}',                                  # several arguments
    r'\begin{itemize}\item[k] \x{1} t \item u\end{itemize}',
    r'\begin{e} ab \end{e}\g{h}',                    # text-only environment, one-argument command
    r'\begin{e}{x}\end{e}',                          # environment whose only content is in its argument
    r'\begin{verbatim}\b\end{verbatim}\b',           # bare token body
    r'\a{\b{\c}}',                                   # nesting through arguments
    r'$a\x{y}$',
    r'\begin{itemize}\item\c\end{itemize}',           # an item with a single content
]

NAMES = ['ren', 'item']
STRINGS = ['S1', 'new str']


# ------------------------------------------------------------------ material

def _node_vps(node, prefix=()):
    out = []
    for k, c in enumerate(node.contents):
        if isinstance(c, TexNode):
            out.append((prefix + (k,), c))
            out.extend(_node_vps(c, prefix + (k,)))
    return out


DONOR_VPS = [vp for vp, _ in _node_vps(impl.parse(DONOR))]
assert len(DONOR_VPS) >= 6, DONOR_VPS


def _shape(x):
    """the tree without source positions"""
    if isinstance(x, TexNode):
        x = x.expr
    if isinstance(x, D.TexText):
        return ('text', type(x._text).__name__, str(x))
    if not isinstance(x, D.TexExpr):
        return (type(x).__name__, str(x))
    return (type(x).__name__, str(x.name), [_shape(a) for a in x.args],
            [_shape(c) for c in x._contents])


def _donor_node(vp):
    n = impl.parse(DONOR_PIECES[vp[0]])
    for p in (0,) + tuple(vp[1:]):
        n = n.contents[p]
    return n


def _check_pieces():
    whole = impl.parse(DONOR)
    for vp in DONOR_VPS:
        n = whole
        for p in vp:
            n = n.contents[p]
        assert _shape(n) == _shape(_donor_node(vp)), (vp, _shape(n), _shape(_donor_node(vp)))


_check_pieces()

MATS_CORE = [
    (('s', 'X'),),
    (('d', DONOR_VPS[0]),),
]
MATS_FULL = MATS_CORE + [
    (('s', 'plain '), ('d', DONOR_VPS[1])),
    (('d', DONOR_VPS[3]), ('s', ' two words '), ('d', DONOR_VPS[4])),
    (('d', DONOR_VPS[-1]),),                          # \item[z] itm
    (('s', '\\b'), ('d', DONOR_VPS[2])),              # a plain string that reads like a node
]


def i_resolve(soup, vp):
    n = soup
    for p in vp:
        n = n.contents[p]
    return n


def make_material(mats):
    out = []
    for kind, v in mats:
        if kind == 's':
            out.append(v)
        else:
            out.append(_donor_node(v).copy())
    return out


# ------------------------------------------------------------- the operations

def apply_op(soup, op):
    k = op[0]
    if k == 'delete':
        i_resolve(soup, op[1]).delete()
    elif k == 'remove':
        node = i_resolve(soup, op[1])
        node.parent.remove(node)
    elif k == 'replace_with':
        node = i_resolve(soup, op[1])
        node.replace_with(*make_material(op[2]))
    elif k == 'replace':
        node = i_resolve(soup, op[2])
        anc = i_resolve(soup, op[2][:op[1]])
        anc.replace(node, *make_material(op[3]))
    elif k == 'insert':
        i_resolve(soup, op[1]).insert(op[2], *make_material(op[3]))
    elif k == 'append':
        i_resolve(soup, op[1]).append(*make_material(op[2]))
    elif k == 'rename':
        i_resolve(soup, op[1]).name = op[2]
    elif k == 'set_string':
        i_resolve(soup, op[1]).string = op[2]
    elif k == 'set_args':
        node = i_resolve(soup, op[1])
        node.args = D.TexArgs([node.args[i] for i in op[2]])
    elif k == 'args_insert':
        g = ('{%s}' if op[3] == 0 else '[%s]') % op[4]
        i_resolve(soup, op[1]).args.insert(op[2], g)
    else:
        raise RuntimeError('unknown op %r' % (op,))


def run_impl(src, ops):
    """the same integers run_edit emits"""
    soup = impl.parse(src)
    out = []
    for op in ops:
        try:
            apply_op(soup, op)
            code = 0
        except (TypeError, ValueError, AssertionError, IndexError) as e:
            code = CODES[type(e).__name__]
        except BaseException as e:   # noqa
            code = 90
            out.append(code)
            out.append(type(e).__name__)
            break
        s = str(soup)
        out += [code, len(s)] + [ord(c) for c in s]
    return out


def replay(src, ops):
    """the tree after ops (exceptions leave it as it is)"""
    soup = impl.parse(src)
    for op in ops:
        try:
            apply_op(soup, op)
        except (TypeError, ValueError, AssertionError, IndexError):
            pass
    return soup


# ------------------------------------------------------------------ encoding

def enc_list(xs):
    xs = list(xs)
    return [len(xs)] + xs


def enc_str(s):
    return enc_list(ord(c) for c in s)


def enc_mats(ms):
    out = [len(ms)]
    for kind, v in ms:
        out += ([0] + enc_str(v)) if kind == 's' else ([1] + enc_list(v))
    return out


def enc_op(op):
    k = op[0]
    if k == 'delete':
        return [1] + enc_list(op[1])
    if k == 'remove':
        return [2] + enc_list(op[1])
    if k == 'replace_with':
        return [3] + enc_list(op[1]) + enc_mats(op[2])
    if k == 'replace':
        return [4, op[1]] + enc_list(op[2]) + enc_mats(op[3])
    if k == 'insert':
        return [5] + enc_list(op[1]) + [op[2]] + enc_mats(op[3])
    if k == 'append':
        return [6] + enc_list(op[1]) + enc_mats(op[2])
    if k == 'rename':
        return [7] + enc_list(op[1]) + enc_str(op[2])
    if k == 'set_string':
        return [8] + enc_list(op[1]) + enc_str(op[2])
    if k == 'set_args':
        return [9] + enc_list(op[1]) + enc_list(op[2])
    if k == 'args_insert':
        return [10] + enc_list(op[1]) + [op[2], op[3]] + enc_str(op[4])
    raise RuntimeError(op)


def encode(src, ops):
    out = [ord(c) for c in src] + [-1] + [ord(c) for c in DONOR] + [-1]
    for op in ops:
        out += enc_op(op)
    return out


# --------------------------------------------------- every operation of a tree

def arg_variants(n):
    """index selections of an argument list of length n: prefix, slice,
    reversal, rotation (each old group at most once)"""
    ids = list(range(n))
    vs = []
    for v in (ids[:-1], ids[1:], ids[::-1], ids[1:] + ids[:1]):
        if n >= 1 and v != ids and v not in vs:
            vs.append(v)
    return [tuple(v) for v in vs]


def universe(soup, level):
    """all operations with all valid targets and indices on the current tree.
    level 2 (full): all material lists, out-of-range indices, the ill-targeted variants;
    level 1 (core): two material lists; level 0 (mini): one material list per operation"""
    full = level >= 2
    mats = MATS_FULL if full else MATS_CORE
    rmats = mats if level >= 1 else mats[1:2]       # replace_with / append
    imats = mats if level >= 1 else mats[0:1]       # insert
    ops = []
    nodes = _node_vps(soup)
    for vp, n in nodes:
        ops.append(('delete', vp))
        ops.append(('remove', vp))
        for m in rmats:
            ops.append(('replace_with', vp, m))
        if level >= 1:
            ops.append(('replace', len(vp) - 1, vp, mats[-1]))
        if full and len(vp) >= 2:
            for k in range(len(vp) - 1):
                ops.append(('replace', k, vp, mats[0]))
    for vp, n in [((), soup)] + nodes:
        e = n.expr
        ln = len(e._contents)
        idxs = list(range(ln + 1))
        if full:
            idxs += [-1, -2, -ln - 2, ln + 2]
        for i in idxs:
            for m in (imats if 0 <= i <= ln else mats[2:4]):
                ops.append(('insert', vp, i, m))
        for m in rmats:
            ops.append(('append', vp, m))
        ops.append(('set_string', vp, STRINGS[0]))
        if full:
            ops.append(('set_string', vp, STRINGS[1]))
        if isinstance(e, (D.TexCmd, D.TexNamedEnv)):
            for nm in NAMES:
                ops.append(('rename', vp, nm))
            for v in arg_variants(len(e.args))[:4 if level >= 1 else 2]:
                ops.append(('set_args', vp, v))
            la = len(e.args)
            for i in ([0, la] if level == 1 else [la] if level == 0 else [0, la, -1, la + 3, -la - 2]):
                ops.append(('args_insert', vp, i, i % 2, 'ai'))
    # de-duplicate, keep order
    seen, out = set(), []
    for op in ops:
        if op not in seen:
            seen.add(op)
            out.append(op)
    return out


def histories_exhaustive(src, depth, first, later, prefix=()):
    """every history of exactly `depth` operations that starts with `prefix`;
    universe level `first` for the first step, `later` for the following ones"""
    out = []

    def go(pre, d):
        if d == 0:
            out.append(tuple(pre))
            return
        soup = replay(src, pre)
        for op in universe(soup, later if pre else first):
            go(pre + [op], d - 1)
    go(list(prefix), depth - len(prefix))
    return out


def history_random(src, rng, length):
    soup = impl.parse(src)
    hist = []
    for _ in range(length):
        u = universe(soup, 2)
        if not u:
            break
        # half of the time prefer an operation that applies
        op = rng.choice(u)
        hist.append(op)
        try:
            apply_op(soup, op)
        except (TypeError, ValueError, AssertionError, IndexError):
            pass
        if len(str(soup)) > 600:
            break
    return tuple(hist)


SCRIPTED = [
    # a plain string that reads like the node: the textual fall-back of remove takes it
    (r'\begin{e}{\b}\end{e}', (('insert', (0,), 0, (('s', '\\b'),)), ('remove', (0, 0)))),
    # insertion at a negative index is not contiguous
    (r'\begin{e}a\x b\end{e}', (('insert', (0,), -1, (('s', 'P'), ('s', 'Q'))),)),
    # a renamed \item keeps accepting edits of the contents it holds (repo fix a1e735f) ...
    (r'\begin{itemize}\item a \c\end{itemize}', (('rename', (0, 0), 'foo'), ('delete', (0, 0, 1)),
                                                  ('insert', (0, 0), 1, (('s', 'P'), ('d', DONOR_VPS[0]))),
                                                  ('replace_with', (0, 0, 2), (('s', 'Q'),)),
                                                  ('append', (0, 0), (('s', 'R'),)))),
    # ... until it is empty
    (r'\begin{itemize}\item\c\end{itemize}', (('rename', (0, 0), 'foo'), ('delete', (0, 0, 0)),
                                               ('append', (0, 0), (('s', 'x'),)))),
    # replacing its only content removes it and then raises (exception with a changed tree)
    (r'\begin{itemize}\item\c\end{itemize}', (('rename', (0, 0), 'foo'),
                                               ('replace_with', (0, 0, 0), (('s', 'X'),)),
                                               ('append', (0, 0), (('s', 'x'),)))),
    (r'\begin{itemize}\item\c\end{itemize}', (('rename', (0, 0), 'foo'),
                                               ('replace', 2, (0, 0, 0), (('d', DONOR_VPS[0]),)))),
    # a renamed command becomes a container
    (r'\a\b', (('rename', (0,), 'item'), ('append', (0,), (('s', 'x'),)))),
    # string of an environment whose text sits in its argument
    (r'\begin{e}{x}\end{e}', (('set_string', (0,), 'S'), ('set_string', (0,), 'T'))),
]


# ------------------------------------------------------------------- running

def _gen_chunk(arg):
    kind, items = arg
    out = []
    for it in items:
        if kind == 'exh':
            src, depth, first, later, prefix = it
            out += [(src, h) for h in histories_exhaustive(src, depth, first, later, prefix)]
    return out


def _rand_chunk(arg):
    prop, idx, docs, n, maxlen = arg
    rng = rng_for(prop, 'K-edit/random/%d' % idx)
    out = []
    for _ in range(n):
        d = rng.choice(docs)
        out.append((d, history_random(d, rng, rng.randint(3, maxlen))))
    return out


def _impl_chunk(cases):
    return [' '.join(map(str, run_impl(src, ops))) for src, ops in cases]


def parses_and_roundtrips(src):
    try:
        soup = impl.with_watchdog(2.0, impl.parse, src)
    except BaseException:   # noqa
        return False
    return str(soup) == src


def documents(prop, tier):
    n, maxchars = (40, 60) if tier == 'quick' else (300, 90)
    docs = list(HAND_DOCS)
    for s, _ in inputs.grammar_docs(prop, n, 2, salt='edit', maxchars=maxchars):
        if s not in docs and inputs.env_in_arg_depth(s) <= 3 and parses_and_roundtrips(s):
            docs.append(s)
    return docs


def run(prop, tier):
    r = Result('K-edit')
    docs = documents(prop, tier)
    tiny = [d for d in docs if len(d) <= 24]
    quick = tier == 'quick'

    # 1. single edits, all targets and indices, full universe: every document
    gen = [('exh', [(d, 1, 2, 2)]) for d in docs]
    # 2. histories of length 2, exhaustively
    if quick:
        two = [(d, 2, 1, 1) for d in HAND_DOCS[:2] + HAND_DOCS[7:8] + HAND_DOCS[-1:]]
    else:
        two = [(d, 2, 2, 1) for d in HAND_DOCS[:6]]
        two += [(d, 2, 1, 1) for d in list(dict.fromkeys(HAND_DOCS[6:] + tiny[:12]))]
    gen += [('exh', [t]) for t in two]
    # 3. thorough: length 3 exhaustively on tiny documents
    three = [] if quick else [r'\a{x}\a{x}', r'\begin{e}{\b}\b\end{e}', r'\item a\item a', r'{g}$m$']
    gen += [('exh', [(d, 3, 0, 0)]) for d in three]
    # one generation task per (document, first operation), so that the work spreads
    tasks = []
    for _, items in gen:
        for src, depth, first, later in items:
            if depth == 1:
                tasks.append(('exh', [(src, depth, first, later, ())]))
            else:
                for op in universe(impl.parse(src), first):
                    tasks.append(('exh', [(src, depth, first, later, (op,))]))
    cases = []
    for part in pmap(_gen_chunk, tasks):
        cases.extend(part)
    n_exh = len(cases)
    # 4. random histories (generated in parallel, one random stream per chunk)
    nrand, maxlen = (160, 12) if quick else (3200, 40)
    nchunks = NPROC * 2
    per = nrand // nchunks
    nrand = per * nchunks
    for part in pmap(_rand_chunk, [(prop, i, docs, per, maxlen) for i in range(nchunks)]):
        cases.extend(part)
    cases += SCRIPTED

    lines = ['X edit ' + ' '.join(map(str, encode(src, ops))) for src, ops in cases]
    out_model = corr.run_driver(lines)
    # round-robin chunks: the long random histories are spread over all workers
    k = NPROC * 4
    out_impl = [None] * len(cases)
    for i, part in enumerate(pmap(_impl_chunk, [cases[i::k] for i in range(k)])):
        out_impl[i::k] = part

    for (src, ops), om, oi in zip(cases, out_model, out_impl):
        desc = (src, tuple(map(str, ops)))
        r.saw(desc, nontrivial=len(ops) > 0)
        r.count('history-length:%02d' % min(len(ops), 13))
        # a rename followed by an edit of something below the renamed node
        for a in range(len(ops)):
            if ops[a][0] == 'rename':
                for b in range(a + 1, len(ops)):
                    vp = ops[b][2] if ops[b][0] == 'replace' else ops[b][1]
                    if len(vp) > len(ops[a][1]) and tuple(vp[:len(ops[a][1])]) == tuple(ops[a][1]):
                        r.count('rename-then-edit-below')
                        if ops[b][0] in ('delete', 'remove', 'replace_with', 'replace'):
                            r.count('rename-then-structural-edit-of-child')
                        break
        toks = oi.split(' ')
        # histogram of (operation, outcome) from the implementation's side
        j = 0
        for op in ops:
            if j >= len(toks) or not toks[j].lstrip('-').isdigit():
                break
            code = int(toks[j])
            r.count('op:%s:%s' % (op[0], {0: 'ok', 1: 'TypeError', 2: 'ValueError',
                                          3: 'AssertionError', 4: 'IndexError'}.get(code, code)))
            if j + 1 >= len(toks) or not toks[j + 1].isdigit():
                break
            j += 2 + int(toks[j + 1])
        if om != oi and corr.parse_differs(src, 0):
            r.count('skipped:parse-differs')
            continue
        if om != oi:
            r.fail(Failure(prop, 'K-edit', {'source': src, 'ops': [list(map(str, o)) for o in ops]},
                           {'implementation': oi[:600]}, {'model': om[:600]},
                           note='per step: outcome code, length, code points of str(soup)'))
    r.exhaustive = True
    r.notes.append('%d documents (%d hand-written with twins/arguments/items/groups/math); '
                   'exhaustive: every single edit with every valid target and index on all documents, '
                   'every history of length 2 on %d documents%s (%d cases); random histories: %d of '
                   'length <= %d; %d scripted' % (
                       len(docs), len(HAND_DOCS), len(two),
                       (', of length 3 on %d tiny documents' % len(three)) if three else '',
                       n_exh, nrand, maxlen, len(SCRIPTED)))
    return r
