#!/venv/bin/python
"""Entry point of every check:  main.py <Cxx> [--tier quick|thorough] [--replay <file>]

Order of work (DESIGN.md section 4): regenerate tables + build, re-check the
property's proof obligations, correspondence for the stages the property
depends on, direct oracle on the implementation, verdict, evidence.
"""
import argparse
import hashlib
import json
import os
import re
import sys
import time

HERE = os.path.dirname(os.path.abspath(__file__))
sys.path.insert(0, HERE)
os.environ.setdefault('PYTHONHASHSEED', '0')

import common                                   # noqa: E402
from common import Failure, Result, VERIF, REPO, seed  # noqa: E402

LEVEL = 'proof'


def load_modules():
    import corr
    import oracles_parse
    import oracles_tree
    import oracles_struct
    import oracles_hist
    import corr_more
    import classifiers
    return corr, [oracles_parse, oracles_tree, oracles_struct, oracles_hist], corr_more, classifiers


# which correspondences each property's verdict depends on
# A property lists the correspondences of the stages its theorems depend on.
# C03/C04/C05/C15 are proved for ARBITRARY trees, so they depend on the view /
# edit stage only; K-view and K-edit skip a document on which model and code
# already disagree about the parse (that is K-parse's business).
CORR = {
    'C01': ['K-tok', 'K-parse'], 'C02': ['K-tok', 'K-parse'], 'C03': ['K-view'],
    'C04': ['K-view'], 'C05': ['K-edit'], 'C06': ['K-tok', 'K-parse'],
    'C07': ['K-parse'], 'C08': ['K-tok', 'K-parse'], 'C09': ['K-tok', 'K-parse'],
    'C10': ['K-tok', 'K-parse'], 'C11': ['K-parse'], 'C12': ['K-tok', 'K-parse'],
    'C13': ['K-tok', 'K-parse', 'K-clo', 'K-regex'], 'C14': ['K-parse', 'K-edit'], 'C15': ['K-edit'],
    'C16': ['K-parse'], 'C17': ['K-tok', 'K-parse'], 'C18': ['K-args'],
    'C19': ['K-cat', 'K-tok'], 'C20': ['K-buf'],
}


def props_files(prop):
    import glob
    d = os.path.join(VERIF, 'coq', 'theories', 'Props')
    found = sorted(glob.glob(os.path.join(d, prop + '.v')) + glob.glob(os.path.join(d, prop + '[a-z]*.v')))
    try:
        import corr as _corr
        found += [os.path.join(d, f) for f, ps in sorted(_corr.SHARED_PROPS.items())
                  if prop in ps and os.path.exists(os.path.join(d, f))]
    except Exception:      # noqa
        pass
    # only files that are part of the development (listed in _CoqProject):
    # a file still being written is not an obligation yet
    try:
        with open(os.path.join(VERIF, 'coq', '_CoqProject')) as f:
            listed = {l.strip() for l in f}
        found = [p for p in found if 'theories/Props/' + os.path.basename(p) in listed]
    except OSError:
        pass
    return found


def check_props(prop, corr, skip=()):
    """Re-check every Props/<prop>*.v with coqc (always, even when its .vo is
    up to date) and read the Print Assumptions output.  `skip`: Props files
    whose generated model could not be regenerated this run (their theorems
    would be about a stale translation, so they are not counted)."""
    info = {'files': [], 'file': None, 'theorems': [], 'obligations': 0, 'discharged': 0,
            'axioms': [], 'closed': 0, 'ok': False, 'error': None, 'forbidden': [], 'coqc_s': 0.0,
            'not_rechecked': []}
    paths = props_files(prop)
    info['not_rechecked'] = [os.path.basename(p) for p in paths if os.path.basename(p) in skip]
    paths = [p for p in paths if os.path.basename(p) not in skip]
    if not paths:
        info['error'] = 'no Props file'
        return info
    # forbidden constructs anywhere in the development
    try:
        with open(os.path.join(VERIF, 'coq', '_CoqProject')) as f:
            vfiles = [l.strip() for l in f if l.strip().endswith('.v')]
    except OSError:
        vfiles = []
    rc, out = corr.sh(r"grep -nE '\b(Admitted|admit|Axiom|Parameter|Conjecture)\b|Unset Guard|bypass_check|type-in-type|Admit Obligations' "
                      + ' '.join(vfiles) +
                      r" /dev/null | grep -vE ':[0-9]+: *\(\*|\(\*.*(Admitted|admit|Axiom|Parameter|Conjecture).*\*\)' || true",
                      cwd=os.path.join(VERIF, 'coq'))
    info['forbidden'] = [l for l in out.splitlines() if l.strip()][:10]
    args = '-Q theories/Model TexModel -Q theories/Proofs TexProofs -Q theories/Props TexProps'
    cmds = []
    allok = True
    for path in paths:
        rel = os.path.relpath(path, os.path.join(VERIF, 'coq'))
        src = open(path).read()
        thms = re.findall(r'^\s*(?:Theorem|Corollary)\s+(\w+)', src, re.M)
        info['files'].append(rel)
        info['theorems'] += thms
        info['obligations'] += len(thms)
        t0 = time.time()
        rc, out = corr.sh('timeout 900 coqc %s %s' % (args, rel), cwd=os.path.join(VERIF, 'coq'), timeout=1000)
        if rc == 124:       # timed out (loaded machine): once more, with more time
            rc, out = corr.sh('timeout 2700 coqc %s %s' % (args, rel), cwd=os.path.join(VERIF, 'coq'), timeout=2800)
        info['coqc_s'] = round(info['coqc_s'] + time.time() - t0, 1)
        cmds.append('coqc %s %s' % (args, rel))
        if rc != 0:
            allok = False
            info['file'] = rel
            info['error'] = out[-800:]
            m = re.search(r'line (\d+)', out)
            if m:
                line = int(m.group(1))
                before = [t for t in re.finditer(r'^\s*(?:Theorem|Corollary|Lemma|Example)\s+(\w+)', src, re.M)
                          if src[:t.start()].count('\n') < line]
                info['failing'] = before[-1].group(1) if before else None
                if info['failing']:
                    info['discharged'] += len([t for t in thms if src.find(t) < src.find(info['failing'])])
            continue
        info['closed'] += out.count('Closed under the global context')
        if 'Axioms:' in out:
            for blk in out.split('Axioms:')[1:]:
                info['axioms'] += re.findall(r'^\s*([A-Za-z_][\w.]*)\s*:', blk, re.M)
        info['discharged'] += len(thms)
    info['axioms'] = sorted(set(info['axioms']))
    info['checker_cmd'] = 'cd coq && ' + ' && '.join(cmds)
    info['file'] = info['file'] or info['files'][0]
    info['ok'] = allok
    return info


def write_replay(prop, payload):
    os.makedirs(os.path.join(VERIF, 'replay'), exist_ok=True)
    h = hashlib.sha1(json.dumps(payload, sort_keys=True, default=str).encode()).hexdigest()[:10]
    path = os.path.join(VERIF, 'replay', '%s-%s.json' % (prop, h))
    with open(path, 'w') as f:
        json.dump(payload, f, indent=1, default=str)
    return path


def main():
    ap = argparse.ArgumentParser()
    ap.add_argument('prop')
    ap.add_argument('--tier', default=os.environ.get('VERIF_TIER', 'quick'))
    ap.add_argument('--replay')
    a = ap.parse_args()
    prop, tier = a.prop, a.tier if a.tier in ('quick', 'thorough') else 'quick'
    t0 = time.time()
    corr, oracle_mods, corr_more, classifiers = load_modules()
    try:
        import impl as _impl
        _impl.exercise_library()
    except BaseException:      # noqa
        pass
    if a.replay:
        return replay(a.replay, classifiers)

    # 1. translate + build
    build = corr.build_all()
    # 2. proof obligations of this property
    tfail = getattr(build, 'translator_failures', {}) or {}
    skip_props = set()
    for st in tfail:
        if st in corr.GEN_PROPS and prop in corr.GEN_PROPS[st][0]:
            fs = corr.GEN_PROPS[st][1]
            skip_props |= set([fs] if isinstance(fs, str) else fs)
    proofs = check_props(prop, corr, skip=skip_props)
    # 3. correspondence
    corr_results = []
    driver_ok = os.path.exists(corr.DRIVER)
    crashes = []
    for k in CORR[prop]:
        if not driver_ok:
            break
        try:
            if k == 'K-cat':
                corr_results.append(corr.k_cat(prop, tier))
            elif k == 'K-tok':
                corr_results.append(corr.k_tok(prop, tier))
            elif k == 'K-parse':
                corr_results.append(corr.k_parse(prop, tier))
            else:
                r = corr_more.run(k, prop, tier)
                if r is not None:
                    corr_results.append(r)
        except BaseException:      # noqa
            import traceback
            crashes.append({'kind': 'harness-crash', 'stage': k, 'traceback': traceback.format_exc()[-1200:]})
    if driver_ok and any(k in ('K-tok', 'K-parse') for k in CORR[prop]):
        try:
            tc, _ = corr.tok_cases(prop, 'quick')
            pc, _ = corr.parse_cases(prop, 'quick')
            rng = common.rng_for(prop, 'incoq')
            corr_results.append(corr.in_coq_sample(prop, rng.sample(tc, 60) + tc[-10:],
                                                   rng.sample(pc, 60) + pc[-10:]))
        except BaseException:      # noqa
            import traceback
            crashes.append({'kind': 'harness-crash', 'stage': 'in-Coq-sample',
                            'traceback': traceback.format_exc()[-1200:]})
    try:
        rx = corr.in_coq_x_sample(prop)
        if rx is not None:
            corr_results.append(rx)
    except BaseException:      # noqa
        import traceback
        crashes.append({'kind': 'harness-crash', 'stage': 'in-Coq-sample-X',
                        'traceback': traceback.format_exc()[-1200:]})
    # 4. direct oracle on the implementation
    oracle = None
    for m in oracle_mods:
        f = getattr(m, 'oracle_' + prop, None)
        if f is not None:
            try:
                oracle = f(tier)
            except BaseException:      # noqa
                import traceback
                crashes.append({'kind': 'harness-crash', 'stage': 'oracle',
                                'traceback': traceback.format_exc()[-1200:]})
    if oracle is None:
        oracle = Result('oracle-' + prop)
        oracle.notes.append('oracle did not complete')
    # 5. verdict
    known = common.load_known()
    lines, violations, known_hits = [], 0, {}
    unlisted = []
    for f in oracle.failures:
        kf = classifiers.match_known(f, known)
        if kf is not None:
            known_hits.setdefault(kf['id'], []).append(f)
        else:
            unlisted.append(f)
    for kid, fs in known_hits.items():
        kf = [k for k in known if k['id'] == kid][0]
        lines.append('KNOWN-FINDING: property=%s %s (%d inputs this run, e.g. %r)'
                     % (prop, kf['what'], len(fs), fs[0].inp if len(str(fs[0].inp)) < 120 else str(fs[0].inp)[:120]))
    for kf in known:
        if kf.get('status') != 'known' or prop not in kf.get('properties', []) or kf['id'] in known_hits:
            continue
        if classifiers.reproduces(kf):
            lines.append('KNOWN-FINDING: property=%s %s (recorded example replayed: still fails; e.g. %r)'
                         % (prop, kf['what'], kf.get('example')))
        else:
            lines.append('NOTE: known finding %s no longer reproduces on its recorded example' % kf['id'])
    broken = list(crashes)
    build_note = None
    if skip_props:
        build_note = ('translated-model tie not available this run for %s (%s): the translator gave up on the '
                      'current source, so the theorems "generated = hand model" were not re-checked; the hand '
                      'model is tied by the correspondence check only'
                      % (', '.join(sorted(skip_props)),
                         '; '.join('%s: %s' % (k, v) for k, v in tfail.items()
                                   if k in corr.GEN_PROPS and prop in corr.GEN_PROPS[k][0])))
        lines.append('NOTE: ' + build_note)
    if 'translate-tables-partial' in tfail:
        note = ('the table translator could not read the inline lists of the token rules from the rewritten '
                'source and kept their previous values (%s); model and code are tied for these by the '
                'correspondence check only' % tfail['translate-tables-partial'][:200])
        build_note = (build_note + ' | ' if build_note else '') + note
        lines.append('NOTE: ' + note)
    if not build.ok:
        # Which build failures leave THIS property unfounded:
        #  - Tables.v could not be regenerated, or the model / extraction /
        #    driver did not build: model and correspondence are stale -> all;
        #  - a Proofs/Props file failed: the property is affected exactly when
        #    one of its own Props files no longer compiles.  That is decided
        #    by check_props above, which re-runs coqc on each of them (the .vo
        #    of every failed file has been removed, and Coq refuses a .vo
        #    whose dependencies changed, so a stale proof cannot be loaded).
        stages = list(getattr(build, 'stages', None) or [build.stage])
        ffiles = list(getattr(build, 'failed_files', None) or ([build.failed_file] if build.failed_file else []))
        affects = False
        for st in stages:
            if st in ('translate-tables', 'extraction', 'driver-build') or st is None:
                affects = True
            elif st == 'coq-build':
                if not ffiles or any(f.startswith('theories/Model/') and not f.endswith(
                        tuple(corr.GENERATED_FILES) + ('DSL.v',))
                        or f.startswith('theories/Extract/') for f in ffiles):
                    affects = True
            else:
                affects = True
        if affects:
            broken.append({'kind': 'build', 'stage': build.stage, 'stages': stages, 'file': build.failed_file,
                           'files': ffiles,
                           'translation_error': build.translation_error, 'log': build.log[-600:]})
        else:
            build_note = (build_note + ' | ' if build_note else '') + ('build failure outside this property (stages %s, files %s): every Props file of %s '
                          'was re-checked by coqc against the current tables and compiles'
                          % (stages, ffiles, prop))
    if not proofs['ok']:
        broken.append({'kind': 'proof-obligation', 'file': proofs['file'],
                       'theorem': proofs.get('failing'), 'error': proofs['error']})
    if proofs.get('axioms'):
        allowed = set(classifiers.ALLOWED_AXIOMS)
        extra = [x for x in proofs['axioms'] if x not in allowed]
        if extra:
            broken.append({'kind': 'unexpected-axioms', 'axioms': extra})
    if proofs.get('forbidden'):
        broken.append({'kind': 'forbidden-construct', 'where': proofs['forbidden']})
    corr_fail = []
    for r in corr_results:
        for f in r.failures:
            kf = classifiers.match_known(f, known)
            if kf is None:
                corr_fail.append(f)
    if corr_fail:
        broken.append({'kind': 'correspondence', 'id': corr_fail[0].kind, 'mismatches': len(corr_fail),
                       'first': corr_fail[0].to_json()})
    extended = None
    if broken and not unlisted:
        # a broken tie / proof is not by itself a violation: search harder
        extended = classifiers.extended_search(prop, corr_fail, oracle_mods, tier)
        for f in extended.failures:
            if classifiers.match_known(f, known) is None:
                unlisted.append(f)
    if broken and not unlisted and corr_fail:
        # C18 / C20 / the line-column clause of C13 ARE statements of the form
        # "behaves like the reference (a plain list / a list with an index /
        # the line and column of the offset)", and the model is proved to be
        # that reference (C18_refines, C20_refines, clo_correct): a history on
        # which the implementation differs from the model is a history on
        # which the property fails.
        refines = {'C18': 'K-args', 'C20': 'K-buf', 'C13': 'K-clo'}
        for f in corr_fail:
            if refines.get(prop) and str(f.kind).startswith(refines[prop]):
                unlisted.append(f)
    if unlisted:
        # group by kind; one VIOLATION line per kind, smallest input as replay
        bykind = {}
        for f in unlisted:
            bykind.setdefault(f.kind, []).append(f)
        for kind, fs in sorted(bykind.items()):
            fs.sort(key=lambda f: len(str(f.inp)))
            f = fs[0]
            payload = f.to_json()
            payload['count_this_run'] = len(fs)
            payload['tier'] = tier
            payload['broken_obligations'] = broken
            path = write_replay(prop, payload)
            lines.append('VIOLATION property=%s replay=%s' % (prop, path))
            violations += 1
    elif broken:
        payload = {'property': prop, 'kind': 'no-failing-input-found', 'broken_obligations': broken,
                   'note': 'the property is no longer shown to hold: the named theorem / translation / '
                           'correspondence does not check against the current source, and the extended '
                           'search found no input on which the implementation violates the property',
                   'extended_search': extended.summary() if extended else None}
        path = write_replay(prop, payload)
        lines.append('VIOLATION property=%s replay=%s no-failing-input-found' % (prop, path))
        violations += 1
    # 6. evidence
    all_res = corr_results + [oracle]
    evals = sum(r.evaluations for r in all_res)
    nontriv = sum(len(r.nontrivial) for r in all_res)
    samples = []
    for r in all_res:
        for s in r.samples[:2]:
            samples.append({'from': r.name, 'case': s if isinstance(s, (str, int, list)) else repr(s)})
    for t in proofs['theorems'][:6]:
        samples.append({'from': 'obligation', 'case': t})
    manifest_note = classifiers.PROOF_NOTES.get(prop, '')
    ev = {
        'property_id': prop, 'tier': tier, 'seed': seed(), 'level': LEVEL,
        'coverage': {
            'obligations': max(1, proofs['obligations']) if proofs['obligations'] else 0,
            'discharged': proofs['discharged'],
            'checker_cmd': proofs.get('checker_cmd', 'coqc (Props file missing)'),
            'trusted_base': classifiers.TRUSTED_BASE + ['axioms reported by Print Assumptions: '
                                                        + (', '.join(proofs['axioms']) or 'none (%d theorems closed under the global context)' % proofs['closed'])],
            'theorems': proofs['theorems'],
            'proof_scope': manifest_note,
            'evaluations': evals,
            'distinct_nontrivial': nontriv,
            'rule': 'correspondence: identical canonical output of extracted model and implementation per case; '
                    'oracle: the property evaluated directly on the implementation. A case is non-trivial when '
                    'its input has more than one symbol / its history at least one step; distinct by value.',
            'samples': samples,
            'traces_validated_against_impl': sum(r.evaluations for r in corr_results),
            'exhaustive': any(r.exhaustive for r in all_res),
            'correspondence': [r.summary() for r in corr_results],
            'oracle': oracle.summary(),
            'build': build.to_json(),
            'build_note': build_note,
            'known_findings_seen': {k: len(v) for k, v in known_hits.items()},
            'broken_obligations': broken,
        },
        'assumptions': classifiers.ASSUMPTIONS,
        'wall_s': round(time.time() - t0, 2),
        'violations': violations,
    }
    if not ev['coverage']['obligations']:
        ev['coverage'].pop('obligations')
        ev['coverage'].pop('discharged')
    os.makedirs(os.path.join(VERIF, 'evidence'), exist_ok=True)
    with open(os.path.join(VERIF, 'evidence', prop + '.json'), 'w') as f:
        json.dump(ev, f, indent=1, default=str)
    for l in lines:
        print(l)
    print('%s %s: obligations %d/%d, correspondence %d cases (%d mismatches), oracle %d cases '
          '(%d failures, %d known), %.1fs' % (
              prop, tier, proofs['discharged'], proofs['obligations'],
              sum(r.evaluations for r in corr_results), len(corr_fail), oracle.evaluations,
              len(oracle.failures), sum(len(v) for v in known_hits.values()), time.time() - t0))
    return 1 if violations else 0


def replay(path, classifiers):
    with open(path) as f:
        payload = json.load(f)
    print(json.dumps(payload, indent=1)[:4000])
    return classifiers.replay(payload)


if __name__ == '__main__':
    try:
        sys.exit(main())
    except SystemExit:
        raise
    except BaseException:        # noqa: last resort - never die without a verdict line
        import traceback
        tb = traceback.format_exc()
        prop = next((a for a in sys.argv[1:] if re.fullmatch(r'C\d+', a)), 'C??')
        path = write_replay(prop, {'property': prop, 'kind': 'no-failing-input-found',
                                   'broken_obligations': [{'kind': 'harness-crash', 'stage': 'main',
                                                           'traceback': tb[-3000:]}],
                                   'note': 'the check itself crashed on this tree; the property is not shown to hold'})
        print(tb[-1500:])
        print('VIOLATION property=%s replay=%s no-failing-input-found' % (prop, path))
        sys.exit(1)
