"""Shared plumbing: failure records, known findings, evidence, parallel map."""
import hashlib
import json
import multiprocessing
import os
import random
import time

VERIF = os.path.dirname(os.path.dirname(os.path.abspath(__file__)))
REPO = os.environ.get('TEXSOUP_REPO', '/repo')
NPROC = int(os.environ.get('VERIF_NPROC', '16'))


def seed():
    try:
        return int(os.environ.get('VERIF_SEED', '20260926'))
    except ValueError:
        return 20260926


def rng_for(prop, salt=''):
    h = hashlib.sha256(('%d/%s/%s' % (seed(), prop, salt)).encode()).digest()
    return random.Random(int.from_bytes(h[:8], 'big'))


class Failure:
    """One input on which an oracle or a correspondence disagreed."""

    def __init__(self, prop, kind, inp, observed, expected, note='', opts=None):
        self.prop, self.kind = prop, kind
        self.inp, self.observed, self.expected = inp, observed, expected
        self.note, self.opts = note, (opts or {})

    def to_json(self):
        return {'property': self.prop, 'kind': self.kind, 'input': self.inp,
                'options': self.opts, 'observed': self.observed,
                'expected': self.expected, 'note': self.note}

    def key(self):
        return hashlib.sha1(json.dumps(self.to_json(), sort_keys=True,
                                       default=str).encode()).hexdigest()[:12]


class Result:
    """What one oracle / correspondence run covered and found."""

    def __init__(self, name):
        self.name = name
        self.evaluations = 0
        self.nontrivial = set()     # hashes of distinct non-trivial cases
        self.samples = []
        self.failures = []
        self.hist = {}
        self.exhaustive = False
        self.notes = []

    def count(self, key, n=1):
        self.hist[key] = self.hist.get(key, 0) + n

    def saw(self, case, nontrivial=True):
        self.evaluations += 1
        if nontrivial:
            self.nontrivial.add(hash(case))
        if len(self.samples) < 5 and nontrivial:
            self.samples.append(case if len(str(case)) < 400 else str(case)[:400] + '...')

    def fail(self, f):
        if len(self.failures) < 2000:
            self.failures.append(f)

    def merge(self, other):
        self.evaluations += other.evaluations
        self.nontrivial |= other.nontrivial
        self.samples += other.samples[:max(0, 8 - len(self.samples))]
        self.failures += other.failures
        for k, v in other.hist.items():
            self.count(k, v)
        self.notes += other.notes

    def summary(self):
        return {'name': self.name, 'evaluations': self.evaluations,
                'distinct_nontrivial': len(self.nontrivial),
                'failures': len(self.failures), 'exhaustive': self.exhaustive,
                'distribution': dict(sorted(self.hist.items())[:60]),
                'notes': self.notes[:10]}


def load_known():
    with open(os.path.join(VERIF, 'known_findings.json')) as f:
        return json.load(f)


def _limit_worker():
    """a worker that runs away (a mutated parser that no longer terminates can
    allocate without bound before the watchdog fires) gets MemoryError
    instead of taking the machine down"""
    import resource
    try:
        lim = int(os.environ.get('VERIF_WORKER_MEM_GB', '6')) * (1 << 30)
        resource.setrlimit(resource.RLIMIT_AS, (lim, lim))
    except (ValueError, OSError):
        pass


def pmap(fn, chunks, nproc=None):
    """Map fn over chunks in worker processes (fork), preserving order."""
    nproc = nproc or NPROC
    chunks = list(chunks)
    if nproc <= 1 or len(chunks) <= 1:
        return [fn(c) for c in chunks]
    ctx = multiprocessing.get_context('fork')
    with ctx.Pool(min(nproc, len(chunks)), initializer=_limit_worker) as pool:
        return pool.map(fn, chunks, chunksize=1)


def chunked(seq, n):
    seq = list(seq)
    k = max(1, (len(seq) + n - 1) // n)
    return [seq[i:i + k] for i in range(0, len(seq), k)]


def shrink_string(s, still_fails, max_steps=400):
    """Delta-debug a failing string to a locally minimal one."""
    steps = 0
    changed = True
    while changed and steps < max_steps:
        changed = False
        n = len(s)
        size = max(1, n // 2)
        while size >= 1 and steps < max_steps:
            i = 0
            while i < len(s) and steps < max_steps:
                cand = s[:i] + s[i + size:]
                steps += 1
                try:
                    bad = cand != s and still_fails(cand)
                except Exception:
                    bad = False
                if bad:
                    s = cand
                    changed = True
                else:
                    i += size
            size //= 2
    return s


class Timer:
    def __init__(self):
        self.t0 = time.time()

    def s(self):
        return round(time.time() - self.t0, 2)
