"""History oracles: C15 (edit histories vs a reference document model),
C18 (argument lists vs Python lists), C20 (Buffer vs list+index)."""
import itertools

import gen
import impl
import inputs
from common import Failure, Result, chunked, pmap, rng_for, NPROC
from impl import D, Token, Buffer
from oracles_parse import try_parse
from oracles_tree import check_views, check_search, all_nodes, is_text

TexNode = D.TexNode


# =================================================================== C15
# Reference document model: a rose tree of plain Python values.
#   text            -> str
#   node            -> dict(kind, name, args=[group...], body=[item...], open, close)
# Serialisation is concatenation.  It knows nothing of TexSoup's classes.

def to_model(x):
    if isinstance(x, TexNode):
        x = x.expr
    if isinstance(x, D.TexText) or not isinstance(x, D.TexExpr):
        return str(x)
    cls = type(x).__name__
    m = {'name': str(x.name), 'args': [to_model(a) for a in x.args],
         'body': [to_model(c) for c in x._contents]}
    if cls == 'TexCmd':
        m['kind'] = 'cmd'
    elif cls == 'TexNamedEnv':
        m['kind'] = 'env'
    elif cls == 'TexEnv':
        m['kind'] = 'root'
    else:
        m['kind'] = 'delim'
        m['open'], m['close'] = x.begin, x.end
    return m


def ser(m):
    if isinstance(m, str):
        return m
    inner = ''.join(ser(c) for c in m['body'])
    args = ''.join(ser(a) for a in m['args'])
    k = m['kind']
    if k == 'root':
        return inner
    if k == 'cmd':
        return '\\' + m['name'] + args + inner
    if k == 'env':
        return '\\begin{%s}' % m['name'] + args + inner + '\\end{%s}' % m['name']
    return m['open'] + args + inner + m['close']


def m_contents(m):
    """[(holder list, index)] in the order of the library's `contents` view"""
    out = []
    for a in m['args']:
        if isinstance(a, dict):
            for h, i in m_contents(a):
                it = h[i]
                if isinstance(it, str) and it.isspace():
                    continue
                out.append((h, i))
    for i, it in enumerate(m['body']):
        if isinstance(it, str) and it.isspace():
            continue
        out.append((m['body'], i))
    return out


def m_resolve(root, path):
    """path = indices through the `contents` view; returns (holder, index)"""
    m = root
    holder = idx = None
    for p in path:
        cs = m_contents(m)
        holder, idx = cs[p]
        m = holder[idx]
    return holder, idx


def i_resolve(soup, path):
    n = soup
    for p in path:
        n = n.contents[p]
    return n


def node_paths(m, prefix=()):
    out = []
    for k, (h, i) in enumerate(m_contents(m)):
        it = h[i]
        if isinstance(it, dict):
            out.append(prefix + (k,))
            out.extend(node_paths(it, prefix + (k,)))
    return out


DONOR = r'\new{n1}\begin{q}body \emph{e}\end{q}{grp}$m$\textit{it} '


def material(rng):
    pool = ['new', 'q', 'textit', '$', 'BraceGroup']
    out = []
    for _ in range(rng.randint(1, 2)):
        if rng.random() < 0.4:
            out.append(rng.choice(['plain ', 'X', ' two words ']))
        else:
            # copy() is shallow: take every node from its own parse so that no
            # expression object enters the tree twice (fresh material)
            out.append(impl.parse(DONOR).find(rng.choice(pool)).copy())
    return out


def supports_contents(m):
    return m['kind'] in ('env', 'root', 'delim') or (m['kind'] == 'cmd' and m['name'] == 'item')


OPS = ['delete', 'replace_with', 'insert', 'append', 'rename', 'set_string', 'args_append',
       'args_pop', 'args_reverse', 'args_insert', 'remove']


def apply_step(soup, model, rng):
    """choose one well-targeted operation, apply it to both; returns a
    description, or None when nothing applicable was found"""
    paths = node_paths(model)
    for _ in range(20):
        op = rng.choice(OPS)
        if op in ('insert', 'append'):
            conts = [()] + [p for p in paths if supports_contents(m_resolve(model, p)[0][m_resolve(model, p)[1]])]
            p = rng.choice(conts)
            target_m = model if p == () else (lambda h_i: h_i[0][h_i[1]])(m_resolve(model, p))
            node = i_resolve(soup, p)
            new = material(rng)
            newm = [to_model(x) for x in new]
            if op == 'append':
                node.append(*new)
                target_m['body'].extend(newm)
                return ('append', p, [ser(x) for x in newm])
            i = rng.randint(0, len(target_m['body']))
            if rng.random() < 0.2:
                # past the end: list.insert clamps, the items are appended in order
                i = len(target_m['body']) + rng.randint(1, 3)
            node.insert(i, *new)
            target_m['body'][i:i] = newm
            return ('insert', p, i, [ser(x) for x in newm])
        if not paths:
            continue
        p = rng.choice(paths)
        holder, idx = m_resolve(model, p)
        tm = holder[idx]
        node = i_resolve(soup, p)
        if op == 'delete':
            node.delete()
            del holder[idx]
            return ('delete', p)
        if op == 'remove':
            parent_m = model if len(p) == 1 else (lambda h_i: h_i[0][h_i[1]])(m_resolve(model, p[:-1]))
            if holder is not parent_m['body']:
                continue
            node.parent.remove(node)
            del holder[idx]
            return ('remove', p)
        if op == 'replace_with':
            new = material(rng)
            newm = [to_model(x) for x in new]
            node.replace_with(*new)
            holder[idx:idx + 1] = newm
            return ('replace_with', p, [ser(x) for x in newm])
        if op == 'rename':
            if tm['kind'] not in ('cmd', 'env') or tm['name'] == 'item':
                continue
            nm = rng.choice(['ren', 'zeta', 'Q'])
            node.name = nm
            tm['name'] = nm
            return ('rename', p, nm)
        if op == 'set_string':
            if tm['kind'] == 'cmd' and len(tm['args']) == 1 and isinstance(tm['args'][0], dict) \
                    and tm['args'][0]['kind'] == 'delim':
                s = rng.choice(['S1', 'new str', 'S1', 'new str', ''])
                node.string = s
                tm['args'][0]['body'] = [s]
                return ('set_string', p, s)
            continue
        if tm['kind'] not in ('cmd', 'env'):
            continue
        if op == 'args_append':
            g = rng.choice(['{ax}', '[bx]'])
            node.args.append(g)
            tm['args'].append({'kind': 'delim', 'name': '', 'args': [], 'body': [g[1:-1]],
                               'open': g[0], 'close': g[-1]})
            return ('args_append', p, g)
        if op == 'args_insert':
            g = rng.choice(['{ai}', '[bi]'])
            # every index a list takes, negative and out of range included
            i = rng.randint(-len(tm['args']) - 2, len(tm['args']) + 2)
            node.args.insert(i, g)
            tm['args'].insert(i, {'kind': 'delim', 'name': '', 'args': [], 'body': [g[1:-1]],
                                  'open': g[0], 'close': g[-1]})
            return ('args_insert', p, i, g)
        if op == 'args_pop':
            if not tm['args']:
                continue
            i = rng.randrange(-len(tm['args']), len(tm['args']))
            node.args.pop(i)
            tm['args'].pop(i)
            return ('args_pop', p, i)
        if op == 'args_reverse':
            if len(tm['args']) < 2:
                continue
            node.args.reverse()
            tm['args'].reverse()
            return ('args_reverse', p)
    return None


def run_history(src, rng, length, r, check_every=1):
    soup = impl.parse(src)
    model = to_model(soup.expr)
    hist = []
    for step in range(length):
        try:
            d = apply_step(soup, model, rng)
        except BaseException as ex:  # noqa
            r.fail(Failure('C15', 'edit-raises', src, type(ex).__name__ + ': ' + str(ex)[:100],
                           'edit applies', opts={'history': hist}))
            return
        if d is None:
            break
        hist.append(d)
        r.count('op:' + d[0])
        got, want = str(soup), ser(model)
        if got != want:
            r.fail(Failure('C15', 'text-differs-from-reference-model', src, got, want,
                           opts={'history': hist}))
            return
        before = len(r.failures)
        sub = Result('views')
        try:
            check_views(sub, None, soup, is_fresh_parse=False)
            check_search(sub, None, soup, rng, 4)
        except BaseException as ex:  # noqa
            r.fail(Failure('C15', 'views-raise-after-edit', src, type(ex).__name__ + ': ' + str(ex)[:100],
                           'views consistent', opts={'history': hist}))
            return
        if sub.failures:
            f = sub.failures[0]
            r.fail(Failure('C15', 'views-inconsistent-after-edit:' + f.kind, src, f.observed, f.expected,
                           opts={'history': hist, 'detail': f.opts}))
            return
        # inserted material is visible: every model node is reachable
        n_model = len(node_paths(model))
        n_impl = len(all_nodes(soup)) - 1
        if n_model != n_impl:
            r.fail(Failure('C15', 'nodes-lost-or-duplicated', src, n_impl, n_model,
                           opts={'history': hist}))
            return
    r.saw((src, tuple(map(str, hist))), nontrivial=len(hist) > 0)
    r.count('history-length:%d' % len(hist))


def _c15_chunk(arg):
    cases, salt, nh, length = arg
    r = Result('oracle-C15')
    rng = rng_for('C15', 'hist' + salt)
    for src in cases:
        soup, err = try_parse(src)
        if soup is None or str(soup) != src:
            continue
        for _ in range(nh):
            run_history(src, rng, rng.randint(1, length), r)
    return r


def oracle_C15(tier):
    n, nh, length = (40, 6, 12) if tier == 'quick' else (300, 12, 40)
    docs = [s for s, _ in inputs.grammar_docs('C15', n, 3, maxchars=300)]
    docs += ['\\a{x} mid \\a{x} end', '\\begin{e}{\\a}\\a\\end{e}',
             '\\begin{itemize}\\item a\\item a\\end{itemize}', '\\s{t}\\s{t}\\s{t}']
    # argument lists with textually equal groups (several copies so that the
    # random histories reach their argument-list operations)
    docs += ['\\cmd{a}{a} tail', '\\cmd{a}{b}{a} t', '\\cmd[a]{b}[a]', 'x \\cmd{a}{a}{b} \\k{v}{v}'] * 3
    res = Result('oracle-C15')
    for r in pmap(_c15_chunk, [(c, str(i), nh, length) for i, c in enumerate(chunked(docs, NPROC * 2))]):
        res.merge(r)
    res.notes.append('random well-targeted histories; after every step: text vs reference model, '
                     'C03/C04 relations, node count')
    return res


# =================================================================== C18

def mk_group(s):
    return D.BraceGroup(s[1:-1]) if s[0] == '{' else D.BracketGroup(s[1:-1])


POOL = ['{a}', '[b]', '{a}', '{c}', '[b]']
BAD = ['{x', 'y]', 'z', '{w]']


def args_ops(depth_pool):
    ops = []
    for s in ['{a}', '[b]', '{c}']:
        ops.append(('append_s', s))
        ops.append(('append_g', s))
    for i in (-3, -1, 0, 1, 2, 5):
        ops.append(('insert', i, '{a}'))
        ops.append(('insert', i, '[d]'))
    ops.append(('extend', ('{a}', '[b]')))
    # strings whose contents start / end with their own delimiter: coercion
    # strips exactly ONE delimiter on each side
    for s in ['{{a}c}', '[x[b]]', '{{n}}', '[[o]]', '{a}}', '[[b]']:
        ops.append(('append_s', s))
    ops.append(('insert', 0, '{{i}j}'))
    # any iterable is accepted by extend, one-shot iterators included
    ops.append(('extend_iter', ('{a}', '[e]')))
    for s in ['{a}', '[b]', '{z}']:
        ops.append(('remove', s))
    for i in (-1, 0, 1, 3):
        ops.append(('pop', i))
    ops += [('reverse',), ('clear',), ('getitem', 0), ('getitem', -1), ('slice', 0, 2),
            ('slice', 1, None), ('contains', 'a'), ('append_s', '{x'), ('append_s', 'z'),
            ('insert', 0, 'y]'), ('extend', ('{q}', '{bad'))]
    return ops


def apply_args_op(args, model, op, owner):
    """apply to TexArgs `args` and to plain list `model` (of strings);
    returns (impl outcome, model outcome)"""
    k = op[0]

    def ok_str(s):
        return (s.startswith('{') and s.endswith('}')) or (s.startswith('[') and s.endswith(']'))

    def run(f):
        try:
            return ('ok', f())
        except BaseException as e:  # noqa
            return ('exc', type(e).__name__)
    if k in ('append_s', 'append_g'):
        s = op[1]
        if k == 'append_g':
            io = run(lambda: args.append(mk_group(s)))
            mo = run(lambda: model.append(s))
        else:
            io = run(lambda: args.append(s))
            mo = run(lambda: model.append(s)) if ok_str(s) else ('exc', 'TypeError')
        return io, mo
    if k == 'insert':
        i, s = op[1], op[2]
        io = run(lambda: args.insert(i, s))
        mo = run(lambda: model.insert(i, s)) if ok_str(s) else ('exc', 'TypeError')
        return io, mo
    if k in ('extend', 'extend_iter'):
        io = run(lambda: args.extend(list(op[1]) if k == 'extend' else iter(list(op[1]))))

        def mext():
            for s in op[1]:
                if not ok_str(s):
                    raise TypeError
                model.append(s)
        mo = run(mext)
        return io, mo
    if k == 'remove':
        s = op[1]
        io = run(lambda: args.remove(s))
        mo = run(lambda: model.remove(s))
        return io, mo
    if k == 'pop':
        io = run(lambda: str(args.pop(op[1])))
        mo = run(lambda: model.pop(op[1]))
        return io, mo
    if k == 'reverse':
        return run(args.reverse), run(model.reverse)
    if k == 'clear':
        return run(args.clear), run(model.clear)
    if k == 'getitem':
        return run(lambda: str(args[op[1]])), run(lambda: model[op[1]])
    if k == 'slice':
        def isl():
            v = args[op[1]:op[2]]
            assert isinstance(v, D.TexArgs)
            return [str(x) for x in v]
        return run(isl), run(lambda: model[op[1]:op[2]])
    if k == 'contains':
        return run(lambda: op[1] in args), run(lambda: any(m[1:-1] == op[1] for m in model))
    raise AssertionError(op)


def _c18_run(seq, init, via='direct'):
    if via == 'direct':
        owner = D.TexCmd('own', args=[mk_group(s) for s in init])
        args = owner.args
    elif via == 'parsed':
        # the argument list of a node of a parsed document
        node = impl.parse('\\own' + ''.join(init) + '. tail').find('own')
        owner, args = node, node.args
    else:
        # ... assigned through the documented setter `node.args = TexArgs(..)`
        node = impl.parse('\\own{q}[r]{s}. tail').find('own')
        node.args = D.TexArgs([mk_group(s) for s in init])
        owner, args = node, node.args
    model = list(init)
    for step, op in enumerate(seq):
        io, mo = apply_args_op(args, model, op, owner)
        state = ([str(a) for a in args], len(args), str(args), str(owner))
        mstate = (list(model), len(model), ''.join(model), '\\own' + ''.join(model))
        if io != mo:
            # exception class may differ only in kind for out-of-range list errors
            return step, ('result', io, mo, state, mstate)
        if state != mstate:
            return step, ('state', io, mo, state, mstate)
    return None, None


def _c18_chunk(cases):
    r = Result('oracle-C18')
    for case in cases:
        init, seq = case[0], case[1]
        via = case[2] if len(case) > 2 else 'direct'
        r.saw((tuple(init), tuple(map(str, seq)), via), nontrivial=len(seq) > 0)
        r.count('list-obtained:' + via)
        step, d = _c18_run(seq, init, via)
        if d is not None:
            kind, io, mo, st, mst = d
            r.fail(Failure('C18', 'argument-list-differs-from-list-' + kind,
                           {'initial': list(init), 'via': via, 'ops': [list(map(str, o)) for o in seq[:step + 1]]},
                           {'returned': str(io), 'state': str(st)},
                           {'returned': str(mo), 'state': str(mst)}))
    return r


def oracle_C18(tier):
    ops = args_ops(None)
    depth = 2 if tier == 'quick' else 3
    inits = [[], ['{a}'], ['{a}', '[b]', '{a}']]
    cases = []
    for init in inits:
        for n in range(0, depth + 1):
            for seq in itertools.product(ops, repeat=n):
                cases.append((init, seq))
    # the same on the list of a PARSED node, and on a list assigned through the
    # node's `args` setter (one level shallower)
    for via in ('parsed', 'setter'):
        for init in inits + [['{x}', '[y]']]:
            for n in range(0, depth):
                for seq in itertools.product(ops, repeat=n):
                    cases.append((init, seq, via))
    nex = len(cases)
    rng = rng_for('C18', 'random')
    for _ in range(500 if tier == 'quick' else 20000):
        cases.append((rng.choice(inits), tuple(rng.choice(ops) for _ in range(rng.randint(4, 30))),
                      rng.choice(['direct', 'parsed', 'setter'])))
    res = Result('oracle-C18')
    for r in pmap(_c18_chunk, chunked(cases, NPROC * 2)):
        res.merge(r)
    res.notes.append('exhaustive: all %d sequences of length <= %d over %d operations from 3 initial lists'
                     % (nex, depth, len(ops)))
    return res


# =================================================================== C20

def buf_ops():
    ops = [('next',), ('hasNext', 1), ('hasNext', 2), ('peek', 0), ('peek', 1), ('peek', 3),
           ('peekr', 0, 2), ('peekr', 1, 3), ('peekr', -1, 1), ('peekr', -2, 0),
           ('forward', 1), ('forward', 2), ('backward', 1), ('backward', 2),
           ('slice', 0, 2), ('slice', 1, None), ('slice', None, 3), ('getitem', 0), ('getitem', 2),
           ('startswith', 'ab'), ('startswith', 'b'), ('endswith', 'a'), ('endswith', 'ab'),
           ('forward_until', 'c'), ('forward_until', 'z'), ('num_forward_until', 'c'),
           ('num_forward_until', 'z'), ('position',)]
    return ops


WIDE = {'a': 'ab', 'b': 'b', 'c': 'c'}     # multi-character items (token_backed == 2)


def items_of(seq, token_backed):
    if token_backed == 5:
        return list(seq)[1:]       # the wrapped buffer had already advanced by one
    return [WIDE[c] for c in seq] if token_backed == 2 else list(seq)


def mkbuf(seq, token_backed):
    if token_backed in (3, 4, 5, 6):
        # a buffer over ANOTHER buffer (what Buffer(tokenize(..)) is), the inner
        # one fresh (3), having looked ahead (4: peek, 6: peek(1)) or having
        # advanced (5): the outer one is a cursor over what the inner one has
        # not yet handed out
        inner = Buffer(iter([Token(c, 10 + 3 * i) for i, c in enumerate(seq)]))
        if token_backed == 4:
            inner.peek()
        elif token_backed == 6:
            inner.peek(1)
        elif token_backed == 5 and seq:
            inner.forward(1)
        return Buffer(inner)
    if token_backed == 2:
        pos, toks = 0, []
        for it in items_of(seq, 2):
            toks.append(Token(it, pos))
            pos += len(it)
        return Buffer(iter(toks))
    if token_backed:
        return Buffer(iter([Token(c, 10 + 3 * i) for i, c in enumerate(seq)]))
    return Buffer(seq)


def apply_buf_op(b, L, i, op):
    """returns (impl outcome, model outcome, new model index) or None when the
    operation is outside the property's domain in this state"""
    k = op[0]
    n = len(L)

    def run(f):
        try:
            v = f()
            return ('ok', None if v is None else (str(v) if not isinstance(v, (bool, int)) else v))
        except StopIteration:
            return ('exc', 'StopIteration')
        except BaseException as e:  # noqa
            return ('exc', type(e).__name__)
    if k == 'next':
        io = run(lambda: next(b))
        if i < n:
            return io, ('ok', L[i]), i + 1
        return io, ('exc', 'StopIteration'), i
    if k == 'hasNext':
        return run(lambda: b.hasNext(op[1])), ('ok', i + op[1] - 1 < n), i
    if k == 'peek':
        j = i + op[1]
        return run(lambda: b.peek(op[1])), ('ok', L[j] if j < n else None), i
    if k == 'peekr':
        lo, hi = i + op[1], i + op[2]
        if lo < 0:
            return None
        return run(lambda: b.peek((op[1], op[2]))), ('ok', ''.join(L[lo:hi])), i
    if k == 'forward':
        if i + op[1] > n:
            return None
        return run(lambda: b.forward(op[1])), ('ok', ''.join(L[i:i + op[1]])), i + op[1]
    if k == 'backward':
        if i - op[1] < 0:
            return None
        return run(lambda: b.backward(op[1])), ('ok', ''.join(L[i - op[1]:i])), i - op[1]
    if k == 'slice':
        return run(lambda: b[op[1]:op[2]]), ('ok', ''.join(L[op[1]:op[2]])), i
    if k == 'getitem':
        if op[1] >= n:
            return run(lambda: b[op[1]]), ('exc', 'IndexError'), i
        return run(lambda: b[op[1]]), ('ok', L[op[1]]), i
    if k == 'startswith':
        return run(lambda: b.startswith(op[1])), ('ok', ''.join(L[i:i + len(op[1])]).startswith(op[1])), i
    if k == 'endswith':
        if i - len(op[1]) < 0:
            return None
        return run(lambda: b.endswith(op[1])), ('ok', ''.join(L[i - len(op[1]):i]).endswith(op[1])), i
    if k == 'forward_until':
        j = i
        while j < n and L[j] != op[1]:
            j += 1
        return run(lambda: b.forward_until(lambda x: x in op[1])), ('ok', ''.join(L[i:j])), j
    if k == 'num_forward_until':
        j = i
        while j < n and L[j] != op[1]:
            j += 1
        return run(lambda: b.num_forward_until(lambda x: x in op[1])), ('ok', j - i), i
    if k == 'position':
        return run(lambda: b.position), ('ok', i), i
    raise AssertionError(op)


def _c20_run(seq, ops, tb):
    b = mkbuf(seq, tb)
    L = items_of(seq, tb)
    i = 0
    applied = []
    for op in ops:
        res = apply_buf_op(b, L, i, op)
        if res is None:
            continue       # out of the property's domain (out-of-range move)
        io, mo, i2 = res
        applied.append(op)
        if io != mo or b.position != i2:
            return applied, (io, b.position), (mo, i2)
        i = i2
    return None, None, None


def _c20_chunk(cases):
    r = Result('oracle-C20')
    for seq, ops, tb in cases:
        r.saw((seq, tuple(map(str, ops)), tb), nontrivial=len(ops) > 0)
        applied, got, want = _c20_run(seq, ops, tb)
        if applied is not None:
            r.fail(Failure('C20', 'buffer-differs-from-list-cursor',
                           {'sequence': seq, 'token_backed': tb,
                            'ops': [list(map(str, o)) for o in applied]},
                           str(got), str(want)))
    return r


def oracle_C20(tier):
    ops = buf_ops()
    depth, sl = (2, 3) if tier == 'quick' else (3, 4)
    seqs = [''.join(t) for n in range(0, sl + 1) for t in itertools.product('abc', repeat=n)]
    if tier == 'quick':
        seqs = [s for s in seqs if len(s) <= 2] + ['abc', 'aab', 'cab', 'abca'[:3]]
    cases = []
    for s in seqs:
        for n in range(0, depth + 1):
            for o in itertools.product(ops, repeat=n):
                cases.append((s, o, False))
                if len(s) <= 2 or tier != 'quick':
                    cases.append((s, o, True))
                if 'a' in s and (n <= 2 or tier != 'quick'):
                    cases.append((s, o, 2))        # items longer than one character
                if n <= 1 or (n <= 2 and len(s) <= 2) or tier != 'quick':
                    for tb in (3, 4, 5, 6):        # a buffer over a (used) buffer
                        if tb != 5 or s:
                            cases.append((s, o, tb))
    nex = len(cases)
    rng = rng_for('C20', 'random')
    for _ in range(1000 if tier == 'quick' else 30000):
        s = ''.join(rng.choice('abc') for _ in range(rng.randint(0, 8)))
        cases.append((s, tuple(rng.choice(ops) for _ in range(rng.randint(4, 40))),
                      rng.choice([False, True, 2, 3, 4, 5, 6])))
    res = Result('oracle-C20')
    for r in pmap(_c20_chunk, chunked(cases, NPROC * 2)):
        res.merge(r)
    res.notes.append('exhaustive: %d (sequence, operation sequence, backing) cases; depth <= %d' % (nex, depth))
    return res
