"""Correspondences beyond categorize/tokenize/parse: K-clo, K-buf, K-args,
K-view, K-edit.  A runner is registered when its module (and Coq model)
exists; `run` returns None for the others and the evidence says so."""
import importlib

RUNNERS = {}
for kind, mod in (('K-clo', 'corr_clo'), ('K-buf', 'corr_buf'), ('K-args', 'corr_args'),
                  ('K-view', 'corr_view'), ('K-edit', 'corr_edit')):
    try:
        RUNNERS[kind] = importlib.import_module(mod).run
    except ImportError:
        pass


def run(kind, prop, tier):
    f = RUNNERS.get(kind)
    if f is None:
        return None
    return f(prop, tier)
