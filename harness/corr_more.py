"""Correspondences beyond categorize/tokenize/parse: K-clo, K-buf, K-args,
K-view, K-edit.  A runner is registered when its module (and Coq model)
exists.  A module that cannot even be imported against the current /repo
(its self-checks on the implementation fail) is reported as a correspondence
failure of that kind, never as a crash of the check."""
import importlib
import traceback

from common import Failure, Result

RUNNERS = {}
IMPORT_ERRORS = {}
for kind, mod in (('K-clo', 'corr_clo'), ('K-buf', 'corr_buf'), ('K-args', 'corr_args'),
                  ('K-view', 'corr_view'), ('K-edit', 'corr_edit'), ('K-regex', 'corr_regex')):
    try:
        RUNNERS[kind] = importlib.import_module(mod).run
    except ImportError:
        pass
    except BaseException:          # noqa: self-check of the module failed on this /repo
        IMPORT_ERRORS[kind] = traceback.format_exc()[-1500:]


def run(kind, prop, tier):
    if kind in IMPORT_ERRORS:
        r = Result(kind)
        r.evaluations = 1
        r.fail(Failure(prop, kind, 'module self-check', {'implementation': IMPORT_ERRORS[kind]},
                       {'model': 'the donor/fixture documents parse as recorded'},
                       note='the correspondence module\'s own fixtures behave differently on this /repo'))
        return r
    f = RUNNERS.get(kind)
    if f is None:
        return None
    try:
        return f(prop, tier)
    except BaseException:          # noqa
        r = Result(kind)
        r.evaluations = 1
        r.fail(Failure(prop, kind, 'runner crashed', {'implementation': traceback.format_exc()[-1500:]},
                       {'model': 'runner completes'}, note='correspondence runner raised'))
        return r
