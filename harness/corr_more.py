"""Correspondences beyond categorize/tokenize/parse: K-clo, K-buf, K-args,
K-view, K-edit.  Each is added here when its Coq model exists; until then
`run` returns None and the evidence says so."""
RUNNERS = {}


def run(kind, prop, tier):
    f = RUNNERS.get(kind)
    if f is None:
        return None
    return f(prop, tier)
