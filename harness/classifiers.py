"""Known-finding classifiers, extended search after a broken tie, replay,
and the trusted-base / proof-scope texts that go into the evidence.

A classifier is a named predicate on a Failure.  It accepts a failure only
when the observed misbehaviour is *explained* by the recorded finding (the
same oracle passes once the recorded cause is normalised away), so that a
different violation of the same property is still reported.
"""
import json
import os
import re
import time

from common import Failure, Result, VERIF, load_known

ALLOWED_AXIOMS = []      # DESIGN.md section 7: none

TRUSTED_BASE = [
    'Coq 8.16.1 kernel (coqc, full .vo build; vm_compute used for finite table facts and examples; no native_compute)',
    'table translator harness/gen_tables.py (Python ast + import-and-dump of computed tables; fail-closed)',
    'extraction: ExtrOcamlBasic only (no Extract Constant, no further Extract Inductive); OCaml 4.13.1; ocaml/driver.ml line parser/printer',
    'correspondence harness (canonicaliser harness/impl.py, generators harness/gen.py, oracles) - bounded by the inputs it generates',
    'hand-written Coq model of control flow (theories/Model/*.v except Tables.v) - modelled, tied to the code only by the correspondence check',
    'CPython semantics of str/list/dict/enumerate/bisect/re/itertools assumed as documented',
]

ASSUMPTIONS = [
    'the theorems are about the Coq model; the model is tied to /repo by Tables.v regeneration and by differential correspondence on generated inputs',
    'running time and the interpreter recursion limit are outside the model',
]

# ------------------------------------------------------------------ known

WS = ' \t\n\r\x0b\x0c'


def name_padding_edits(src):
    """Candidate edits `(start, end, stripped)`: the contents of a brace group
    directly following \\begin / \\end (optional spacer allowed) whose text has
    leading or trailing whitespace - what TexExpr.__init__'s name.strip() would
    drop IF the parser took that group as an environment name.  The group is
    located with the library's own tokenizer (brace matching on tokens, so
    comments and escaped braces are respected); an unclosed group extends to
    the end of the input."""
    import impl
    try:
        toks = impl.tokens_of(src)
    except Exception:      # noqa
        return []
    edits, i, covered = [], 0, -1
    while i < len(toks) - 1:
        if toks[i][2] == 'Escape' and toks[i + 1][0] in ('begin', 'end') and toks[i][1] >= covered:
            j = i + 2
            if j < len(toks) and toks[j][2] == 'MergedSpacer':
                j += 1
            if j < len(toks) and toks[j][2] == 'GroupBegin':
                depth, k = 1, j + 1
                while k < len(toks) and depth > 0:
                    if toks[k][2] == 'GroupBegin':
                        depth += 1
                    elif toks[k][2] == 'GroupEnd':
                        depth -= 1
                    k += 1
                start = toks[j][1] + 1
                end = toks[k - 1][1] if depth == 0 else len(src)
                content = src[start:end]
                if content.strip() != content:
                    edits.append((start, end, content.strip()))
                    covered = end
        i += 1
    return edits


def apply_edits(src, edits):
    for start, end, rep in sorted(edits, reverse=True):
        src = src[:start] + rep + src[end:]
    return src


def strip_env_name_padding(src):
    return apply_edits(src, name_padding_edits(src))


def cls_env_name_padding(f):
    """C07/C08: the only unexplained difference is whitespace padding inside
    the braces of some \\begin/\\end name groups (those the parser really took
    as environment names: every subset of the candidate groups is tried, since
    a `\\end{` inside a verbatim body or a \\newcommand is not a name)."""
    import itertools
    src = f.inp if isinstance(f.inp, str) else None
    out = f.observed if isinstance(f.observed, str) else None
    if src is None or out is None:
        return False
    edits = name_padding_edits(src)
    import oracles_parse as op
    names = set()
    if f.kind == 'tolerant-output-not-input-plus-closers':
        names = set(re.findall(r'\\begin\{([^{}]*)\}', out))
        try:
            import impl
            names |= op.env_names(impl.parse(src, 1))
        except Exception:     # noqa
            pass
    if f.kind == 'tolerant-output-not-input-plus-closers' and re.search(r'\\(begin|end)', src):
        # names that contain nested environments / comments defeat the token
        # matcher above: fall back to the alignment itself, additionally allowed
        # to drop blanks at either end of a brace group's contents - accepted only
        # when the strict alignment fails and this one succeeds
        if op.only_closers_inserted(src, out, names) is not None and \
                op.only_closers_inserted(src, out, names, allow_name_padding=True) is None:
            return True
    edits = edits[:8]
    for r in range(len(edits), 0, -1):
        for sub in itertools.combinations(edits, r):
            norm = apply_edits(src, list(sub))
            if f.kind == 'tolerant-output-not-input-plus-closers':
                if op.only_closers_inserted(norm, out, names) is None:
                    return True
            elif f.kind == 'characters-not-conserved':
                if op.removed_arg_space_alignment(norm, out) is None:
                    return True
            elif f.kind == 'roundtrip':
                if norm == out:
                    return True
    return False


def cls_skip_env_body_starts_with_group(f):
    """C11: the body of a verbatim-like environment starts with blanks (at
    most one line break) followed by `{` or `[`: read as environment
    arguments by the required/optional argument loops."""
    src = f.inp if isinstance(f.inp, str) else None
    if src is None or f.kind not in ('body-not-single-raw-text', 'body-causes-parse-error',
                                     'user-name-differs-from-builtin'):
        return False
    import impl
    names = list(impl._pkg.tokens.SKIP_ENV_NAMES) + list((f.opts or {}).get('skip_envs', []))
    for nm in names:
        for m in re.finditer(r'\\begin\{%s\}([ \t]*\n?[ \t]*)[\[{]' % re.escape(nm), src):
            if m.group(1):
                return True
    return False


def cls_inline_math_then_dollar(f):
    """C12: the closing `$` of an inline region is directly followed by
    another `$`; the tokenizer reads the pair as one `$$` switch."""
    src = f.inp if isinstance(f.inp, str) else None
    if src is None or f.kind not in ('adjacent-regions-parse-fails', 'adjacent-regions-wrong-nodes'):
        return False
    i, n, state = 0, len(src), 'text'
    while i < n:
        c = src[i]
        if c == '\\':
            i += 2
            continue
        if c == '%':
            while i < n and src[i] != '\n':
                i += 1
            continue
        if c == '$':
            if state == 'text':
                if src.startswith('$$', i):
                    state, i = 'display', i + 2
                else:
                    state, i = 'inline', i + 1
                continue
            if state == 'inline':
                if src.startswith('$$', i):
                    return True        # close of inline math followed by `$`
                state, i = 'text', i + 1
                continue
            if state == 'display':
                if src.startswith('$$', i):
                    state, i = 'text', i + 2
                    continue
        i += 1
    return False


def cls_renamed_item_replace_only_child(f):
    """C15: the failing history renames an \\item and later replaces the only
    remaining child of that renamed command."""
    h = f.inp if isinstance(f.inp, (list, tuple, dict, str)) else None
    txt = json.dumps(h, default=str) if h is not None else ''
    return ('rename' in txt and 'replace' in txt and 'item' in txt
            and 'TypeError' in json.dumps([f.observed, f.note], default=str))


def cls_args_shadow_textual_lookup(f):
    """C15: an edit raises ValueError '... is not in list' from the shadow-list
    bookkeeping of TexArgs, after an argument-list operation earlier in the
    history on a node that had textually equal arguments."""
    obs = json.dumps([f.observed, f.note], default=str)
    if 'ValueError' not in obs or 'is not in list' not in obs:
        return False
    hist = json.dumps((f.opts or {}).get('history', f.inp), default=str)
    return 'args_pop' in hist or 'args_' in hist


def cls_attribute_shadowed_by_api(f):
    """C03: attribute access differs from find for a name of the recorded node API."""
    if f.kind != 'getattr':
        return False
    try:
        with open(os.path.join(os.path.dirname(os.path.abspath(__file__)), 'baseline_api.json')) as fh:
            base = set(json.load(fh))
    except Exception:      # noqa
        return False
    return (f.opts or {}).get('name') in base


def _env_names_of(src):
    """names of the environments of the tolerant parse of src (as strings)"""
    import impl
    try:
        soup = impl.with_watchdog(5, impl.parse, src, 1, ())
        import oracles_parse as op
        return set(op.env_names(soup))
    except BaseException:      # noqa
        return set()


def cls_bracket_env_name(f):
    """C08/C07: the only unexplained difference is a bracket group used as the
    name of \\begin / \\end, printed back with braces."""
    src = f.inp if isinstance(f.inp, str) else None
    out = f.observed if isinstance(f.observed, str) else None
    if src is None or out is None:
        return False
    norm = re.sub(r'(\\(?:begin|end)[ \t]*\n?[ \t]*)\[([^\[\]{}\\$%]*)\]', r'\1{\2}', src)
    import oracles_parse as op
    if norm == src:
        # the bracket group used as a name may itself be unclosed or hold
        # markup: write it with braces (the `[` alone, or with one of the `]`
        # after it) and see whether the implementation then yields the very
        # same output, which differs from that variant by closers only
        if f.kind != 'tolerant-output-not-input-plus-closers':
            return False
        import impl
        for m in re.finditer(r'\\(?:begin|end)[ \t]*\n?[ \t]*\[', src):
            k = m.end() - 1
            closes = [i for i, c in enumerate(src) if c == ']' and i > k][:4]
            for j in [None] + closes:
                v = src[:k] + '{' + (src[k + 1:] if j is None else src[k + 1:j] + '}' + src[j + 1:])
                try:
                    out_v = str(impl.with_watchdog(5, impl.parse, v, 1, ()))
                except BaseException:      # noqa
                    continue
                names = set(re.findall(r'\\begin\{(.*?)\}(?=\\end|$)', out, re.S)) | \
                    set(re.findall(r'\\begin\{([^{}]*)\}', out))
                if out_v == out and op.only_closers_inserted(v, out, names | _env_names_of(v)) is None:
                    return True
        # last resort: align directly, letting `[`..`]` after \begin / \end
        # stand for the `{`..`}` of the output
        if re.search(r'\\(?:begin|end)[ \t]*\n?[ \t]*\[', src):
            return op.only_closers_inserted(src, out, _env_names_of(src), allow_bracket_names=True) is None
        return False
    if f.kind == 'tolerant-output-not-input-plus-closers':
        names = set(re.findall(r'\\begin\{([^{}]*)\}', out))
        return op.only_closers_inserted(norm, out, names) is None
    if f.kind == 'characters-not-conserved':
        return op.removed_arg_space_alignment(norm, out) is None
    return False


def cls_skip_name_not_five_tokens(f):
    """C11: a user-supplied skip name that is not one Text token."""
    names = (f.opts or {}).get('skip_envs', [])
    return any(not re.fullmatch(r'[A-Za-z*]+', n or '') for n in names)


def cls_env_matched_by_end(f):
    """C03/C15: the query is the text of a plain `\\end{name}` command and the
    surplus matches are environments matched through their closing delimiter."""
    if not f.kind.endswith('full-expression-query'):
        return False
    o = f.opts or {}
    q = o.get('query') or (o.get('detail') or {}).get('query') or ''
    try:
        return q.startswith('\\end{') and int(f.observed) > int(f.expected)
    except (TypeError, ValueError):
        return False


def cls_bare_arg_braces(f):
    """C07: the input has a fixed-signature command whose mandatory argument
    is a bare token."""
    import oracles_parse as op
    return isinstance(f.inp, str) and f.kind == 'tolerant-output-not-input-plus-closers' \
        and op.has_bare_sig_arg(f.inp)


def reproduces(k):
    """Replay the recorded example of a known finding on the current tree."""
    import impl
    kid = k['id']
    try:
        if kid == 'KF-env-name-padding':
            s = '\\begin{ a }x\\end{a}'
            return str(impl.parse(s)) != s
        if kid == 'KF-bracket-env-name':
            s = '\\begin{a}\\end[a]x'
            return str(impl.parse(s)) != s
        if kid == 'KF-skip-name-not-five-tokens':
            s = '\\begin{a[b}x\\end{a[b}y'
            return str(impl.parse(s, 0, ('a[b',))) != s
        if kid == 'KF-env-matched-by-end':
            soup = impl.parse('\\newcommand{\\R}{\\end{a}}\\begin{a}x\\end{a}')
            return len(soup.find_all('\\end{a}')) != 1
        if kid == 'KF-bare-arg-braces':
            return str(impl.parse('\\textbf x', 1)) != '\\textbf x'
        if kid == 'KF-skip-env-body-group':
            soup = impl.parse('\\begin{verbatim}\n{x}\n\\end{verbatim}')
            return [str(c) for c in soup.verbatim.expr._contents] != ['\n{x}\n']
        if kid == 'KF-inline-then-dollar':
            try:
                impl.parse('$a$$b$')
                return False
            except EOFError:
                return True
        if kid == 'KF-attribute-access-shadowed-by-node-api':
            soup = impl.parse('\\text{x} and \\count{y}')
            t, c = soup.find('text'), soup.find('count')
            return t is not None and c is not None and not (
                isinstance(soup.text, type(t)) and isinstance(soup.count, type(c)))
        if kid == 'KF-args-shadow-list-textual-lookup':
            soup = impl.parse('\\k{v}{v}')
            k = soup.find('k')
            k.args.pop(-1)
            k.string = 'new str'
            try:
                k.args.append('{z}')
            except ValueError:
                return True
            return str(soup) != '\\k{new str}{z}'
        if kid == 'KF-renamed-item-replace-only-child':
            soup = impl.parse('\\begin{itemize}\\item\\c\\end{itemize}')
            soup.contents[0].contents[0].name = 'foo'
            try:
                soup.contents[0].contents[0].contents[0].replace_with('X')
            except TypeError:
                return str(soup) != '\\begin{itemize}\\fooX\\end{itemize}'
            return str(soup) != '\\begin{itemize}\\fooX\\end{itemize}'
    except Exception:      # noqa
        return True
    return True


CLASSIFIERS = {
    'bare_arg_braces': cls_bare_arg_braces,
    'env_matched_by_end': cls_env_matched_by_end,
    'renamed_item_replace_only_child': cls_renamed_item_replace_only_child,
    'args_shadow_textual_lookup': cls_args_shadow_textual_lookup,
    'attribute_shadowed_by_api': cls_attribute_shadowed_by_api,
    'bracket_env_name': cls_bracket_env_name,
    'skip_name_not_five_tokens': cls_skip_name_not_five_tokens,
    'env_name_padding': cls_env_name_padding,
    'skip_env_body_starts_with_group': cls_skip_env_body_starts_with_group,
    'inline_math_then_dollar': cls_inline_math_then_dollar,
}


def match_known(f, known):
    for k in known:
        if k.get('status') != 'known':
            continue          # `fixed:` entries suppress nothing
        if f.prop not in k.get('properties', [k.get('property')]):
            continue
        fn = CLASSIFIERS.get(k.get('classifier'))
        if fn is None:
            continue
        try:
            if fn(f):
                return k
        except Exception:       # a classifier never hides a failure by crashing
            continue
    return None


# --------------------------------------------------------------- extended

def _per_input_checks(prop):
    """oracle entry points that take raw strings, per property"""
    import oracles_parse as op
    table = {
        'C01': lambda ss: op._c01_chunk([(s, False, 'mismatch') for s in ss]),
        'C06': lambda ss: op._c06_chunk((ss, 5.0)),
        'C07': op._c07_chunk,
        'C08': op._c08_chunk,
        'C16': op._c16_chunk,
        'C19': op._c19_tok_chunk,
    }
    return table.get(prop)


def neighbours(s, limit=200):
    out = [s]
    for i in range(len(s)):
        out.append(s[:i] + s[i + 1:])
    for i in range(len(s) + 1):
        out.append(s[:i])
    seen, res = set(), []
    for x in out:
        if x not in seen:
            seen.add(x)
            res.append(x)
    return res[:limit]


def extended_search(prop, corr_fail, oracle_mods, tier):
    """After a broken proof / translation / correspondence with no oracle
    failure: look harder for an input on which the implementation violates
    the property - the mismatching inputs and their neighbours through the
    property's per-input oracle, then the property's oracle at the thorough
    tier under a fresh salt."""
    res = Result('extended-search')
    t0 = time.time()
    chk = _per_input_checks(prop)
    if chk is not None and corr_fail:
        strs = []
        for f in corr_fail[:40]:
            if isinstance(f.inp, str):
                strs.extend(neighbours(f.inp))
        if strs:
            try:
                res.merge(chk(strs))
            except Exception as e:           # noqa
                res.notes.append('per-input search crashed: %r' % (e,))
    if not res.failures:
        os.environ['VERIF_SEED'] = str(int(os.environ.get('VERIF_SEED', '20260926')) + 7919)
        for m in oracle_mods:
            f = getattr(m, 'oracle_' + prop, None)
            if f is not None:
                try:
                    res.merge(f('thorough' if tier == 'quick' else 'thorough'))
                except Exception as e:       # noqa
                    res.notes.append('thorough oracle crashed: %r' % (e,))
    res.notes.append('extended search took %.1fs' % (time.time() - t0))
    return res


# ----------------------------------------------------------------- replay

def replay(payload):
    """Re-run what a replay file describes against the current tree."""
    import impl
    prop = payload.get('property')
    inp = payload.get('input')
    if payload.get('kind') == 'no-failing-input-found':
        print('replay: broken obligations (no failing input was found):')
        for b in payload.get('broken_obligations', []):
            print('  ', json.dumps(b)[:400])
        return 1
    if isinstance(inp, str):
        opts = payload.get('options') or {}
        tol = opts.get('tolerance', 0)
        skip = tuple(opts.get('skip_envs', ()))
        print('replay: parse(%r, tolerance=%r, skip_envs=%r) ->' % (inp, tol, skip))
        print('  ', impl.canon_parse(inp, tol, skip, watchdog=20)[:800])
        chk = _per_input_checks(prop)
        if chk is not None:
            r = chk([inp])
            known = load_known()
            bad = [f for f in r.failures if match_known(f, known) is None]
            print('replay: %d failure(s) on this input now' % len(bad))
            return 1 if bad else 0
    print('replay: re-run `./check %s` for histories / structured cases' % prop)
    return 1


# ------------------------------------------------------- proof scope notes

PROOF_NOTES = {}
try:
    with open(os.path.join(VERIF, 'harness', 'proof_notes.json')) as _f:
        PROOF_NOTES = json.load(_f)
except (OSError, ValueError):
    pass
