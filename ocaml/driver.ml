(* Driver for the extracted model: reads one case per line on stdin, prints one
   canonical result per line on stdout -- the same text harness/impl.py prints
   for the implementation.

     C <lo> <hi>                       run-length encoded categories of code points lo..hi-1
     T <cps>                           tokenize
     P <tol> <skip,skip|-> <cps>       parse (tol: 0 strict / 1 tolerant)
     X <model> <int> <int> ...         generic: run_<model> : list Z -> list Z (the case is
                                       decoded and the result encoded inside Coq)
   <cps> = '.'-joined decimal code points, '-' for the empty string.      *)
open Model

let rec pos_of_int (i : int) : positive =
  if i = 1 then XH
  else if i land 1 = 0 then XO (pos_of_int (i lsr 1))
  else XI (pos_of_int (i lsr 1))

let n_of_int (i : int) : n = if i = 0 then N0 else Npos (pos_of_int i)

let rec int_of_pos = function
  | XH -> 1
  | XO p -> 2 * int_of_pos p
  | XI p -> 2 * int_of_pos p + 1

let z_of_int (i : int) : z =
  if i = 0 then Z0 else if i > 0 then Zpos (pos_of_int i) else Zneg (pos_of_int (- i))

let int_of_n = function N0 -> 0 | Npos p -> int_of_pos p
let int_of_z = function Z0 -> 0 | Zpos p -> int_of_pos p | Zneg p -> - (int_of_pos p)

let str_of_cps (s : string) : n list =
  if s = "-" || s = "" then []
  else List.map (fun x -> n_of_int (int_of_string x)) (String.split_on_char '.' s)

let cps_of_str (l : n list) : string =
  match l with
  | [] -> "-"
  | _ -> String.concat "." (List.map (fun c -> string_of_int (int_of_n c)) l)

let cc_name = function
  | CEscape -> "Escape" | CGroupBegin -> "GroupBegin" | CGroupEnd -> "GroupEnd"
  | CMathSwitch -> "MathSwitch" | CAlignment -> "Alignment" | CEndOfLine -> "EndOfLine"
  | CMacro -> "Macro" | CSuperscript -> "Superscript" | CSubscript -> "Subscript"
  | CIgnored -> "Ignored" | CSpacer -> "Spacer" | CLetter -> "Letter" | COther -> "Other"
  | CActive -> "Active" | CComment -> "Comment" | CInvalid -> "Invalid"
  | CMathGroupBegin -> "MathGroupBegin" | CMathGroupEnd -> "MathGroupEnd"
  | CBracketBegin -> "BracketBegin" | CBracketEnd -> "BracketEnd"
  | CParenBegin -> "ParenBegin" | CParenEnd -> "ParenEnd"

let tc_name = function
  | TEscape -> "Escape" | TGroupBegin -> "GroupBegin" | TGroupEnd -> "GroupEnd"
  | TComment -> "Comment" | TMergedSpacer -> "MergedSpacer" | TEscapedComment -> "EscapedComment"
  | TMathSwitch -> "MathSwitch" | TDisplayMathSwitch -> "DisplayMathSwitch"
  | TMathGroupBegin -> "MathGroupBegin" | TMathGroupEnd -> "MathGroupEnd"
  | TDisplayMathGroupBegin -> "DisplayMathGroupBegin"
  | TDisplayMathGroupEnd -> "DisplayMathGroupEnd" | TLineBreak -> "LineBreak"
  | TCommandName -> "CommandName" | TText -> "Text" | TBracketBegin -> "BracketBegin"
  | TBracketEnd -> "BracketEnd" | TParenBegin -> "ParenBegin" | TParenEnd -> "ParenEnd"
  | TPunctuationCommandName -> "PunctuationCommandName" | TSizeCommand -> "SizeCommand"
  | TSpacer -> "Spacer"

let mk_name = function
  | MInline -> "Inline" | MDisplay -> "Display" | MParen -> "Paren" | MBracket -> "Bracket"
let gk_name = function GBrace -> "Brace" | GBracket -> "Bracket"

let err_name = function
  | EOFError -> "EOFError" | TypeError -> "TypeError" | AssertionError -> "AssertionError"
  | StopIteration -> "RuntimeError"     (* StopIteration inside a generator *)
  | KeyError -> "KeyError" | TokenizerError -> "AttributeError" | OutOfFuel -> "OutOfFuel"

let rec canon (b : Buffer.t) (e : expr) : unit =
  let list l =
    Buffer.add_char b '[';
    List.iteri (fun i x -> if i > 0 then Buffer.add_char b ' '; canon b x) l;
    Buffer.add_char b ']' in
  match e with
  | EText t ->
    Buffer.add_string b (Printf.sprintf "(T %s %d %s)" (tc_name t.tcat) (int_of_z t.tpos) (cps_of_str t.ttext))
  | ERaw (s, p) -> Buffer.add_string b (Printf.sprintf "(R %d %s)" (int_of_z p) (cps_of_str s))
  | EStr s -> Buffer.add_string b (Printf.sprintf "(S %s)" (cps_of_str s))
  | ECmd (n, a, c, p) ->
    Buffer.add_string b (Printf.sprintf "(C %s %d " (cps_of_str n) (int_of_z p));
    list a; Buffer.add_char b ' '; list c; Buffer.add_char b ')'
  | ENamed (n, a, c, p) ->
    Buffer.add_string b (Printf.sprintf "(N %s %d " (cps_of_str n) (int_of_z p));
    list a; Buffer.add_char b ' '; list c; Buffer.add_char b ')'
  | EMath (k, c, p) ->
    Buffer.add_string b (Printf.sprintf "(M %s %d " (mk_name k) (int_of_z p));
    list c; Buffer.add_char b ')'
  | EGroup (k, c, p) ->
    Buffer.add_string b (Printf.sprintf "(G %s %d " (gk_name k) (int_of_z p));
    list c; Buffer.add_char b ')'
  | ERoot c -> Buffer.add_string b "(ROOT "; list c; Buffer.add_char b ')'

let do_tokens (s : n list) : string =
  let (toks, e) = tokens_of_string s in
  match e with
  | TEnd ->
    "OK " ^ String.concat " "
      (List.map (fun t -> Printf.sprintf "(%s %d %s)" (tc_name t.tcat) (int_of_z t.tpos) (cps_of_str t.ttext)) toks)
  | TEndErr -> "ERR AttributeError"
  | TEndHang -> "ERR Hang"
  | TEndFuel -> "ERR OutOfFuel"

let do_parse (tol : int) (skips : n list list) (s : n list) : string =
  match parse s (tol = 0) skips with
  | Ok e ->
    let b = Buffer.create 256 in
    Buffer.add_string b "OK ";
    canon b e;
    Buffer.add_string b " | ";
    Buffer.add_string b (cps_of_str (estr e));
    Buffer.contents b
  | Err e -> "ERR " ^ err_name e

let do_cats (lo : int) (hi : int) : string =
  (* run-length encoding: name*count ... *)
  let b = Buffer.create 256 in
  let cur = ref "" and cnt = ref 0 in
  let flush () =
    if !cnt > 0 then Buffer.add_string b (Printf.sprintf "%s*%d " !cur !cnt) in
  for cp = lo to hi - 1 do
    let nm = cc_name (categorize_char (n_of_int cp)) in
    if nm = !cur then incr cnt else begin flush (); cur := nm; cnt := 1 end
  done;
  flush ();
  Buffer.contents b

let () =
  try
    while true do
      let line = input_line stdin in
      let out =
        try
          match String.split_on_char ' ' line with
          | ["C"; lo; hi] -> do_cats (int_of_string lo) (int_of_string hi)
          | ["T"; s] -> do_tokens (str_of_cps s)
          | ["P"; tol; sk; s] ->
            let skips = if sk = "-" then [] else List.map str_of_cps (String.split_on_char ',' sk) in
            do_parse (int_of_string tol) skips (str_of_cps s)
          | "X" :: name :: ints ->
            let inp = List.map (fun x -> z_of_int (int_of_string x)) (List.filter (fun x -> x <> "") ints) in
            let f = (match name with
              | "clo" -> run_clo | "buf" -> run_buf | "args" -> run_args
              | "view" -> run_view | "edit" -> run_edit | "regex" -> run_regex
              | _ -> failwith "unknown model") in
            String.concat " " (List.map (fun z -> string_of_int (int_of_z z)) (f inp))
          | _ -> "BAD-REQUEST"
        with Stack_overflow -> "ERR StackOverflow"
      in
      print_string out; print_char '\n'
    done
  with End_of_file -> ()
